"""C20 implementation runner: builds the built-in msdm domains through their public constructors and
dumps everything the property speaks about (state list, actions, next-state / initial / observation
distributions, rewards, is_absorbing, tabular arrays, ValueIteration) with every float as an exact rational."""
import os, sys
sys.path.insert(0, os.path.dirname(os.path.abspath(__file__)))
from build import *


def err(e):
    return type(e).__name__ + ": " + str(e)[:300]


def guarded(fn):
    try:
        return fn()
    except BaseException as e:
        if isinstance(e, (KeyboardInterrupt, SystemExit)):
            raise
        return {"error": err(e)}


def num(x):
    """exact encoding of a reward / probability (python int, float or numpy scalar)"""
    if isinstance(x, bool):
        return [int(x), 1]
    if isinstance(x, int):
        return [x, 1]
    return fj(x)


def feats_form(chars, form):
    """feature collections in every form the constructors accept"""
    if form == "list":
        return list(chars)
    if form == "str":
        return "".join(chars)
    return tuple(chars)


def pad_grid(rows, pad):
    """GridMDP / HeavenOrHell strip every row and drop surrounding blank lines"""
    if not pad:
        return "\n".join(rows)
    return "\n\n" + "\n".join("        " + r + "  " for r in rows) + "\n    \n"


SNAP = []        # (name, caller's object handed to a constructor, deep copy taken before the call)
SHARED_VI = []   # one ValueIteration object reused over all problems of the process


def snap(name, obj):
    import copy
    if isinstance(obj, (list, dict)):
        SNAP.append((name, obj, copy.deepcopy(obj)))
    return obj


def build(case, decoy=False):
    from fractions import Fraction as _F
    ints = case.get("ints", False)
    np32 = case.get("np32", False)

    def fl(s):          # shadows build.fl: integral parameters as python ints / numpy float32 scalars when the case asks
        f = _F(s)
        if ints and f.denominator == 1:
            return int(f)
        if np32:
            import numpy as np
            return np.float32(float(f))
        return float(f)
    k = case["kind"]
    if decoy:           # same class, different numbers: mirrored layout (used to poison class-level caches)
        case = dict(case)
        if case.get("rows"):
            case["rows"] = [r[::-1] for r in case["rows"]][::-1]
    if k == "gridworld":
        from msdm.domains.gridworld.mdp import GridWorld
        ta = case.get("tile_as", "list")
        tiles = {"list": list(case["rows"]), "tuple": tuple(case["rows"]), "str": "\n".join(case["rows"]),
                 "str_padded": "\n" + "\n".join(case["rows"]) + "\n"}[ta]
        ff = case.get("feat_form", "tuple")
        kw = dict(absorbing_features=feats_form(case["absorbing_features"], ff),
                  wall_features=feats_form(case["wall_features"], ff),
                  initial_features=feats_form(case["initial_features"], ff),
                  step_cost=fl(case["step_cost"]), success_prob=fl(case["success_prob"]),
                  discount_rate=fl(case["discount_rate"]))
        if case["feature_rewards"] is not None:
            fr = {f: fl(r) for f, r in case["feature_rewards"].items()}
            kw["feature_rewards"] = list(fr.items()) if case.get("frew_form") == "pairs" else fr
        if not decoy:
            snap("tile_array", tiles)
            for kk in ("absorbing_features", "wall_features", "initial_features", "feature_rewards"):
                snap(kk, kw.get(kk))
        m = GridWorld(tiles, **kw)
        return m, (lambda s: [s['x'], s['y']]), (lambda a: [a['dx'], a['dy']]), None
    if k == "windy":
        from msdm.domains.gridmdp.windygridworld import WindyGridWorld
        kw = dict(step_cost=fl(case["step_cost"]), wall_bump_cost=fl(case["wall_bump_cost"]),
                  wind_probability=fl(case["wind_probability"]), discount_rate=fl(case["discount_rate"]))
        if case["feature_rewards"] is not None:
            kw["feature_rewards"] = {f: fl(r) for f, r in case["feature_rewards"].items()}
        for key in ("start_features", "goal_features", "wall_features"):
            if case.get(key) is not None:
                kw[key] = case[key]
        if not decoy:
            snap("feature_rewards", kw.get("feature_rewards"))
        m = WindyGridWorld(pad_grid(case["rows"], case.get("pad")), **kw)
        return m, (lambda s: [s.x, s.y]), (lambda a: [a.dx, a.dy]), None
    if k == "cliff":
        from msdm.domains.cliffwalking import CliffWalking
        m = CliffWalking()
        return m, (lambda s: [s.x, s.y]), (lambda a: [a.dx, a.dy]), None
    if k == "tiger":
        from msdm.domains.tiger import Tiger
        m = Tiger(coherence=fl(case["coherence"]), discount_rate=fl(case["discount_rate"]))
        return m, (lambda s: s), (lambda a: a), (lambda o: o)
    if k == "loadunload":
        from msdm.domains.loadunload import LoadUnload
        m = LoadUnload(nstates=int(case["nstates"]), discount_rate=fl(case["discount_rate"]))
        return m, (lambda s: [int(s.location), bool(s.is_loaded)]), (lambda a: [int(a.dlocation)]), (lambda o: o)
    if k == "heavenorhell":
        from msdm.domains.heavenorhell import HeavenOrHell
        kw = dict(coherence=fl(case["coherence"]), discount_rate=fl(case["discount_rate"]),
                  step_cost=fl(case["step_cost"]), heaven_reward=fl(case["heaven_reward"]),
                  hell_reward=fl(case["hell_reward"]))
        if case["rows"] is not None:
            kw["grid"] = pad_grid(case["rows"], case.get("pad"))
        m = HeavenOrHell(**kw)
        return (m, (lambda s: [s.x, s.y, s.heaven, s.hell]), (lambda a: [a.dx, a.dy, bool(a.read)]),
                (lambda o: [o.x, o.y, o.heaven]))
    raise ValueError("unknown kind " + k)


def dump_plain(m, es, ea):
    """state list, per-state rows and initial distribution of a freshly built object (raises on any error)"""
    sl = list(m.state_list)
    rows = []
    for s in sl:
        acts = list(m.actions(s))
        rows.append({"abs": bool(m.is_absorbing(s)), "actions": [ea(a) for a in acts],
                     "next": [[[es(ns), num(p), num(m.reward(s, a, ns)) if p > 0 else None]
                               for ns, p in m.next_state_dist(s, a).items()] for a in acts]})
    init = [[es(s), num(p)] for s, p in m.initial_state_dist().items()]
    return [es(s) for s in sl], rows, init


def shared_snapshot():
    """module / class level objects msdm hands out to every caller"""
    import copy
    from msdm.domains.gridworld import mdp as gwm
    from msdm.domains.loadunload import LoadUnload
    def cls_list(name):      # class-level lists (a rewrite may turn them into properties: then nothing is shared)
        v = LoadUnload.__dict__.get(name)
        return list(v) if isinstance(v, (list, tuple)) else None
    return copy.deepcopy([dict(gwm.TERMINALSTATE), getattr(gwm.TERMINALDIST, "value", None), cls_list("action_list"),
                          cls_list("observation_list")])


def one(case, pl):
    import numpy as np
    res = {}
    del SNAP[:]
    shared0 = shared_snapshot()
    if case.get("decoy"):
        try:
            dm = build(case, decoy=True)[0]
            dm.transition_matrix, dm.reward_matrix, dm.initial_state_vec
        except BaseException as e:
            if isinstance(e, (KeyboardInterrupt, SystemExit)):
                raise
    try:
        m, es, ea, eo = build(case)
    except BaseException as e:
        if isinstance(e, (KeyboardInterrupt, SystemExit)):
            raise
        return {"stage_error": {"construct": err(e)}}
    stage_error = {}
    res["stage_error"] = stage_error

    # --- initial distribution -------------------------------------------------------------
    def f_init():
        d = m.initial_state_dist()
        return [[es(s), num(p)] for s, p in d.items()]
    r = guarded(f_init)
    if isinstance(r, dict):
        stage_error["init"] = r["error"]
    else:
        res["init"] = r

    # --- state list --------------------------------------------------------------------
    try:
        sl = list(m.state_list)
        res["state_list"] = [es(s) for s in sl]
    except BaseException as e:
        if isinstance(e, (KeyboardInterrupt, SystemExit)):
            raise
        stage_error["state_list"] = err(e)
        return res

    # --- per state: is_absorbing, actions, next-state distributions, rewards --------------------
    rows = []
    for s in sl:
        row = {}
        try:
            row["abs"] = bool(m.is_absorbing(s))
            acts = list(m.actions(s))
            row["actions"] = [ea(a) for a in acts]
            row["next"] = []
            for a in acts:
                d = m.next_state_dist(s, a)
                ent = []
                for ns, p in d.items():
                    ent.append([es(ns), num(p), num(m.reward(s, a, ns)) if p > 0 else None])
                row["next"].append(ent)
        except BaseException as e:
            if isinstance(e, (KeyboardInterrupt, SystemExit)):
                raise
            stage_error.setdefault("next", err(e))
            row["error"] = err(e)
        rows.append(row)
    res["rows"] = rows

    # --- observation distributions (POMDPs) --------------------------------------------
    if eo is not None:
        def f_obs():
            al = list(m.action_list)
            out = []
            for a in al:
                out.append([ea(a), [[es(ns), [[eo(o), num(p)] for o, p in m.observation_dist(a, ns).items()]]
                                    for ns in sl]])
            return out
        r = guarded(f_obs)
        if isinstance(r, dict):
            stage_error["obs"] = r["error"]
        else:
            res["obs"] = r

    # --- domain specific extras ------------------------------------------------------
    if case["kind"] == "gridworld":
        def f_x():
            return {"walls": [es(s) for s in m.walls], "absorbing_states": [es(s) for s in m.absorbing_states],
                    "initial_states": [es(s) for s in m.initial_states], "width": m.width, "height": m.height}
        r = guarded(f_x)
        if "error" in r:
            stage_error["extras"] = r["error"]
        else:
            res["extras"] = r

    # --- tabular arrays ----------------------------------------------------------------
    def f_arrays():
        tm, rm, am = m.transition_matrix, m.reward_matrix, m.action_matrix
        out = {"shape": list(tm.shape), "action_list": [ea(a) for a in m.action_list],
               "rows_normalised": bool(np.all(np.abs(tm.sum(-1) - am) < 1e-9)),
               "nonneg": bool((tm >= 0).all()),
               "reward_finite": bool(np.isfinite(rm).all()),
               "s0_sum": num(float(m.initial_state_vec.sum())),
               "absorbing_vec": [bool(x) for x in m.absorbing_state_vec]}
        if eo is not None:
            om = m.observation_matrix
            out["obs_shape"] = list(om.shape)
            out["obs_normalised"] = bool(np.all(np.abs(om.sum(-1) - 1) < 1e-9))
        # exact agreement of the arrays with the functions (no entry dropped, however small)
        al = list(m.action_list)
        mism = []
        npos = 0
        for si, s in enumerate(sl):
            for a in m.actions(s):
                ai = al.index(a)
                exp = {}
                for ns, p in m.next_state_dist(s, a).items():
                    if p > 0:
                        exp[ns] = exp.get(ns, 0) + p
                for ns, p in exp.items():
                    npos += 1
                    nsi = sl.index(ns)
                    if float(tm[si, ai, nsi]) != float(p) or float(rm[si, ai, nsi]) != float(m.reward(s, a, ns)):
                        mism.append(["transition/reward", es(s), ea(a), es(ns), num(p), num(float(tm[si, ai, nsi])),
                                     num(float(rm[si, ai, nsi]))])
        if int(np.count_nonzero(tm)) != npos:
            mism.append(["nonzero-count", int(np.count_nonzero(tm)), npos])
        i0 = {}
        for s, p in m.initial_state_dist().items():
            i0[s] = p
        for si, s in enumerate(sl):
            if float(m.initial_state_vec[si]) != float(i0.get(s, 0)):
                mism.append(["initial", es(s), num(float(m.initial_state_vec[si]))])
        if eo is not None:
            ol = list(m.observation_list)
            for ai, a in enumerate(al):
                for nsi, ns in enumerate(sl):
                    exp = {o: p for o, p in m.observation_dist(a, ns).items()}
                    for oi, o in enumerate(ol):
                        if float(om[ai, nsi, oi]) != float(exp.get(o, 0)):
                            mism.append(["observation", ea(a), es(ns), eo(o), num(float(om[ai, nsi, oi]))])
                    if any(p > 0 and o not in ol for o, p in exp.items()):
                        mism.append(["observation-not-listed", ea(a), es(ns)])
        out["arrays_match"] = not mism
        out["arrays_mismatch"] = mism[:3]
        return out
    r = guarded(f_arrays)
    if "error" in r:
        stage_error["arrays"] = r["error"]
    else:
        res["arrays"] = r

    # --- planning ------------------------------------------------------------------------
    if case.get("plan", True):
        def f_plan():
            from msdm.algorithms.valueiteration import ValueIteration
            if case.get("shared_planner"):
                if not SHARED_VI:
                    SHARED_VI.append(ValueIteration())
                pr = SHARED_VI[0].plan_on(m)
            else:
                pr = ValueIteration().plan_on(m)
            vals = [float(pr.state_value[s]) for s in sl]
            return {"converged": bool(pr.converged), "iterations": int(pr.iterations),
                    "finite": bool(np.isfinite(vals).all()) and bool(np.isfinite(pr.initial_value)),
                    "policy_ok": all(abs(sum(pr.policy[s][a] for a in m.action_list) - 1) < 1e-9 for s in sl)}
        r = guarded(f_plan)
        if "error" in r:
            stage_error["plan"] = r["error"]
        else:
            res["plan"] = r
    # --- the same problem constructed a second time in this process, with unrelated constructions in between
    if case.get("rebuild") is not None and "next" not in stage_error:
        def f_rebuild():
            for _ in range(int(case["rebuild"])):
                try:
                    dm = build(case, decoy=True)[0]
                    dm.transition_matrix
                except BaseException as e:
                    if isinstance(e, (KeyboardInterrupt, SystemExit)):
                        raise
            m2, es2, ea2, _ = build(case)
            sl2, rows2, init2 = dump_plain(m2, es2, ea2)
            return sl2 == res["state_list"] and rows2 == rows and init2 == res.get("init")
        r = guarded(f_rebuild)
        res["rebuild_same"] = r if isinstance(r, bool) else r["error"]
    # --- object reuse: the same object asked again after its arrays were built, it was planned on, and a second
    # object of the same problem was built and queried
    def f_requery():
        for s, row in zip(sl, rows):
            if "error" in row:
                continue
            acts = list(m.actions(s))
            if [ea(a) for a in acts] != row["actions"] or bool(m.is_absorbing(s)) != row["abs"]:
                return False
            for a, ent in zip(acts, row["next"]):
                d = m.next_state_dist(s, a)
                again = [[es(ns), num(p), num(m.reward(s, a, ns)) if p > 0 else None] for ns, p in d.items()]
                if again != ent:
                    return False
        if "init" in res and [[es(s), num(p)] for s, p in m.initial_state_dist().items()] != res["init"]:
            return False
        return [es(s) for s in m.state_list] == res["state_list"]
    r = guarded(f_requery)
    res["requery_same"] = r if isinstance(r, bool) else r["error"]
    # --- caller's objects and msdm's shared module / class level objects must be left as they were
    mutated = [name for name, obj, cp in SNAP if obj != cp]
    if shared_snapshot() != shared0:
        mutated.append("msdm-shared-objects(TERMINALSTATE/TERMINALDIST/LoadUnload.action_list/observation_list)")
    res["mutated"] = mutated
    return res


if __name__ == "__main__":
    run_cases(one)
