"""C20 implementation runner: builds the built-in msdm domains through their public constructors and
dumps everything the property speaks about (state list, actions, next-state / initial / observation
distributions, rewards, is_absorbing, tabular arrays, ValueIteration) with every float as an exact rational."""
import os, sys
sys.path.insert(0, os.path.dirname(os.path.abspath(__file__)))
from build import *


def err(e):
    return type(e).__name__ + ": " + str(e)[:300]


def guarded(fn):
    try:
        return fn()
    except BaseException as e:
        if isinstance(e, (KeyboardInterrupt, SystemExit)):
            raise
        return {"error": err(e)}


def num(x):
    """exact encoding of a reward / probability (python int, float or numpy scalar)"""
    if isinstance(x, bool):
        return [int(x), 1]
    if isinstance(x, int):
        return [x, 1]
    return fj(x)


def build(case):
    k = case["kind"]
    if k == "gridworld":
        from msdm.domains.gridworld.mdp import GridWorld
        tiles = case["rows"] if case.get("tile_as", "list") == "list" else "\n".join(case["rows"])
        kw = dict(absorbing_features=tuple(case["absorbing_features"]),
                  wall_features=tuple(case["wall_features"]),
                  initial_features=tuple(case["initial_features"]),
                  step_cost=fl(case["step_cost"]), success_prob=fl(case["success_prob"]),
                  discount_rate=fl(case["discount_rate"]))
        if case["feature_rewards"] is not None:
            kw["feature_rewards"] = {f: fl(r) for f, r in case["feature_rewards"].items()}
        m = GridWorld(tiles, **kw)
        return m, (lambda s: [s['x'], s['y']]), (lambda a: [a['dx'], a['dy']]), None
    if k == "windy":
        from msdm.domains.gridmdp.windygridworld import WindyGridWorld
        kw = dict(step_cost=fl(case["step_cost"]), wall_bump_cost=fl(case["wall_bump_cost"]),
                  wind_probability=fl(case["wind_probability"]), discount_rate=fl(case["discount_rate"]))
        if case["feature_rewards"] is not None:
            kw["feature_rewards"] = {f: fl(r) for f, r in case["feature_rewards"].items()}
        m = WindyGridWorld("\n".join(case["rows"]), **kw)
        return m, (lambda s: [s.x, s.y]), (lambda a: [a.dx, a.dy]), None
    if k == "cliff":
        from msdm.domains.cliffwalking import CliffWalking
        m = CliffWalking()
        return m, (lambda s: [s.x, s.y]), (lambda a: [a.dx, a.dy]), None
    if k == "tiger":
        from msdm.domains.tiger import Tiger
        m = Tiger(coherence=fl(case["coherence"]), discount_rate=fl(case["discount_rate"]))
        return m, (lambda s: s), (lambda a: a), (lambda o: o)
    if k == "loadunload":
        from msdm.domains.loadunload import LoadUnload
        m = LoadUnload(nstates=int(case["nstates"]), discount_rate=fl(case["discount_rate"]))
        return m, (lambda s: [int(s.location), bool(s.is_loaded)]), (lambda a: [int(a.dlocation)]), (lambda o: o)
    if k == "heavenorhell":
        from msdm.domains.heavenorhell import HeavenOrHell
        kw = dict(coherence=fl(case["coherence"]), discount_rate=fl(case["discount_rate"]),
                  step_cost=fl(case["step_cost"]), heaven_reward=fl(case["heaven_reward"]),
                  hell_reward=fl(case["hell_reward"]))
        if case["rows"] is not None:
            kw["grid"] = "\n".join(case["rows"])
        m = HeavenOrHell(**kw)
        return (m, (lambda s: [s.x, s.y, s.heaven, s.hell]), (lambda a: [a.dx, a.dy, bool(a.read)]),
                (lambda o: [o.x, o.y, o.heaven]))
    raise ValueError("unknown kind " + k)


def one(case, pl):
    import numpy as np
    res = {}
    try:
        m, es, ea, eo = build(case)
    except BaseException as e:
        if isinstance(e, (KeyboardInterrupt, SystemExit)):
            raise
        return {"stage_error": {"construct": err(e)}}
    stage_error = {}
    res["stage_error"] = stage_error

    # --- initial distribution -------------------------------------------------------------
    def f_init():
        d = m.initial_state_dist()
        return [[es(s), num(p)] for s, p in d.items()]
    r = guarded(f_init)
    if isinstance(r, dict):
        stage_error["init"] = r["error"]
    else:
        res["init"] = r

    # --- state list --------------------------------------------------------------------
    try:
        sl = list(m.state_list)
        res["state_list"] = [es(s) for s in sl]
    except BaseException as e:
        if isinstance(e, (KeyboardInterrupt, SystemExit)):
            raise
        stage_error["state_list"] = err(e)
        return res

    # --- per state: is_absorbing, actions, next-state distributions, rewards --------------------
    rows = []
    for s in sl:
        row = {}
        try:
            row["abs"] = bool(m.is_absorbing(s))
            acts = list(m.actions(s))
            row["actions"] = [ea(a) for a in acts]
            row["next"] = []
            for a in acts:
                d = m.next_state_dist(s, a)
                ent = []
                for ns, p in d.items():
                    ent.append([es(ns), num(p), num(m.reward(s, a, ns)) if p > 0 else None])
                row["next"].append(ent)
        except BaseException as e:
            if isinstance(e, (KeyboardInterrupt, SystemExit)):
                raise
            stage_error.setdefault("next", err(e))
            row["error"] = err(e)
        rows.append(row)
    res["rows"] = rows

    # --- observation distributions (POMDPs) --------------------------------------------
    if eo is not None:
        def f_obs():
            al = list(m.action_list)
            out = []
            for a in al:
                out.append([ea(a), [[es(ns), [[eo(o), num(p)] for o, p in m.observation_dist(a, ns).items()]]
                                    for ns in sl]])
            return out
        r = guarded(f_obs)
        if isinstance(r, dict):
            stage_error["obs"] = r["error"]
        else:
            res["obs"] = r

    # --- domain specific extras ------------------------------------------------------
    if case["kind"] == "gridworld":
        def f_x():
            return {"walls": [es(s) for s in m.walls], "absorbing_states": [es(s) for s in m.absorbing_states],
                    "initial_states": [es(s) for s in m.initial_states], "width": m.width, "height": m.height}
        r = guarded(f_x)
        if "error" in r:
            stage_error["extras"] = r["error"]
        else:
            res["extras"] = r

    # --- tabular arrays ----------------------------------------------------------------
    def f_arrays():
        tm, rm, am = m.transition_matrix, m.reward_matrix, m.action_matrix
        out = {"shape": list(tm.shape), "action_list": [ea(a) for a in m.action_list],
               "rows_normalised": bool(np.all(np.abs(tm.sum(-1) - am) < 1e-9)),
               "nonneg": bool((tm >= 0).all()),
               "reward_finite": bool(np.isfinite(rm).all()),
               "s0_sum": num(float(m.initial_state_vec.sum())),
               "absorbing_vec": [bool(x) for x in m.absorbing_state_vec]}
        if eo is not None:
            om = m.observation_matrix
            out["obs_shape"] = list(om.shape)
            out["obs_normalised"] = bool(np.all(np.abs(om.sum(-1) - 1) < 1e-9))
        return out
    r = guarded(f_arrays)
    if "error" in r:
        stage_error["arrays"] = r["error"]
    else:
        res["arrays"] = r

    # --- planning ------------------------------------------------------------------------
    if case.get("plan", True):
        def f_plan():
            from msdm.algorithms.valueiteration import ValueIteration
            pr = ValueIteration().plan_on(m)
            vals = [float(pr.state_value[s]) for s in sl]
            return {"converged": bool(pr.converged), "iterations": int(pr.iterations),
                    "finite": bool(np.isfinite(vals).all()) and bool(np.isfinite(pr.initial_value)),
                    "policy_ok": all(abs(sum(pr.policy[s][a] for a in m.action_list) - 1) < 1e-9 for s in sl)}
        r = guarded(f_plan)
        if "error" in r:
            stage_error["plan"] = r["error"]
        else:
            res["plan"] = r
    return res


if __name__ == "__main__":
    run_cases(one)
