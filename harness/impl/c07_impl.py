"""C07 implementation runner: msdm's belief filter (dictionary and vectorised), predictive observation
distributions, observation_matrix, the derived BeliefMDP (next_state_dist, reward, is_absorbing) and
ValueBasedTabularPOMDPPolicy.next_agentstate, on generated POMDPs x beliefs x all (action, observation)."""
import os
import sys
sys.path.insert(0, os.path.dirname(os.path.abspath(__file__)))
from build import *            # noqa: E402,F401,F403
from build_pomdp import build_pomdp   # noqa: E402

NEVER = "never-emitted-observation"


def guarded(fn):
    try:
        return fn()
    except BaseException as e:
        if isinstance(e, (KeyboardInterrupt, SystemExit)):
            raise
        return {"error": type(e).__name__ + ": " + str(e)[:300]}


def one(case, pl):
    import numpy as np
    from msdm.core.distributions import DictDistribution
    from msdm.core.pomdp.tabularpomdp import Belief
    from msdm.core.pomdp.beliefmdp import BeliefMDP
    from msdm.core.pomdp.policy import ValueBasedTabularPOMDPPolicy

    pomdp = build_pomdp(case["pomdp"], explicit_lists=case.get("explicit_lists", False))
    sl, al, ol = list(pomdp.state_list), list(pomdp.action_list), list(pomdp.observation_list)
    sidx = {s: i for i, s in enumerate(sl)}
    oidx = {o: i for i, o in enumerate(ol)}
    om = pomdp.observation_matrix
    res = {"state_list": sl, "action_list": al, "observation_list": ol,
           "observation_matrix": [[[fj(x) for x in r] for r in mat] for mat in om],
           "observation_matrix_shape": list(om.shape), "beliefs": []}
    bmdp = BeliefMDP(pomdp)

    class Pol(ValueBasedTabularPOMDPPolicy):
        def action_value(self, b, a):
            return 0.0
    pol = Pol(pomdp)

    def dict_out(d, idx):
        return sorted([[idx[k], fj(v)] for k, v in d.items()])

    for be in case["beliefs"]:
        bq = be["b"]                                   # over state ids 0..n-1
        if any(fl(bq[s]) != 0 and s not in sidx for s in range(len(bq))):
            res["beliefs"].append({"error": "HarnessError: belief has mass outside state_list"})
            continue
        probs = [fl(bq[s]) for s in sl]
        if be.get("sparse"):
            bdict = DictDistribution({s: p for s, p in zip(sl, probs) if p != 0})
        else:
            bdict = DictDistribution({s: p for s, p in zip(sl, probs)})
        bvec = np.array(probs, dtype=float)
        btup = Belief(tuple(sl), tuple(probs))
        out = {"is_absorbing": guarded(lambda: bool(bmdp.is_absorbing(btup))), "actions": []}
        for ai, a in enumerate(al):
            r = {}
            r["est_dict"] = [guarded(lambda o=o: dict_out(pomdp.state_estimator(bdict, a, o), sidx)) for o in ol + [NEVER]]
            r["est_vec"] = [guarded(lambda oi=oi: [fj(x) for x in pomdp.state_estimator_vec(bvec, ai, oi)]) for oi in range(len(ol))]
            r["next_agentstate"] = [guarded(lambda o=o: [fj(x) for x in pol.next_agentstate(btup, a, o).probs]) for o in ol + [NEVER]]
            r["pred_dict"] = guarded(lambda: dict_out(pomdp.predictive_observation_dist(bdict, a), oidx))
            r["pred_vec"] = guarded(lambda: [fj(x) for x in pomdp.predictive_observation_vec(bvec, ai)])

            def bnext():
                d = bmdp.next_state_dist(btup, a)
                o = []
                for nb, p in d.items():
                    if tuple(nb.states) != tuple(sl):
                        raise ValueError("belief tuple over a different state order")
                    o.append([[fj(x) for x in nb.probs], fj(p)])
                return o
            r["belief_next"] = guarded(bnext)
            r["belief_reward"] = guarded(lambda: fj(bmdp.reward(btup, a, None)))
            r["belief_actions"] = guarded(lambda: list(bmdp.actions(btup)))
            out["actions"].append(r)
        res["beliefs"].append(out)
    return res


if __name__ == "__main__":
    run_cases(one)
