"""C07 implementation runner: msdm's belief filter (dictionary and vectorised), predictive observation
distributions, observation_matrix, the derived BeliefMDP (next_state_dist, reward, is_absorbing) and
ValueBasedTabularPOMDPPolicy.next_agentstate, on generated POMDPs x beliefs x all (action, observation).

Every choice of representation comes from the case (no randomness here):
  case["variant"]: labels (int / str / tuple / falsy / unsortable labels, sorted order != id order), int01,
                   dist_types (see build_pomdp), order (which cached views of the POMDP are touched first)
  belief entry:    perm (order of the states in the belief dictionary / Belief tuple), sparse,
                   rep ("dict" | "dist": Deterministic/UniformDistribution when the belief is one),
                   vec ("ndarray" | "list" | "tuple" | "intarray"), npidx (numpy integer indices),
                   int01 (whole-number probabilities as Python ints), own_initial (use the Belief object
                   BeliefMDP.initial_state_dist() itself returns: probabilities are numpy floats)
All outputs are reported by generator ids, in msdm's state_list / action_list / observation_list order."""
import os
import sys
sys.path.insert(0, os.path.dirname(os.path.abspath(__file__)))
from build import *            # noqa: E402,F401,F403
from build_pomdp import build_pomdp, fingerprint   # noqa: E402

NEVER = "never-emitted-observation"


def guarded(fn):
    try:
        return fn()
    except BaseException as e:
        if isinstance(e, (KeyboardInterrupt, SystemExit)):
            raise
        return {"error": type(e).__name__ + ": " + str(e)[:300]}


_FIRST = []          # [case, result] of the first POMDP this process built
_COUNT = [0]


def one(case, pl):
    """evaluate the case; every 5th case of the process additionally rebuilds the FIRST POMDP of the process
    (a varying number of unrelated constructions in between) and compares with what it gave the first time"""
    import copy
    res = compute(case)
    _COUNT[0] += 1
    if not _FIRST:
        _FIRST.extend([copy.deepcopy(case), copy.deepcopy(res)])
    elif _COUNT[0] % 5 == 0:
        res["rebuild_first_equal"] = guarded(lambda: compute(_FIRST[0]) == _FIRST[1])
    return res


def compute(case):
    import numpy as np
    from msdm.core.distributions import DictDistribution
    from msdm.core.distributions.dictdistribution import DeterministicDistribution, UniformDistribution
    from msdm.core.pomdp.tabularpomdp import Belief
    from msdm.core.pomdp.beliefmdp import BeliefMDP
    from msdm.core.pomdp.policy import ValueBasedTabularPOMDPPolicy

    var = case.get("variant", {})
    pomdp = build_pomdp(case["pomdp"], explicit_lists=case.get("explicit_lists", False), labels=var.get("labels"),
                        int01=var.get("int01", False), dist_types=var.get("dist_types", False),
                        share_objects=var.get("share_objects", False), declare=var.get("declare"))
    fp0 = fingerprint(pomdp)
    S, A, O = pomdp._gen_S, pomdp._gen_A, pomdp._gen_O          # id -> label
    order = var.get("order", "matrix-first")
    # an observation LISTED with explicit probability 0 and possible nowhere plays the part of the
    # never-emitted observation when the case has one
    gh = case["pomdp"].get("obs_ghost", [])
    never = O[gh[0]] if gh else NEVER
    bmdp = None
    if order == "belief-first":
        # derive the belief MDP and use it before any matrix view of the POMDP exists
        bmdp = BeliefMDP(pomdp)
        s0 = bmdp.initial_state_dist().sample()
        bmdp.is_absorbing(s0)
        for a in bmdp.actions(s0):
            bmdp.next_state_dist(s0, a)
    elif order == "dict-first":
        pomdp.state_estimator(pomdp.initial_state_dist(), pomdp.action_list[0], never)
    else:
        try:
            pomdp.observation_matrix, pomdp.transition_matrix
        except Exception:       # reported below, where observation_matrix is read under guard
            pass
    sl, al, ol = list(pomdp.state_list), list(pomdp.action_list), list(pomdp.observation_list)
    sid = {l: i for i, l in enumerate(S)}       # label -> generator id
    aid = {l: i for i, l in enumerate(A)}
    oid = {l: i for i, l in enumerate(O)}
    sidx = {s: i for i, s in enumerate(sl)}     # label -> position in msdm's list
    oidx = {o: i for i, o in enumerate(ol)}
    om = guarded(lambda: pomdp.observation_matrix)
    if isinstance(om, dict):
        return {"stage": "observation_matrix", "error": om["error"],
                "observation_list": guarded(lambda: [oid[o] for o in ol])}
    res = {"state_list": [sid[s] for s in sl], "action_list": [aid[a] for a in al],
           "observation_list": [oid[o] for o in ol],
           "observation_matrix": [[[fj(x) for x in r] for r in mat] for mat in om],
           "observation_matrix_shape": list(om.shape), "beliefs": []}
    if bmdp is None:
        bmdp = BeliefMDP(pomdp)
    own0 = guarded(lambda: list(bmdp.initial_state_dist().items()))
    res["belief_initial"] = own0 if isinstance(own0, dict) else \
        [[[sid[s] for s in b.states], [fj(x) for x in b.probs], fj(p)] for b, p in own0]

    class Pol(ValueBasedTabularPOMDPPolicy):
        def action_value(self, b, a):
            return 0.0
    pol = Pol(pomdp)

    def dict_out(d, idx):
        return sorted([[idx[k], fj(v)] for k, v in d.items()])

    def evaluate(be):
        bq = be["b"]                                   # over state ids 0..n-1
        if any(fl(bq[i]) != 0 and S[i] not in sidx for i in range(len(bq))):
            return {"error": "HarnessError: belief has mass outside state_list"}

        def num(p):
            x = fl(p)
            return int(x) if be.get("int01") and x == int(x) else x
        probs = [num(bq[sid[s]]) for s in sl]            # msdm's order
        perm = [i for i in be.get("perm", list(range(len(bq)))) if S[i] in sidx]   # ids, dictionary / tuple order
        pairs = [(S[i], num(bq[i])) for i in perm]
        if be.get("sparse"):
            pairs = [(s, p) for s, p in pairs if p != 0]
        pos = [(s, p) for s, p in pairs if p != 0]
        if be.get("rep") == "dist" and len(pos) == 1:
            bdict = DeterministicDistribution(pos[0][0])
        elif be.get("rep") == "dist" and len({p for _, p in pos}) == 1 and len(pos) in (2, 4, 8):
            bdict = UniformDistribution([s for s, _ in pos])
        else:
            bdict = DictDistribution(dict(pairs))
        vk = be.get("vec", "ndarray")
        if vk == "list":
            bvec = list(probs)
        elif vk == "tuple":
            bvec = tuple(probs)
        elif vk == "intarray" and all(float(p) == int(p) for p in probs):
            bvec = np.array([int(p) for p in probs])
        elif vk == "float32" and all(float(np.float32(p)) == float(p) for p in probs):
            bvec = np.array(probs, dtype=np.float32)
        elif var.get("shared_belief_objects"):
            # ONE array object for every belief of the case, overwritten in place (pre-allocated filtering buffer)
            shared_vec[:] = probs
            bvec = shared_vec
        else:
            bvec = np.array(probs, dtype=float)
        if var.get("shared_belief_objects") and isinstance(bdict, DictDistribution):
            shared_dict.clear()                    # likewise ONE dictionary object, refilled in place
            shared_dict.update(bdict)
            bdict = shared_dict
        btup = Belief(tuple(s for s, _ in pairs), tuple(p for _, p in pairs))
        if be.get("own_initial") and not isinstance(own0, dict) and len(own0) == 1 and \
                [float(x) for x in own0[0][0].probs] == [float(p) for p in probs]:
            btup = own0[0][0]
        ix = (lambda i: np.int64(i)) if be.get("npidx") else (lambda i: i)
        snap = (type(bdict).__name__, repr(list(bdict.items())), type(bvec).__name__, repr(list(bvec)), repr(btup))
        out = {"is_absorbing": guarded(lambda: bool(bmdp.is_absorbing(btup))), "actions": []}
        offered = case["pomdp"]["actions"]
        for ai, a in enumerate(al):
            # an action is only taken at a belief whose support offers it everywhere
            if any(fl(bq[i]) > 0 and aid[a] not in offered[i] for i in range(len(offered))):
                continue
            r = {"ai": ai}
            r["est_dict"] = [guarded(lambda o=o: dict_out(pomdp.state_estimator(bdict, a, o), sidx)) for o in ol + [never]]
            r["est_vec"] = [guarded(lambda oi=oi: [fj(x) for x in pomdp.state_estimator_vec(bvec, ix(ai), ix(oi))]) for oi in range(len(ol))]

            def nag(o):
                nb = pol.next_agentstate(btup, a, o)
                if tuple(nb.states) != tuple(sl):
                    raise ValueError("next_agentstate over a different state order")
                return [fj(x) for x in nb.probs]
            r["next_agentstate"] = [guarded(lambda o=o: nag(o)) for o in ol + [never]]
            r["pred_dict"] = guarded(lambda: dict_out(pomdp.predictive_observation_dist(bdict, a), oidx))
            r["pred_vec"] = guarded(lambda: [fj(x) for x in pomdp.predictive_observation_vec(bvec, ix(ai))])

            def bnext():
                d = bmdp.next_state_dist(btup, a)
                o = []
                for nb, p in d.items():
                    if tuple(nb.states) != tuple(sl):
                        raise ValueError("belief tuple over a different state order")
                    o.append([[fj(x) for x in nb.probs], fj(p)])
                return o
            r["belief_next"] = guarded(bnext)
            # the successor beliefs the belief MDP itself produced (float posteriors), asked whether they are absorbing
            r["belief_next_absorbing"] = guarded(
                lambda: [bool(bmdp.is_absorbing(nb)) for nb in bmdp.next_state_dist(btup, a).keys()])
            # reward(s, a, ns) is called the way MDP code calls it: with an actual successor belief (every one of them)
            def brew():
                succ = list(bmdp.next_state_dist(btup, a).keys())
                return [fj(bmdp.reward(btup, a, nb)) for nb in succ]
            rws = guarded(brew)
            r["belief_reward"] = rws if isinstance(rws, dict) else rws[0]
            r["belief_reward_by_successor"] = rws
            r["belief_actions"] = guarded(lambda: [aid[x] for x in bmdp.actions(btup)])
            out["actions"].append(r)
        if snap != (type(bdict).__name__, repr(list(bdict.items())), type(bvec).__name__, repr(list(bvec)), repr(btup)):
            mutated.append("belief objects of belief kind %s" % be.get("kind"))
        return out

    def history(h):
        """multi-step filtering on ONE belief object updated in place (b[:] = posterior): every call is reported
        together with the object's contents at the time of the call"""
        offered = case["pomdp"]["actions"]
        start = [fl(case["beliefs"][h["start"]]["b"][sid[s]]) for s in sl]
        arr = np.array(start, dtype=float)
        dd = DictDistribution({s: p for s, p in zip(sl, start) if p != 0 or not h.get("sparse")})
        steps = []
        for a_id, o_id in h["steps"]:
            a, o = A[a_id], O[o_id]
            ai, oi = al.index(a), oidx[o]
            if h["kind"] == "vec":
                cur = [float(x) for x in arr]
                if any(x > 0 and a_id not in offered[sid[s]] for s, x in zip(sl, cur)):
                    continue
                st = {"kind": "vec", "contents": [fj(x) for x in cur], "ai": ai, "oi": oi,
                      "pred_vec": [fj(x) for x in pomdp.predictive_observation_vec(arr, ai)],
                      "est_vec": [[fj(x) for x in pomdp.state_estimator_vec(arr, ai, k)] for k in range(len(ol))]}
                post = pomdp.state_estimator_vec(arr, ai, oi)
                arr[:] = post if post.sum() > 0 else start
            else:
                cur = {s: float(dd.get(s, 0.0)) for s in sl}
                if any(x > 0 and a_id not in offered[sid[s]] for s, x in cur.items()):
                    continue
                st = {"kind": "dict", "contents": [fj(cur[s]) for s in sl], "ai": ai, "oi": oi,
                      "pred_dict": dict_out(pomdp.predictive_observation_dist(dd, a), oidx),
                      "est_dict": [dict_out(pomdp.state_estimator(dd, a, ob), sidx) for ob in ol]}
                post = pomdp.state_estimator(dd, a, o)
                new = dict(post) if len(post) > 0 else {s: p for s, p in zip(sl, start) if p != 0}
                dd.clear()
                dd.update(new)
            steps.append(st)
        return steps

    mutated = []
    # results of the first calls are kept and re-read after everything else ran (stale / aliased results)
    keep = []
    if case["beliefs"]:
        b0 = DictDistribution({S[i]: fl(x) for i, x in enumerate(case["beliefs"][0]["b"]) if S[i] in sidx})
        adm = [a for a in al if all(fl(x) == 0 or aid[a] in case["pomdp"]["actions"][i]
                                    for i, x in enumerate(case["beliefs"][0]["b"]))]
        rd = lambda x: repr(sorted((repr(k), v) for k, v in x.items()))   # noqa: E731
        rl = lambda x: repr(list(x))                                       # noqa: E731
        ri = lambda x: repr(list(x.items()))                               # noqa: E731
        try:
            for a in adm[:1]:
                for o in ol[:2]:
                    d = pomdp.state_estimator(b0, a, o)
                    keep.append((d, rd, rd(d)))
                v = pomdp.state_estimator_vec(np.array([b0.prob(s) for s in sl]), al.index(a), 0)
                keep.append((v, rl, rl(v)))
                nd = bmdp.next_state_dist(Belief(tuple(sl), tuple(b0.prob(s) for s in sl)), a)
                keep.append((nd, ri, ri(nd)))
        except BaseException as e:      # the same calls are made (and reported) under guard below
            if isinstance(e, (KeyboardInterrupt, SystemExit)):
                raise
    shared_vec = np.zeros(len(sl), dtype=float)
    shared_dict = DictDistribution({})
    for be in case["beliefs"]:
        res["beliefs"].append(evaluate(be))
    res["histories"] = [guarded(lambda h=h: history(h)) for h in case.get("histories", [])]
    # object reuse: after everything else ran on the same objects, the first beliefs give the same answers
    k = min(2, len(case["beliefs"]))
    res["repeat_equal"] = [evaluate(be) == prev for be, prev in zip(case["beliefs"][:k], res["beliefs"][:k])]
    fp1 = fingerprint(pomdp)
    mutated += ["pomdp input: " + k for k in fp0 if fp0[k] != fp1[k]]
    res["mutated_inputs"] = mutated
    res["stale_results_unchanged"] = all(fn(x) == s0 for x, fn, s0 in keep)
    return res


if __name__ == "__main__":
    run_cases(one)
