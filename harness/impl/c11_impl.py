"""C11 implementation runner: msdm finite distributions of every provided kind under every operation.

A case names Python events by tagged JSON (see dec()); distributions are built through the PUBLIC
constructors (DictDistribution(dict), DictDistribution.from_pairs, UniformDistribution,
DeterministicDistribution, SoftmaxDistribution, TableDistribution directly or as a ProbabilityTable
row).  Every float goes back as an exact rational; every result distribution as its items() in
iteration order."""
import os, sys, random
sys.path.insert(0, os.path.dirname(os.path.abspath(__file__)))
from build import *


def dec(x):
    t, v = x
    if t == "b":
        return bool(v)
    if t == "i":
        return int(v)
    if t == "f":
        return float(v)
    if t == "s":
        return str(v)
    if t == "n":
        return None
    if t == "t":
        return tuple(dec(y) for y in v)
    if t == "fs":
        return frozenset(dec(y) for y in v)
    raise ValueError("bad event encoding %r" % (x,))


def enc(v):
    if isinstance(v, bool):
        return ["b", bool(v)]
    if isinstance(v, int):
        return ["i", int(v)]
    if isinstance(v, float):
        return ["f", repr(float(v))]
    if isinstance(v, str):
        return ["s", v]
    if v is None:
        return ["n", 0]
    if isinstance(v, tuple):
        return ["t", [enc(y) for y in v]]
    if isinstance(v, frozenset):
        return ["fs", sorted((enc(y) for y in v), key=repr)]
    import numpy as np
    if isinstance(v, np.integer):
        return ["i", int(v)]
    if isinstance(v, np.floating):
        return ["f", repr(float(v))]
    raise ValueError("cannot encode event %r" % (v,))


def build(spec):
    import numpy as np
    from msdm.core.distributions import DictDistribution, UniformDistribution, \
        DeterministicDistribution, SoftmaxDistribution
    from msdm.core.table.table import TableDistribution, ProbabilityTable
    from msdm.core.table.tableindex import TableIndex
    k = spec["kind"]
    ev = [dec(e) for e in spec["events"]]
    ws = [float("-inf") if w == "-inf" else fl(w) for w in spec.get("weights", [])]
    if k == "dict":
        return DictDistribution(dict(zip(ev, ws)))      # later duplicates overwrite
    if k == "pairs":
        return DictDistribution.from_pairs(list(zip(ev, ws)))
    if k == "uniform":
        seq = spec.get("seq", "list")
        return UniformDistribution(tuple(ev) if seq == "tuple" else list(ev))
    if k == "det":
        return DeterministicDistribution(ev[0])
    if k == "softmax":
        return SoftmaxDistribution(dict(zip(ev, ws)))
    if k == "table":
        if spec.get("via_row"):
            data = np.array([ws, [0.0] * len(ws)], dtype=float)
            pt = ProbabilityTable(data=data, table_index=TableIndex(
                field_names=["s", "e"], field_domains=[["r0", "r1"], ev]))
            return pt["r0"]
        return TableDistribution(data=np.array(ws, dtype=float),
                                 table_index=TableIndex(field_names=["e"], field_domains=[ev]))
    raise ValueError("unknown kind " + k)


def items_of(d):
    return [[enc(e), fj(p)] for e, p in d.items()]


def guarded(fn):
    try:
        return fn()
    except BaseException as e:
        if isinstance(e, (KeyboardInterrupt, SystemExit)):
            raise
        return {"error": type(e).__name__ + ": " + str(e)[:200]}


class Scripted(random.Random):
    """generator whose random() returns scripted values and whose choice() returns the scripted index;
    choices() is CPython's own (it calls self.random())"""
    def __init__(self, script):
        super().__init__(0)
        self.script = list(script)
        self.used = 0

    def random(self):
        self.used += 1
        kind, v = self.script.pop(0)
        assert kind == "u"
        return v

    def choice(self, seq):
        self.used += 1
        kind, v = self.script.pop(0)
        assert kind == "i"
        return seq[v]


class Recording(random.Random):
    """a genuinely seeded generator that records what it hands out"""
    def __init__(self, seed):
        super().__init__(seed)
        self.log = []

    def random(self):
        u = super().random()
        self.log.append(["u", fj(u)])
        return u

    def choice(self, seq):
        i = random.Random._randbelow_with_getrandbits(self, len(seq))
        self.log.append(["i", i])
        return seq[i]


def one(case, pl):
    universe = [dec(e) for e in case["universe"]]
    d1, d2 = build(case["d1"]), build(case["d2"])
    F = {dec(k): dec(v) for k, v in case["proj"]}
    W = {dec(k): (bool(v[1]) if v[0] == "bool" else fl(v[1])) for k, v in case["like"]}
    G = {dec(k): fl(v) for k, v in case["real"]}
    KERN = {dec(k): v for k, v in case["kern"]}
    a, b = fl(case["a"]), fl(case["b"])
    res = {}
    for name, d in (("d1", d1), ("d2", d2)):
        r = {"items": items_of(d), "support": [enc(e) for e in d.support], "len": len(d),
             "cls": type(d).__name__}
        probes = []
        for e in universe:
            probes.append(guarded(lambda: fj(d.prob(e))))
        r["probs"] = probes
        r["mass"] = guarded(lambda: fj(sum(d.values())))
        r["is_normalized"] = guarded(lambda: bool(d.is_normalized()))
        res[name] = r
    res["marginalize"] = guarded(lambda: items_of(d1.marginalize(lambda e: F[e])))
    res["chain"] = guarded(lambda: items_of(d1.chain(lambda e: build(KERN[e]))))
    res["condition"] = guarded(lambda: items_of(d1.condition(lambda e: W[e])))
    res["joint"] = guarded(lambda: items_of(d1.joint(d2)))
    res["mix"] = guarded(lambda: items_of(d1 * a | d2 * b))
    res["rmul"] = guarded(lambda: items_of(a * d1))
    res["and"] = guarded(lambda: items_of(d1 & d2))
    res["expectation"] = guarded(lambda: fj(d1.expectation(lambda e: G[e])))
    res["normalize"] = guarded(lambda: items_of(d1.normalize()))
    res["kern_items"] = [[k, guarded(lambda: items_of(build(v)))] for k, v in case["kern"]]
    # scripted sampling: one generator per draw, so that every draw is compared on its own
    draws = []
    for kind, v in case["script"]:
        rng = Scripted([[kind, fl(v) if kind == "u" else int(v)]] * 2)
        def go():
            e = d1.sample(rng=rng)
            return {"event": enc(e), "used": rng.used}
        draws.append(guarded(go))
    res["draws"] = draws
    # seeded sampling: two equally seeded generators, and the stream one of them handed out
    seed = int(case["seed"])
    n = int(case["nseeded"])
    def seeded():
        r1, r2 = Recording(seed), random.Random(seed)
        r3 = Recording(seed)
        s1 = [d1.sample(rng=r1) for _ in range(n)]
        s3 = [d1.sample(rng=r3) for _ in range(n)]
        s2a = [d1.sample(rng=r2) for _ in range(n)]
        r2b = random.Random(seed)
        s2b = [d1.sample(rng=r2b) for _ in range(n)]
        return {"seq": [enc(e) for e in s1], "log": r1.log, "same_recording": s1 == s3 and r1.log == r3.log,
                "same_plain": s2a == s2b, "plain_seq": [enc(e) for e in s2a],
                "plain_probs": [fj(d1.prob(e)) for e in s2a]}
    res["seeded"] = guarded(seeded)
    return res


if __name__ == "__main__":
    run_cases(one)
