"""C11 implementation runner: msdm finite distributions of every provided kind under every operation.

A case names Python events by tagged JSON (see dec()); distributions are built through the PUBLIC
constructors (DictDistribution(dict), DictDistribution.from_pairs, UniformDistribution,
DeterministicDistribution, SoftmaxDistribution, TableDistribution directly or as a ProbabilityTable
row).  Every float goes back as an exact rational; every result distribution as its items() in
iteration order."""
import os, sys, random
sys.path.insert(0, os.path.dirname(os.path.abspath(__file__)))
from build import *


def dec(x):
    t, v = x
    if t == "b":
        return bool(v)
    if t == "i":
        return int(v)
    if t == "f":
        return float(v)
    if t == "s":
        return str(v)
    if t == "n":
        return None
    if t == "t":
        return tuple(dec(y) for y in v)
    if t == "fs":
        return frozenset(dec(y) for y in v)
    raise ValueError("bad event encoding %r" % (x,))


def enc(v):
    if isinstance(v, bool):
        return ["b", bool(v)]
    if isinstance(v, int):
        return ["i", int(v)]
    if isinstance(v, float):
        return ["f", repr(float(v))]
    if isinstance(v, str):
        return ["s", v]
    if v is None:
        return ["n", 0]
    if isinstance(v, tuple):
        return ["t", [enc(y) for y in v]]
    if isinstance(v, frozenset):
        return ["fs", sorted((enc(y) for y in v), key=repr)]
    import numpy as np
    if isinstance(v, np.integer):
        return ["i", int(v)]
    if isinstance(v, np.floating):
        return ["f", repr(float(v))]
    raise ValueError("cannot encode event %r" % (v,))


RAWS = []        # (what, the caller's container handed to a constructor, snapshot taken before the call)


def keep(what, obj):
    import copy
    import numpy as np
    RAWS.append((what, obj, obj.copy() if isinstance(obj, np.ndarray) else copy.deepcopy(obj)))
    return obj


def inputs_unchanged():
    import numpy as np
    for what, obj, snap in RAWS:
        same = np.array_equal(obj, snap) if isinstance(obj, np.ndarray) else (obj == snap and type(obj) is type(snap))
        if same and isinstance(obj, dict):
            same = list(obj.items()) == list(snap.items())
        if not same:
            return "%s handed to a constructor was changed: %r -> %r" % (what, snap, obj)
    return True


def build(spec):
    """one distribution from a spec, through the public entry point and input representation the spec
    names (defaults: plain dict / list / float data)"""
    import numpy as np
    from msdm.core.distributions import DictDistribution, UniformDistribution, \
        DeterministicDistribution, SoftmaxDistribution
    from msdm.core.table.table import TableDistribution, ProbabilityTable
    from msdm.core.table.tableindex import TableIndex
    k = spec["kind"]
    ev = [dec(e) for e in spec["events"]]
    ws = [float("-inf") if w == "-inf" else fl(w) for w in spec.get("weights", [])]
    if spec.get("num") == "int":
        ws = [int(Fraction(w)) for w in spec["weights"]]
    if spec.get("num") == "fraction":       # exact rational scores (SoftmaxDistribution only)
        ws = [Fraction(w) for w in spec["weights"]]
    rep = spec.get("rep")
    if k == "dict":
        if rep == "pairs_list":
            return DictDistribution(keep("pair list", list(zip(ev, ws))))
        if rep == "kwargs":
            return DictDistribution(**dict(zip(ev, ws)))
        if rep == "copy":
            return DictDistribution(DictDistribution(dict(zip(ev, ws))))
        return DictDistribution(keep("dict", dict(zip(ev, ws))))      # later duplicates overwrite
    if k == "pairs":
        if rep == "generator":
            return DictDistribution.from_pairs((e, w) for e, w in zip(ev, ws))
        if rep == "tuple":
            return DictDistribution.from_pairs(tuple(zip(ev, ws)))
        return DictDistribution.from_pairs(keep("pair list", list(zip(ev, ws))))
    if k == "uniform":
        seq = spec.get("seq", "list")
        sup = {"tuple": lambda: tuple(ev), "range": lambda: range(len(ev)),
               "str": lambda: "".join(ev)}.get(seq, lambda: keep("support list", list(ev)))()
        if spec.get("classmethod"):
            return DictDistribution.uniform(sup)
        if spec.get("check_unique") is False:
            return UniformDistribution(sup, check_unique=False)
        return UniformDistribution(sup)
    if k == "det":
        if spec.get("classmethod"):
            return DictDistribution.deterministic(ev[0])
        return DeterministicDistribution(ev[0])
    if k == "softmax":
        if rep == "pairs_list":
            return SoftmaxDistribution(list(zip(ev, ws)))
        if rep == "kwargs":
            return SoftmaxDistribution(**dict(zip(ev, ws)))
        return SoftmaxDistribution(keep("score dict", dict(zip(ev, ws))))
    if k == "table":
        dom = tuple(ev) if spec.get("dom") == "tuple" else keep("domain list", list(ev))
        dt = int if spec.get("num") == "int" else float
        via = spec.get("via_row")
        via = "2d" if via is True else via
        zero = [0] * len(ws)
        if via == "2d":
            pt = ProbabilityTable(data=np.array([ws, zero], dtype=dt), table_index=TableIndex(
                field_names=["s", "e"], field_domains=[["r0", "r1"], dom]))
            if spec.get("touch"):       # use the base table (and its cached views) before deriving the row
                list(pt.items()); pt["r1"]; pt.table_index.field_names; len(pt)
                first = pt["r0"]
                list(first.items())
            return pt["r0"]
        if via in ("3d", "3d_tuple"):
            pt = ProbabilityTable(data=np.array([[zero, ws], [zero, zero]], dtype=dt), table_index=TableIndex(
                field_names=["s", "c", "e"], field_domains=[["r0", "r1"], [0, ""], dom]))
            if spec.get("touch"):
                list(pt.items()); pt["r1"]; list(pt["r0"].items())
            return pt[("r0", "")] if via == "3d_tuple" else pt["r0"][""]
        t = TableDistribution(data=keep("data array", np.array(ws, dtype=dt)),
                              table_index=TableIndex(field_names=["e"], field_domains=[dom]))
        if spec.get("touch"):
            list(t.items()); len(t); t.table_index.field_domains
        return t
    raise ValueError("unknown kind " + k)


def items_of(d):
    return [[enc(e), fj(p)] for e, p in d.items()]


def guarded(fn):
    try:
        return fn()
    except BaseException as e:
        if isinstance(e, (KeyboardInterrupt, SystemExit)):
            raise
        return {"error": type(e).__name__ + ": " + str(e)[:200]}


class Scripted(random.Random):
    """generator whose random() returns scripted values and whose choice() returns the element at the
    scripted index; choices() is CPython's own (it calls self.random()).  How many numbers a sample()
    call asks for is up to the implementation: the script is cycled, `used` counts the requests."""
    def __init__(self, us=(), idx=()):
        super().__init__(0)
        self.us = list(us) or [0.5]
        self.idx = list(idx) or [0]
        self.nu = self.ni = 0
        self.used = 0

    def random(self):
        v = self.us[self.nu % len(self.us)]
        self.nu += 1
        self.used += 1
        return v

    def choice(self, seq):
        if not len(seq):
            raise IndexError('Cannot choose from an empty sequence')
        v = self.idx[self.ni % len(self.idx)]
        self.ni += 1
        self.used += 1
        return seq[v % len(seq)]


class Recording(random.Random):
    """a genuinely seeded generator that records what it hands out"""
    def __init__(self, seed):
        super().__init__(seed)
        self.log = []

    def random(self):
        u = super().random()
        self.log.append(["u", fj(u)])
        return u

    def choice(self, seq):
        if not len(seq):
            raise IndexError('Cannot choose from an empty sequence')
        i = random.Random._randbelow_with_getrandbits(self, len(seq))
        self.log.append(["i", i])
        return seq[i]


def one(case, pl):
    universe = [dec(e) for e in case["universe"]]
    del RAWS[:]
    if case.get("shadow"):
        # another object of the same class over the same events with other numbers, built and USED first
        def touch():
            sd = build(case["shadow"])
            list(sd.items()); [sd.prob(e) for e in sd.support]; len(sd); sd.is_normalized()
            sd.marginalize(lambda e: 0); sd.normalize()
        guarded(touch)
    d1, d2 = build(case["d1"]), build(case["d2"])
    res = observe(case, d1, d2, universe)
    if case.get("mutation"):
        res["mutated"] = guarded(lambda: mutate_and_observe(case, d2, universe))
    return res


def mutate_and_observe(case, d2, universe):
    """sample / query a distribution, UPDATE IT IN PLACE (dict item assignment, del, pop, update, clear + refill;
    for a list-backed UniformDistribution: the caller's list), then observe everything again on the same object"""
    from msdm.core.distributions.distributions import FiniteDistribution
    from msdm.core.distributions import DictDistribution, UniformDistribution
    mu = case["mutation"]
    seed = int(case["seed"])
    m = build(case["d1"])
    def use():
        list(m.items()); len(m); m.is_normalized()
        for e in universe:
            guarded(lambda: m.prob(e))
        r = random.Random(seed)
        for _ in range(3):
            guarded(lambda: m.sample(rng=r))
        guarded(lambda: FiniteDistribution.sample(m, rng=r, k=2))
        guarded(lambda: m.marginalize(lambda e: 0)); guarded(lambda: m.normalize()); guarded(lambda: m & m)
    use()
    for op in mu["ops"]:
        if op[0] == "set":
            m[dec(op[1])] = fl(op[2])
        elif op[0] == "del":
            if dec(op[1]) in m:
                del m[dec(op[1])]
        elif op[0] == "pop":
            m.pop(dec(op[1]), None)
        elif op[0] == "update":
            m.update({dec(e): fl(w) for e, w in op[1]})
        elif op[0] == "clear_refill":
            m.clear()
            for e, w in op[1]:
                m[dec(e)] = fl(w)
        elif op[0] == "append":
            m._support.append(dec(op[1]))
        elif op[0] == "remove":
            m._support.remove(dec(op[1]))
        else:
            raise ValueError("unknown mutation " + str(op[0]))
        if mu.get("use_between"):
            use()
    del RAWS[:]         # the caller's containers were changed on purpose
    case2 = dict(case)
    case2.update(mu["overrides"])
    out = {"result": observe(case2, m, d2, universe, derived=True)}
    # an equal, freshly built distribution must sample the same way from an equally seeded generator
    fresh = UniformDistribution(list(m._support)) if isinstance(m, UniformDistribution) else DictDistribution(dict(m.items()))
    def seq(d):
        r = random.Random(seed)
        o = []
        for j in range(8):
            try:
                o.append(enc(d.sample(rng=r)) if j % 4 else [enc(e) for e in _aslist(FiniteDistribution.sample(d, rng=r, k=3))])
            except Exception as e:
                o.append("error:" + type(e).__name__)
        return o
    out["fresh_same"] = seq(m) == seq(fresh)
    out["fresh_items_same"] = items_of(m) == items_of(fresh)
    return out


def _aslist(r):
    return r if isinstance(r, list) else [r]


def observe(case, d1, d2, universe, derived=False):
    import numpy as np
    from msdm.core.distributions.distributions import FiniteDistribution
    from msdm.core.distributions import UniformDistribution
    F = {dec(k): dec(v) for k, v in case["proj"]}
    def wv(v):
        if v[0] == "bool":
            return bool(v[1])
        if v[0] == "int":
            return int(v[1])
        if v[0] == "np":
            return np.float64(fl(v[1]))
        return fl(v[1])
    W = {dec(k): wv(v) for k, v in case["like"]}
    G = {dec(k): fl(v) for k, v in case["real"]}
    KERN = {dec(k): v for k, v in case["kern"]}
    a, b = fl(case["a"]), fl(case["b"])
    if case.get("ab_int"):
        a, b = int(a), int(b)
    res = {}
    for name, d in (("d1", d1), ("d2", d2)):
        r = {"items": items_of(d), "support": [enc(e) for e in d.support], "len": len(d),
             "cls": type(d).__name__}
        probes = []
        for e in universe:
            probes.append(guarded(lambda: fj(d.prob(e))))
        r["probs"] = probes
        r["mass"] = guarded(lambda: fj(sum(d.values())))
        r["is_normalized"] = guarded(lambda: bool(d.is_normalized()))
        res[name] = r
    first = {}
    def keep_first(name, fn):
        def go():
            first[name] = fn()
            return items_of(first[name])
        return guarded(go)
    res["marginalize"] = keep_first("marginalize", lambda: d1.marginalize(lambda e: F[e]))
    if case.get("kern_shared") and case["kern"]:
        shared_k = build(case["kern"][0][1])        # ONE distribution object returned for every event
        res["chain"] = guarded(lambda: items_of(d1.chain(lambda e: shared_k)))
    else:
        res["chain"] = guarded(lambda: items_of(d1.chain(lambda e: build(KERN[e]))))
    res["condition"] = keep_first("condition", lambda: d1.condition(lambda e: W[e]))
    res["joint"] = guarded(lambda: items_of(d1.joint(d2)))
    res["mix"] = guarded(lambda: items_of(d1 * a | d2 * b))
    res["rmul"] = guarded(lambda: items_of(a * d1))
    res["and"] = keep_first("and", lambda: d1 & d2)
    if case.get("default_real"):
        res["expectation"] = guarded(lambda: fj(d1.expectation()))      # real_function defaults to the identity
    else:
        res["expectation"] = guarded(lambda: fj(d1.expectation(lambda e: G[e])))
    res["normalize"] = guarded(lambda: items_of(d1.normalize()))
    res["kern_items"] = [[k, guarded(lambda: items_of(build(v)))] for k, v in case["kern"]]
    res["isnorm_custom"] = guarded(lambda: bool(d1.is_normalized(rtol=0.0, atol=2.0 ** -10)))
    res["compose_mix_normalize"] = guarded(lambda: items_of((d1 * a | d2 * b).normalize()))
    res["compose_condition_marginalize"] = guarded(
        lambda: items_of(d1.condition(lambda e: W[e]).marginalize(lambda e: F[e])))
    # the same object asked again gives the same answer, and no operation changed it
    res["repeat_ok"] = guarded(lambda: items_of(d1.marginalize(lambda e: F[e])) == res["marginalize"]
                               and items_of(d1.joint(d2)) == res["joint"])
    res["items_after"] = {"d1": guarded(lambda: items_of(d1)), "d2": guarded(lambda: items_of(d2))}
    # the generic FiniteDistribution.sample on every kind (list / tuple / dict-keys / generator supports), k = 1 and k = 3
    gd = []
    for u in case.get("gdraws", []):
        rng = Scripted(us=[fl(u)])
        def gg():
            e = FiniteDistribution.sample(d1, rng=rng)
            return {"event": enc(e), "used": rng.used}
        gd.append(guarded(gg))
    res["gdraws"] = gd
    def kd():
        rng = Scripted(us=[fl(u) for u in case.get("gdraws", [])])
        r = FiniteDistribution.sample(d1, rng=rng, k=len(case.get("gdraws", [])))
        if isinstance(r, list):
            return {"events": [enc(e) for e in r], "used": rng.used}
        return {"event": enc(r), "used": rng.used}
    res["kdraw"] = guarded(kd)
    # events that collide must be refused by the constructors that promise distinct events
    if case.get("neg") and not derived:
        e1, e2 = dec(case["neg"][0]), dec(case["neg"][1])
        res["neg"] = {"uniform": guarded(lambda: len(UniformDistribution([e1, e2]))),
                      "table": guarded(lambda: len(build({"kind": "table", "events": case["neg"], "weights": ["1/2", "1/2"]})))}
    # scripted sampling: one generator per draw, so that every draw is compared on its own
    draws = []
    for kind, v in case["script"]:
        rng = Scripted(us=[fl(v)]) if kind == "u" else Scripted(idx=[int(v)])
        def go():
            e = d1.sample(rng=rng)
            return {"event": enc(e), "used": rng.used}
        draws.append(guarded(go))
    res["draws"] = draws
    # seeded sampling: two equally seeded generators, and the stream one of them handed out
    seed = int(case["seed"])
    n = int(case["nseeded"])
    def seeded():
        r1, r2 = Recording(seed), random.Random(seed)
        r3 = Recording(seed)
        s1 = [d1.sample(rng=r1) for _ in range(n)]
        s3 = [d1.sample(rng=r3) for _ in range(n)]
        s2a = [d1.sample(rng=r2) for _ in range(n)]
        r2b = random.Random(seed)
        s2b = [d1.sample(rng=r2b) for _ in range(n)]
        return {"seq": [enc(e) for e in s1], "log": r1.log, "same_recording": s1 == s3 and r1.log == r3.log,
                "same_plain": s2a == s2b, "plain_seq": [enc(e) for e in s2a],
                "plain_probs": [fj(d1.prob(e)) for e in s2a]}
    res["seeded"] = guarded(seeded)
    # the same sampling sequence, mixing several distributions on ONE shared generator, run twice from
    # equally seeded generators: the two sequences must be identical
    def mixed():
        pool = [("d1", d1), ("d2", d2)] + [("k%d" % j, build(v)) for j, (k, v) in enumerate(case["kern"])]
        sup = list(d1.support)
        if sup:
            pool.append(("u1", UniformDistribution([sup[0]])))
        def run(rng):
            out = []
            for ix in case.get("mixed_order", []):
                nm, d = pool[ix % len(pool)]
                try:
                    out.append([nm, enc(d.sample(rng=rng))])
                except Exception as e:
                    out.append([nm, "error:" + type(e).__name__])
            return out
        a_, b_ = run(random.Random(seed)), run(random.Random(seed))
        return {"seq": a_, "same": a_ == b_}
    res["mixed"] = guarded(mixed)
    # BATCHED draws (k > 1) from equally seeded PRIVATE generators, while the global generators are in
    # different states in the two runs: the batches must be identical; and a call that was handed a private
    # generator should leave random / numpy.random alone
    def batches():
        pool = [("d1", d1), ("d2", d2)] + [("k%d" % j, build(v)) for j, (k, v) in enumerate(case["kern"])]
        order = case.get("mixed_order", [])
        def run(rng, gseed):
            random.seed(gseed)
            np.random.seed(gseed % 2**32)
            g0, n0 = random.getstate(), np.random.get_state()[1].tobytes()
            out = []
            for j, ix in enumerate(order[:8]):
                nm, d = pool[ix % len(pool)]
                k = (2, 3, 1, 5)[j % 4]
                try:
                    r = FiniteDistribution.sample(d, rng=rng, k=k) if j % 2 else d.sample(rng=rng, k=k)
                    out.append([nm, k, [enc(e) for e in r] if isinstance(r, list) else ["bare", enc(r)]])
                except TypeError:       # UniformDistribution / DeterministicDistribution.sample take no k
                    try:
                        r = FiniteDistribution.sample(d, rng=rng, k=k)
                        out.append([nm, k, [enc(e) for e in r] if isinstance(r, list) else ["bare", enc(r)]])
                    except Exception as e:
                        out.append([nm, k, "error:" + type(e).__name__])
                except Exception as e:
                    out.append([nm, k, "error:" + type(e).__name__])
            touched = g0 != random.getstate() or n0 != np.random.get_state()[1].tobytes()
            return out, touched
        a_, ta = run(random.Random(seed), 111)
        b_, tb = run(random.Random(seed), 222)
        return {"seq": a_, "same": a_ == b_, "global_touched": bool(ta or tb)}
    res["batches"] = guarded(batches)
    # one object as both operands
    res["self_and"] = guarded(lambda: items_of(d1 & d1))
    res["self_mix"] = guarded(lambda: items_of(d1 | d1))
    res["self_joint"] = guarded(lambda: items_of(d1.joint(d1)))
    # results of the FIRST calls, asked again after everything else (also on events never looked up before)
    def stale():
        for name, obj in first.items():
            now = items_of(obj)
            if now != res[name]:
                return "%s result changed after later calls: %r -> %r" % (name, res[name], now)
            look = dict((repr(dec(e)), p) for e, p in now)
            for e in universe:
                try:
                    got = fj(obj.prob(e))
                except BaseException as ex:
                    return "%s result: prob(%r) raises %s" % (name, e, type(ex).__name__)
                want = [p for e2, p in zip([dec(x) for x, _ in now], [p for _, p in now]) if e2 == e]
                if got != (want[0] if want else fj(0.0)):
                    return "%s result: prob(%r) = %r, items say %r" % (name, e, got, want)
        return True
    res["stale_ok"] = guarded(stale)
    # the same specification built again after all the unrelated constructions in between
    res["rebuild_same"] = True if derived else guarded(
        lambda: items_of(build(case["d1"])) == res["d1"]["items"] and items_of(build(case["d2"])) == res["d2"]["items"])
    res["inputs_unchanged"] = guarded(inputs_unchanged)
    return res


if __name__ == "__main__":
    run_cases(one)
