"""C10 implementation runner: QLearning / SARSA / ExpectedSARSA / DoubleQLearning on generated MDPs.

A recording TDLearningEventListener (msdm's public listener interface) captures every experienced
step at end_of_timestep: (s, a, r, ns) from the locals msdm hands over (the names its own
EpisodeRewardEventListener uses), SARSA's `na` if present (optional: the harness derives it from the
next step), and the entry Q(s,a) just written in every state->action->value table found among those
locals BY STRUCTURE (one table; two for double Q) -- no local name beyond s/a/r/ns is required, no
msdm helper is wrapped, nothing depends on how many random numbers are drawn.  Episode start states
are taken from end_of_episode / the first step.  Double Q's (table, argmax pick) and the softmax
behaviour distribution are inferred/computed by harness/c10.py:annotate and checked by the Coq fold.
Returned: the experience, the final Q-table WITH ITS KEY ORDER (snapshot taken before the policy is
queried, and the key list again afterwards), and the policy at every state id of the MDP.

Input representations (the case says which): state / action LABELS of several types including falsy
ones (0, "", (), False) mapped from the generator's ids, per-state action ORDER, MDP given as
QuickTabularMDP / QuickMDP / a hand-written TabularMarkovDecisionProcess subclass (list-valued actions,
Deterministic/Uniform/Dict distributions) / `initial_state=` form, numeric parameters as int or float,
seed 0 / None (global `random`, seeded here).  Everything is mapped back to ids before it is returned.
Object reuse: ONE learner object through all stages of a case, one MDP object per distinct stage spec
(reused when a spec recurs, optionally with its cached matrix views touched first), a twin learner with
msdm's default listener on the same MDP object (results must be identical), the policy queried twice."""
import os, sys, json, random
sys.path.insert(0, os.path.dirname(os.path.abspath(__file__)))
from build import *

_CTX = {"sid": None, "aid": None}

S_POOLS = {"str": ["", "a", "b", "c", "d", "e", "f"],
           "tuple": [(), (0,), (1,), (0, 1), ("x",), (2, 2), (0, 0, 0)],
           "mixed": ["", (), 0, "z", (1,), 7, -1.5],
           "boolmixed": [False, "", (), "q", (3,), 9, "0"]}
A_POOLS = {"str": ["", "left", "r"], "tuple": [(), (0, 1), (1, 0)], "mixed": [0, "", ()],
           "boolmixed": [False, "x", (1,)]}


def _install():
    import msdm.algorithms.tdlearning as td
    return td


def _tables(lv, s, a):
    """the state -> action -> value tables among the locals, in order of appearance, whatever their names"""
    out = []
    for v in lv.values():
        try:
            if isinstance(v, dict) and dict.__contains__(v, s):
                row = dict.__getitem__(v, s)
                if isinstance(row, dict) and a in row and not any(v is t for t in out):
                    out.append(v)
        except TypeError:
            pass
    return out


STEP_BUDGET = 60000     # per train_on; the generated proper MDPs need a few thousand steps at most


class StepBudgetExceeded(Exception):
    pass


def make_twin_listener(td):
    class Budgeted(td.EpisodeRewardEventListener):
        def __init__(self):
            super().__init__()
            self.nsteps = 0

        def end_of_timestep(self, lv):
            self.nsteps += 1
            if self.nsteps > STEP_BUDGET:
                raise StepBudgetExceeded("more than %d steps in one train_on" % STEP_BUDGET)
            super().end_of_timestep(lv)
    return Budgeted


def make_listener(td, kind):
    class Recorder(td.TDLearningEventListener):
        def __init__(self):
            self.episodes = []
            self.cur = None
            self.nsteps = 0

        def end_of_timestep(self, lv):
            self.nsteps += 1
            if self.nsteps > STEP_BUDGET:
                raise StepBudgetExceeded("more than %d steps in one train_on" % STEP_BUDGET)
            sid, aid = _CTX["sid"], _CTX["aid"]
            if self.cur is None:
                self.cur = {"start": sid[lv["s"]], "steps": []}
            s, a, ns = lv["s"], lv["a"], lv["ns"]
            st = {"s": sid[s], "a": aid[a], "r": fj(lv["r"]), "ns": sid[ns]}
            na = lv.get("na", None) if kind == "sarsa" else None
            if kind == "sarsa" and "na" in lv and na in aid:
                st["na"] = aid[na]
            # the entry just written, in every table the learner keeps (1; 2 for double Q)
            st["after"] = [fj(dict.__getitem__(t, s)[a]) for t in _tables(lv, s, a)]
            self.cur["steps"].append(st)

        def end_of_episode(self, lv):
            if self.cur is None:                 # loop body never ran: s is still the sampled start state
                self.cur = {"start": _CTX["sid"][lv["s"]], "steps": []}
            self.episodes.append(self.cur)
            self.cur = None

        def results(self):
            return self.episodes
    return Recorder


def label_maps(case, n, nA):
    lab = case.get("labels") or {}
    ss, sa = lab.get("s", "int"), lab.get("a", "int")
    slab = list(range(n)) if ss == "int" else [S_POOLS[ss][i] for i in lab["s_idx"]]
    alab = list(range(nA)) if sa == "int" else [A_POOLS[sa][i] for i in lab["a_idx"]]
    return slab, alab


def build(case, spec, slab, alab):
    """msdm MDP object for one stage, in the representation the case asks for.
    Returns (mdp, sid, aid, snap, edit): snap() = repr of the caller's data as the MDP currently defines it,
    edit(spec2) rewrites the SAME MDP object in place into another problem (memoised distribution objects are
    cleared and refilled, reward dict / absorbing list mutated, discount attribute reassigned)."""
    from msdm.core.mdp.quickmdp import QuickTabularMDP, QuickMDP
    from msdm.core.mdp.tabularmdp import TabularMarkovDecisionProcess
    from msdm.core.distributions import DictDistribution
    from msdm.core.distributions.dictdistribution import UniformDistribution, DeterministicDistribution
    form = case.get("form", "quick")
    scratch = bool(case.get("scratch_dists"))
    inplace = bool(case.get("edit_in_place"))
    if scratch or inplace:
        form = "quickmdp" if form == "quickmdp" else "quick"      # plain DictDistributions, mutable
    sid = {l: i for i, l in enumerate(slab)}
    aid = {l: i for i, l in enumerate(alab)}
    order = (case.get("labels") or {}).get("a_order")
    rich = form == "class"

    def mkdist(pairs):
        pos = [(x, p) for x, p in pairs]
        if rich and len(pos) == 1 and pos[0][1] == 1.0:
            return DeterministicDistribution(pos[0][0])
        if rich and len(pos) > 1 and all(p == pos[0][1] for _, p in pos) and abs(pos[0][1] * len(pos) - 1) < 1e-15:
            return UniformDistribution([x for x, _ in pos])
        return DictDistribution(dict(pos))
    pairs, trans, rew, acts, absorbing = {}, {}, {}, [], []
    box = {"init_pairs": None, "init": None, "gamma": None}

    def load(sp, first):
        pairs.clear()
        for k, row in sp["trans"].items():
            s, a = map(int, k.split(","))
            pairs[(s, a)] = [(slab[ns], fl(p)) for ns, p in row]
            if first or (s, a) not in trans or not isinstance(trans[(s, a)], dict):
                trans[(s, a)] = mkdist(pairs[(s, a)])
            else:                                   # the memoised object keeps its identity, its contents change
                dict.clear(trans[(s, a)])
                dict.update(trans[(s, a)], dict(pairs[(s, a)]))
        rew.clear()
        for k, r in sp["reward"].items():
            s, a, ns = map(int, k.split(","))
            rew[(s, a, ns)] = fl(r)
            if case.get("int_rewards") and rew[(s, a, ns)] == int(rew[(s, a, ns)]):
                rew[(s, a, ns)] = int(rew[(s, a, ns)])      # integer-typed rewards where floats are usual
        new_acts = []
        for s in range(sp["n"]):
            ids = list(sp["actions"][s])
            if order and sorted(order[s]) == sorted(ids):
                ids = list(order[s])
            labs = [alab[a] for a in ids]
            new_acts.append(labs if rich else tuple(labs))
        if rich and case.get("shared_actions") and all(x == new_acts[0] for x in new_acts):
            new_acts = [new_acts[0]] * len(new_acts)              # ONE list object handed out for every state
        acts[:] = new_acts
        absorbing[:] = list(sp["absorbing"])
        box["init_pairs"] = [(slab[s], fl(p)) for s, p in sp["init"]]
        if first or not isinstance(box["init"], dict):
            box["init"] = mkdist(box["init_pairs"])
        else:
            dict.clear(box["init"])
            dict.update(box["init"], dict(box["init_pairs"]))
        g = fl(sp["gamma"])
        if case.get("int_params") and g == int(g):
            g = int(g)
        box["gamma"] = g
    load(spec, True)
    scratch_t, scratch_i = DictDistribution({}), DictDistribution({})

    def nsd(s, a):
        if scratch:        # ONE distribution object for every call, rewritten each time
            dict.clear(scratch_t)
            dict.update(scratch_t, dict(pairs[(sid[s], aid[a])]))
            return scratch_t
        return trans[(sid[s], aid[a])]

    def isd():
        if scratch:
            dict.clear(scratch_i)
            dict.update(scratch_i, dict(box["init_pairs"]))
            return scratch_i
        return box["init"]
    rwf = lambda s, a, ns: rew.get((sid[s], aid[a], sid[ns]), 0.0)
    if form == "class":
        class HandMDP(TabularMarkovDecisionProcess):
            discount_rate = box["gamma"]
            def next_state_dist(self, s, a): return nsd(s, a)
            def reward(self, s, a, ns): return rwf(s, a, ns)
            def actions(self, s): return acts[sid[s]]
            def initial_state_dist(self): return isd()
            def is_absorbing(self, s): return absorbing[sid[s]]
        mdp = HandMDP()
    else:
        cls = QuickMDP if form == "quickmdp" else QuickTabularMDP
        kw = dict(next_state_dist=nsd, reward=rwf, actions=lambda s: acts[sid[s]],
                  is_absorbing=lambda s: absorbing[sid[s]], discount_rate=box["gamma"])
        pos = [x for x, p in box["init_pairs"] if p > 0]
        if form == "quick_init_state" and len(box["init_pairs"]) == 1 and len(pos) == 1 and not inplace:
            kw["initial_state"] = pos[0]          # deterministic variant; the label may be falsy
        else:
            kw["initial_state_dist"] = isd
        mdp = cls(**kw)

    def edit(sp):
        load(sp, False)
        mdp.discount_rate = box["gamma"]

    def snap():
        """the caller's data as the MDP currently defines it: a learner must never change it"""
        def dd(d):
            if isinstance(d, dict):
                return ("dict", tuple(dict.items(d)))
            if isinstance(d, DeterministicDistribution):
                return ("det", d.value)
            return ("uni", tuple(d.support))
        return repr((tuple(tuple(x) for x in acts), tuple(sorted(pairs.items(), key=repr)),
                     None if scratch else tuple((k, dd(v)) for k, v in trans.items() if k in pairs),
                     tuple(rew.items()), tuple(box["init_pairs"]), None if scratch else dd(box["init"]), tuple(absorbing)))
    return mdp, sid, aid, snap, edit


class StatefulInitialQ:
    """callable initial_q that is NOT a pure function: the k-th question about (s, a) since the last reset is answered
    base[s][a] + k*delta, and every answer is logged.  The table must hold the value that was returned when the entry
    was created, and each entry must be asked exactly once per table."""
    def __init__(self, base, delta, sid, aid):
        self.base, self.delta, self.sid, self.aid = base, delta, sid, aid
        self.reset()

    def reset(self):
        self.count, self.log = {}, []

    def __call__(self, s, a):
        i, j = self.sid[s], self.aid[a]
        k = self.count.get((i, j), 0)
        self.count[(i, j)] = k + 1
        v = self.base[i][j] + k * self.delta
        self.log.append([i, j, fj(v)])
        return v


def num(case, x):
    v = fl(x)
    if case.get("int_params") and v == int(v):
        return int(v)
    return v


def one(case, pl):
    td = _install()
    kind = case["learner"]
    cls = {"ql": td.QLearning, "sarsa": td.SARSA, "esarsa": td.ExpectedSARSA, "dq": td.DoubleQLearning}[kind]
    if case.get("expect_raise"):
        # error path of the constructor: initial_q that is neither a number nor callable
        try:
            cls(initial_q=case["expect_raise"])
            return {"raised": None}
        except BaseException as e:
            return {"raised": type(e).__name__}
    stages = case.get("stages") or [case["mdp"]]
    n, nA = max(sp["n"] for sp in stages), max(sp["nA"] for sp in stages)
    slab, alab = label_maps(case, n, nA)
    sid0 = {l: i for i, l in enumerate(slab)}
    aid0 = {l: i for i, l in enumerate(alab)}
    iq = case["initial_q"]
    tbl = None
    if iq["kind"] == "const":
        initial_q = fl(iq["value"])
    elif iq["kind"] == "int":
        initial_q = int(iq["value"])
    else:
        tbl = [[fl(x) for x in row] for row in iq["table"]]
        initial_q = lambda s, a: tbl[sid0[s]][aid0[a]]
    stateful = None
    if iq["kind"] == "stateful":
        stateful = StatefulInitialQ(tbl, fl(iq["delta"]), sid0, aid0)
        initial_q = stateful
    params = dict(episodes=int(case["episodes"]), step_size=num(case, case["alpha"]), rand_choose=num(case, case["eps"]),
                  softmax_temp=num(case, case["temp"]), initial_q=initial_q, seed=case["seed"])

    def construct(iqv, **kw):
        p = dict(params, initial_q=iqv)
        if case.get("positional"):
            # the documented order of the hyper-parameters (property side; not read from the implementation)
            return cls(p["episodes"], p["step_size"], p["rand_choose"], p["softmax_temp"], p["initial_q"], p["seed"], **kw)
        return cls(**p, **kw)
    # ONE learner object for all stages: train_on(A), train_on(B), train_on(A) ... (same labels, B possibly of a
    # different size); nothing learnt or cached on one problem may leak into the next result
    learner = construct(initial_q, event_listener_class=make_listener(td, kind))
    out, kept, built = [], [], {}
    for k_stage, spec in enumerate(stages):
        key = json.dumps(spec, sort_keys=True)
        if case.get("edit_in_place") and built:
            key = next(iter(built))                        # ONE MDP object, rewritten in place for this stage
            built[key][4](spec)
        elif key not in built or not case.get("reuse_mdp_object", True):
            built[key] = build(case, spec, slab, alab)     # same problem constructed again in this process
            if case.get("pretouch"):
                try:    # a base object whose cached views were already used
                    built[key][0].state_list, built[key][0].action_list, built[key][0].transition_matrix
                except BaseException:
                    pass
        mdp, sid, aid, snap, _edit = built[key]
        _CTX["sid"], _CTX["aid"] = sid, aid
        before = (snap(), repr(tbl))
        if case["seed"] is None:
            random.seed(case.get("global_seed", 0))
        if stateful is not None:
            stateful.reset()
        res = learner.train_on(mdp)
        iq_calls = list(stateful.log) if stateful is not None else None
        q = res.q_values
        keys = [k for k in dict.keys(q)]
        table = [[sid[s], [[aid[a], fj(v)] for a, v in dict.items(dict.__getitem__(q, s))]] for s in keys]
        # the policy is asked about half of the states now and about the others only after ALL later stages ran
        now = [s for s in range(spec["n"]) if (s + k_stage) % 2 == 0 or len(stages) == 1]
        first = {s: {aid[a]: p for a, p in res.policy.action_dist(slab[s]).items()} for s in now}
        again = {s: {aid[a]: p for a, p in res.policy.action_dist(slab[s]).items()} for s in now}
        requery_ok = again == first
        keys_after = [sid[k] for k in dict.keys(res.q_values)]
        # twin: a second learner object of the same class, msdm's default listener, same MDP object
        if case["seed"] is None:
            random.seed(case.get("global_seed", 0))
        twin_iq = StatefulInitialQ(tbl, fl(iq["delta"]), sid0, aid0) if stateful is not None else initial_q
        twin = construct(twin_iq, event_listener_class=make_twin_listener(td)).train_on(mdp)
        tq = twin.q_values
        twin_table = {sid[s]: {aid[a]: v for a, v in dict.items(dict.__getitem__(tq, s))} for s in dict.keys(tq)}
        mine = {sid[s]: {aid[a]: v for a, v in dict.items(dict.__getitem__(q, s))} for s in keys}
        sums = []
        for ep in res.event_listener_results:
            t = 0
            for st in ep["steps"]:
                t += float(Fraction(*st["r"]))
            sums.append(t)
        twin_ok = (twin_table == mine) and (list(twin.event_listener_results.episode_rewards) == sums)
        inputs_untouched = (snap(), repr(tbl)) == before
        kept.append((res, spec, sid, aid, first, mine))
        out.append({"episodes": res.event_listener_results, "keys": [sid[k] for k in keys], "table": table,
                    "keys_after_policy": keys_after, "policy_requery_ok": bool(requery_ok),
                    "twin_ok": bool(twin_ok), "inputs_untouched": bool(inputs_untouched), "iq_calls": iq_calls,
                    "twin_detail": None if twin_ok else {"twin_table": {str(s): {str(a): fj(v) for a, v in r.items()} for s, r in twin_table.items()},
                                                          "twin_episode_rewards": [fj(x) for x in twin.event_listener_results.episode_rewards]},
                    "actions": [[aid[a] for a in mdp.actions(slab[s])] for s in range(spec["n"])]})
    # results of EARLIER calls, re-queried after the later ones: remaining states first (never asked before),
    # then everything again; the returned tables must not have moved either
    for o, (res, spec, sid, aid, first, mine) in zip(out, kept):
        pol = dict(first)
        for s in range(spec["n"]):
            if s not in pol:
                pol[s] = {aid[a]: p for a, p in res.policy.action_dist(slab[s]).items()}
        final = {s: {aid[a]: p for a, p in res.policy.action_dist(slab[s]).items()} for s in range(spec["n"])}
        q = res.q_values
        later = {sid[s]: {aid[a]: v for a, v in dict.items(dict.__getitem__(q, s))} for s in dict.keys(q)}
        o["policy"] = [[[a, fj(p)] for a, p in pol[s].items()] for s in range(spec["n"])]
        o["policy_requery_ok"] = bool(o["policy_requery_ok"] and final == pol)
        o["stale_results_ok"] = bool(later == mine)
        o["keys_after_policy"] = [sid[k] for k in dict.keys(q)]
    return {"stages": out}


if __name__ == "__main__":
    run_cases(one)
