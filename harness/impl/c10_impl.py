"""C10 implementation runner: QLearning / SARSA / ExpectedSARSA / DoubleQLearning on generated MDPs.

A recording TDLearningEventListener (msdm's public listener interface) captures every experienced
step from the learner's own local variables at end_of_timestep: (s, a, r, ns), SARSA's next action,
the entry just written (for diagnosis), and for double Q which table was updated and which argmax
pick was used (module-level name `argmax` of msdm.algorithms.tdlearning wrapped from here; nothing
in /repo is modified).  Episode start states are taken from end_of_episode / the first step.
For expected SARSA the behaviour distribution used for the target (local `na_dist`) is recorded too.
Returned: the experience, the final Q-table WITH ITS KEY ORDER (snapshot taken before the policy is
queried, and the key list again afterwards), and the policy at every state id of the MDP."""
import os, sys
sys.path.insert(0, os.path.dirname(os.path.abspath(__file__)))
from build import *

_PICKS = []
_CTX = {}


def _install():
    import msdm.algorithms.tdlearning as td
    if getattr(td, "_c10_wrapped", False):
        return td
    orig = td.argmax

    def rec_argmax(d, rng):
        aa = orig(d, rng)
        _PICKS.append((d, aa[-1] if len(aa) else None))   # the learner takes .pop() = last element
        return aa
    td.argmax = rec_argmax
    td._c10_wrapped = True
    return td


def make_listener(td, kind):
    class Recorder(td.TDLearningEventListener):
        def __init__(self):
            self.episodes = []
            self.cur = None

        def end_of_timestep(self, lv):
            if self.cur is None:
                self.cur = {"start": lv["s"], "steps": []}
            s, a, ns = lv["s"], lv["a"], lv["ns"]
            st = {"s": s, "a": a, "r": fj(lv["r"]), "ns": ns}
            if kind == "sarsa":
                st["na"] = lv["na"]
            if kind == "dq":
                if len(_PICKS) != 1:
                    raise RuntimeError("expected exactly one argmax call per double-Q step, saw %d" % len(_PICKS))
                d, pick = _PICKS.pop()
                q1ns, q2ns = dict.get(lv["q1"], ns), dict.get(lv["q2"], ns)
                if d is q1ns:
                    st["coin"] = True
                elif d is q2ns:
                    st["coin"] = False
                else:
                    raise RuntimeError("argmax was not taken over q1[ns] or q2[ns]")
                st["pick"] = pick
                st["after"] = [fj(lv["q1"][s][a]), fj(lv["q2"][s][a])]
            else:
                st["after"] = [fj(lv["q"][s][a])]
            if kind == "esarsa":
                st["dist"] = [[b, fj(p)] for b, p in lv["na_dist"].items()]
            self.cur["steps"].append(st)

        def end_of_episode(self, lv):
            if self.cur is None:                 # loop body never ran: s is still the sampled start state
                self.cur = {"start": lv["s"], "steps": []}
            self.episodes.append(self.cur)
            self.cur = None
            del _PICKS[:]

        def results(self):
            return self.episodes
    return Recorder


def one(case, pl):
    td = _install()
    del _PICKS[:]
    kind = case["learner"]
    cls = {"ql": td.QLearning, "sarsa": td.SARSA, "esarsa": td.ExpectedSARSA, "dq": td.DoubleQLearning}[kind]
    iq = case["initial_q"]
    if iq["kind"] == "const":
        initial_q = fl(iq["value"])
    elif iq["kind"] == "int":
        initial_q = int(iq["value"])
    else:
        tbl = [[fl(x) for x in row] for row in iq["table"]]
        initial_q = lambda s, a: tbl[s][a]
    # ONE learner object for all stages: train_on(A), train_on(B), train_on(A) ... (same state/action labels);
    # nothing learnt or cached on one problem may leak into the next result
    learner = cls(episodes=int(case["episodes"]), step_size=fl(case["alpha"]), rand_choose=fl(case["eps"]),
                  softmax_temp=fl(case["temp"]), initial_q=initial_q, seed=int(case["seed"]),
                  event_listener_class=make_listener(td, kind))
    out = []
    for spec in (case.get("stages") or [case["mdp"]]):
        del _PICKS[:]
        mdp = build_mdp(spec)
        res = learner.train_on(mdp)
        q = res.q_values
        keys = [k for k in dict.keys(q)]
        table = [[s, [[a, fj(v)] for a, v in dict.items(dict.__getitem__(q, s))]] for s in keys]
        policy = []
        for s in range(spec["n"]):
            d = res.policy.action_dist(s)
            policy.append([[a, fj(p)] for a, p in d.items()])
        keys_after = [k for k in dict.keys(res.q_values)]
        out.append({"episodes": res.event_listener_results, "keys": keys, "table": table, "policy": policy,
                    "keys_after_policy": keys_after,
                    "actions": [list(mdp.actions(s)) for s in range(spec["n"])]})
    return {"stages": out}


if __name__ == "__main__":
    run_cases(one)
