"""C12 implementation runner: builds msdm tables from JSON cases and records what indexing returns.

case   = {"cls": "Table|ProbabilityTable|StateTable|StateActionTable|StateActionNextStateTable|TabularPolicy",
          "names": [pv...], "doms": [[pv...]...], "chains": [[pv...]...]}
pv     = ["i",n] | ["b",bool] | ["f",num,den] | ["s",str] | ["n"] | ["e"] | ["sl",full] |
         ["t",[pv]] | ["dt",[pv]] | ["l",[pv]] | ["fs",[pv]]
result = {"keys": [pv], "len": n, "items": [obs], "chains": [{"steps": [obs], "get": obs, "action_dist": obs|None}]}
obs    = ["self"] | ["scalar",z] | ["table",cls,names,doms,data,probs,extra] | ["err",ExcName] | ["default"] | ["early"]
"""
import os, sys
sys.path.insert(0, os.path.dirname(os.path.abspath(__file__)))
from build import *
from fractions import Fraction


def main():
    import numpy as np
    from msdm.core.table import Table, ProbabilityTable, TableIndex, domaintuple
    from msdm.core.table.table import TableDistribution
    from msdm.core.mdp.tables import StateTable, StateActionTable, StateActionNextStateTable
    from msdm.core.mdp.tabularpolicy import TabularPolicy

    CLS = {"Table": Table, "ProbabilityTable": ProbabilityTable, "StateTable": StateTable,
           "StateActionTable": StateActionTable, "StateActionNextStateTable": StateActionNextStateTable,
           "TabularPolicy": TabularPolicy, "TableDistribution": TableDistribution}
    from msdm.core.mdp.tables import StateNextStateTable
    CLS["StateNextStateTable"] = StateNextStateTable
    SENT = object()

    def dec(v):
        t = v[0]
        if t == "i": return int(v[1])
        if t == "b": return bool(v[1])
        if t == "f": return float(Fraction(int(v[1]), int(v[2])))
        if t == "s": return v[1]
        if t == "n": return None
        if t == "e": return Ellipsis
        if t == "sl": return slice(None) if v[1] else slice(0, 1)
        if t == "t": return tuple(dec(x) for x in v[1])
        if t == "dt": return domaintuple([dec(x) for x in v[1]])
        if t == "l": return [dec(x) for x in v[1]]
        if t == "fs": return frozenset(dec(x) for x in v[1])
        raise ValueError(v)

    def enc(x):
        if isinstance(x, (bool, np.bool_)): return ["b", bool(x)]
        if isinstance(x, (int, np.integer)): return ["i", int(x)]
        if isinstance(x, (float, np.floating)):
            n, d = float(x).as_integer_ratio()
            return ["f", n, d]
        if isinstance(x, str): return ["s", x]
        if x is None: return ["n"]
        if x is Ellipsis: return ["e"]
        if isinstance(x, slice): return ["sl", x == slice(None)]
        if isinstance(x, domaintuple): return ["dt", [enc(e) for e in x]]
        if isinstance(x, tuple): return ["t", [enc(e) for e in x]]
        if isinstance(x, list): return ["l", [enc(e) for e in x]]
        if isinstance(x, frozenset): return ["fs", sorted((enc(e) for e in x), key=repr)]
        return ["?", repr(x)]

    def catching(f):
        try:
            return f()
        except BaseException as e:
            if isinstance(e, (KeyboardInterrupt, SystemExit)):
                raise
            return ("__err__", type(e).__name__)

    OBJ = [False]   # object-dtype mode: cells are tuples / lists / frozensets / None / str ... (case["vals"] holds them)
    VALS = [None]   # "real numbers" mode: cells are the doubles / float32s / ints of case["vals"], reported exactly

    def cellenc(x):
        """a cell as the harness compares it: the integer cell id, or (vals mode) the exact rational of the number held"""
        if OBJ[0]:                   # object-dtype table: the cell is an arbitrary Python object, reported type-exactly
            return ["o", enc(x)]
        if VALS[0] is not None:
            n, d = float(x).as_integer_ratio()
            return [n, d]
        return int(x) - OFF[0]

    def is_cell(r):
        if OBJ[0]:                   # anything that is not a table / error / sentinel (checked by the callers) is the cell
            return True
        if VALS[0] is not None:      # a numpy scalar (a plain Python float is get()'s default, never a cell)
            return isinstance(r, (np.floating, np.integer)) and not isinstance(r, (bool, np.bool_))
        if OFF[0]:
            return isinstance(r, (float, np.floating)) and float(r) >= 1.0 and float(r) == int(r)
        return isinstance(r, (int, np.integer)) and not isinstance(r, bool)

    def scalar_obs(r):
        if r is SENT: return ["default"]
        if is_cell(r): return ["scalar", cellenc(r)]
        if isinstance(r, float): return ["default-float", r]
        return ["other", repr(r)[:80]]

    def flatcells(a):
        a = np.asarray(a) if not isinstance(a, np.ndarray) else a
        return [a[ix] for ix in np.ndindex(*a.shape)]

    def shallow(v, cur):
        if isinstance(v, tuple) and len(v) == 2 and v[0] == "__err__": return ["err", v[1]]
        if v is cur: return ["self"]
        if isinstance(v, Table):
            ti = v.table_index
            return ["table", type(v).__name__, [enc(n) for n in ti.field_names], [[enc(e) for e in d] for d in ti.field_domains],
                    [cellenc(x) for x in flatcells(v._data)]]
        return scalar_obs(v)

    def obs(r, cur):
        if isinstance(r, tuple) and len(r) == 2 and r[0] == "__err__":
            return ["err", r[1]]
        if r is SENT: return ["default"]
        if r is cur: return ["self"]
        if isinstance(r, Table):
            ti = r.table_index
            probs, extra = [], {}
            if isinstance(r, TableDistribution):
                sup = catching(lambda: list(r.support))
                if isinstance(sup, tuple) and sup and sup[0] == "__err__":
                    extra["support_error"] = sup[1]
                else:
                    extra["support"] = [enc(e) for e in sup]
                    for e in sup:
                        p = catching(lambda: r.prob(e))
                        if isinstance(p, tuple) and len(p) == 2 and p[0] == "__err__":
                            probs.append(["err", p[1]])
                        elif type(p) is float and p == 0.0:      # DictDistribution.prob's default (a cell is a numpy scalar)
                            probs.append(["default"])
                        else:
                            probs.append(scalar_obs(p))
                    pf = catching(lambda: r.prob("__foreign__"))
                    extra["prob_foreign"] = pf if isinstance(pf, float) else repr(pf)
                    it = catching(lambda: [[enc(k), scalar_obs(v)] for k, v in r.items()])
                    extra["items"] = it if isinstance(it, list) else ["err", it[1]]
                    extra["len"] = catching(lambda: len(r))
            # the returned table is a table: its own keys / len / items (one level deep)
            ks = catching(lambda: [enc(k) for k in r.keys()])
            ln = catching(lambda: len(r))
            its = catching(lambda: [[enc(k), shallow(v, r)] for k, v in r.items()])
            return ["table", type(r).__name__, [enc(n) for n in ti.field_names],
                    [[enc(e) for e in d] for d in ti.field_domains],
                    [cellenc(x) for x in flatcells(r._data)], probs, extra,
                    {"data_shape": list(np.asarray(r._data).shape), "dom_types": [type(d).__name__ for d in ti.field_domains],
                     "keys": ks if isinstance(ks, list) else ["err", ks[1]], "len": ln if isinstance(ln, int) else ["err", ln[1]],
                     "items": its if isinstance(its, list) else ["err", its[1]]}]
        if is_cell(r):
            return ["scalar", cellenc(r)]
        return ["other", repr(r)[:80]]

    INPUTS = {}    # the caller's objects handed to the constructor of the table under test (snapshot / mutation check)
    OFF = [0]      # float-data mode stores cell+1 as float64; observations report the integer cell

    def build(case, bump=0, reuse_from=None):
        """builds the table of the case through the representation the case asks for:
        rep.doms_as list|tuple|domaintuple, rep.ctor default|fields|from_dict|listdata, rep.dtype int|float"""
        rep = case.get("rep", {})
        cls = CLS[case["cls"]]
        doms = [[dec(e) for e in d] for d in case["doms"]]
        names = [dec(n) for n in case["names"]]
        shape = tuple(len(d) for d in doms)
        flat = [x + bump for x in case["data"]]
        if rep.get("dtype") == "object":
            data = np.empty(shape, dtype=object)          # filled cell by cell: numpy must not read tuples as dimensions
            order = list(reversed(case["data"])) if bump else case["data"]
            for ix, k in zip(np.ndindex(*shape), order):
                data[ix] = dec(case["vals"][k])
        elif "vals" in case:
            nums = [float.fromhex(v) if isinstance(v, str) else v for v in case["vals"]]
            nums = nums + [999.0] * 1000                      # id 999 = from_dict's default_value
            dt = {"prob64": np.float64, "prob32": np.float32, "probint": np.int64}[rep["dtype"]]
            data = np.array([nums[k] for k in case["data"]], dtype=dt).reshape(shape)
            if bump:
                data = (data * 0.5 + 0.25).astype(dt)       # the twin: same labels, other numbers
        elif rep.get("dtype") == "float":
            data = (np.array(flat, dtype=float) + 1.0).reshape(shape)
        else:
            data = np.array(flat, dtype=int).reshape(shape)
        if reuse_from is not None:          # the very domaintuple / TableIndex objects of an already used table
            doms = list(reuse_from.table_index.field_domains)
        else:
            conv = {"list": list, "tuple": tuple, "domaintuple": domaintuple}[rep.get("doms_as", "list")]
            if rep.get("ctor") == "fields":     # the container the caller puts into Field(...) is KEPT by TableIndex(fields=)
                kc = {"dt": domaintuple, "t": tuple, "l": list}
                doms = [kc[k](d) for k, d in zip(case.get("kinds", ["dt"] * len(doms)), doms)]
            else:
                doms = [conv(d) for d in doms]
            if rep.get("share_doms"):       # ONE object for every field whose domain is the same sequence
                for i in range(len(doms)):
                    for j in range(i):
                        if case["doms"][i] == case["doms"][j] and type(doms[i]) is type(doms[j]):
                            doms[i] = doms[j]
        if not bump:
            INPUTS.update(doms=doms, data=data, data_copy=np.array(data, copy=True))
        ctor = rep.get("ctor", "default")
        name = case["cls"]
        if ctor == "from_dict":
            miss = set(tuple(m) for m in case.get("missing", []))
            if name == "StateTable":
                return cls.from_dict({s: data[i] for i, s in enumerate(doms[0])})
            d = {s: {a: data[i, j] for j, a in enumerate(doms[1]) if (i, j) not in miss} for i, s in enumerate(doms[0])}
            return cls.from_dict(d, default_value=(999 + (1 if rep.get("dtype") == "float" else 0)))
        if ctor == "fields":            # public path: numpy array + TableIndex(fields=[Field(name, domain)...]), any class
            from msdm.core.table.tableindex import Field
            return cls(data, TableIndex(fields=[Field(n, d) for n, d in zip(names, doms)]))
        if ctor == "listdata":
            data = data.tolist()
            if not bump:
                INPUTS["data"] = data
        if name == "StateTable":
            return cls.from_state_list(doms[0], data)
        if name == "StateNextStateTable":
            return cls.from_state_list(doms[0], data)
        if name in ("StateActionTable", "TabularPolicy", "StateActionNextStateTable"):
            return cls.from_state_action_lists(doms[0], doms[1], data)
        if reuse_from is not None and ctor != "fields":
            return cls(data, reuse_from.table_index)
        return cls(data, TableIndex(field_names=names, field_domains=doms))

    def one(case, pl):
        rep = case.get("rep", {})
        OFF[0] = 1 if rep.get("dtype") == "float" else 0
        OBJ[0] = rep.get("dtype") == "object"
        VALS[0] = case["vals"] if ("vals" in case and not OBJ[0]) else None
        if rep.get("reuse"):
            # a twin table over the same labels with other numbers is built and USED first (caches on the
            # domaintuple / TableIndex objects are filled), then the real table is derived from its objects
            t0 = build(case, bump=1000)
            list(t0.items()); len(t0); t0.table_index.shape
            for ch in case["chains"]:
                catching(lambda: t0[dec(ch[0])])
            t = build(case, reuse_from=(None if rep.get("ctor") == "from_dict" else t0))
        else:
            t = build(case)
        res = {"names": [enc(n) for n in t.table_index.field_names],
               "doms": [[enc(e) for e in d] for d in t.table_index.field_domains],
               "data": [cellenc(x) for x in flatcells(t._data)],
               "shape": list(t.shape), "ndim": int(t.ndim)}

        def table_level():
            res.update({"keys": [enc(k) for k in t.keys()], "iter": [enc(k) for k in t], "len": len(t)})
            its = catching(lambda: list(t.items()))
            if isinstance(its, tuple) and its and its[0] == "__err__":
                res["items"] = [["err", its[1]]]
                res["item_keys"] = []
            else:
                res["items"] = [obs(v, t) for _, v in its]
                res["item_keys"] = [enc(k) for k, _ in its]
            vals = catching(lambda: list(t.values()))
            res["values"] = [["err", vals[1]]] if (isinstance(vals, tuple) and vals and vals[0] == "__err__") else [obs(v, t) for v in vals]
        # observation ORDER on the one table object: the parent's keys/len/items are taken before the selections
        # (then sub-tables are derived from an already used parent) or only after them (fresh parent)
        if rep.get("table_obs", "before") == "before":
            table_level()
        chains = []
        kept = []           # (selector objects, first result object, its first observation) for the stale re-query
        for ch in case["chains"]:
            sels = [dec(s) for s in ch]
            steps, cur = [], t
            first = None
            for k, s in enumerate(sels):
                r = catching(lambda: cur[s])
                o = obs(r, cur)
                steps.append(o)
                if o[0] == "err":
                    break
                if o[0] == "self":
                    continue
                if o[0] == "table":
                    if k == 0:
                        first = r
                    cur = r
                    continue
                if k < len(sels) - 1:
                    steps.append(["early"])
                break
            out = {"steps": steps}
            if sels:
                out["get"] = obs(catching(lambda: t.get(sels[0], SENT)), t)
                gn = catching(lambda: t.get(sels[0]))
                out["get_none"] = "err" if (isinstance(gn, tuple) and len(gn) == 2 and gn[0] == "__err__") else (gn is None)
                out["repeat"] = obs(catching(lambda: t[sels[0]]), t)      # same object, same selector, second call
                if hasattr(t, "action_dist"):
                    out["action_dist"] = obs(catching(lambda: t.action_dist(sels[0])), t)
            chains.append(out)
            kept.append((sels, first, steps))
        if rep.get("table_obs", "before") != "before":
            table_level()
        # a second, different table (other size, other label order) is built and indexed with the SAME selector
        # objects; then the results of the first calls are queried again
        d2 = [list(reversed(INPUTS["doms"][0])) + ["__other__"]] + [list(d) for d in INPUTS["doms"][1:]][:1]
        t2 = Table(np.arange(int(np.prod([len(d) for d in d2])))[::-1].reshape([len(d) for d in d2]).copy(),
                   TableIndex(field_names=["p", "q"][:len(d2)], field_domains=d2))
        for sels, first, steps in kept:
            catching(lambda: t2[sels[0]])
        for (sels, first, steps), out in zip(kept, chains):
            if first is not None:
                ok = obs(first, t) == steps[0]
                if len(sels) > 1 and len(steps) > 1:
                    ok = ok and obs(catching(lambda: first[sels[1]]), first) == steps[1]
                out["stale_ok"] = ok
        # did any call change an object of the caller?
        mutated = []
        if [[enc(e) for e in d] for d in INPUTS["doms"]] != case["doms"]:
            mutated.append("domains")
        din = np.asarray(INPUTS["data"])
        if din.shape != INPUTS["data_copy"].shape or not np.array_equal(din, INPUTS["data_copy"]):
            mutated.append("data")
        for (sels, first, steps), ch in zip(kept, case["chains"]):
            if [enc(x) for x in sels] != ch:
                mutated.append("selector")
                break
        res["mutated"] = mutated
        res["chains"] = chains
        # construction-time validation (Table._validate_table)
        if "ctor_dup" in case:
            dd = [[dec(e) for e in d] for d in case["ctor_dup"]]
            shp = tuple(len(d) for d in dd)
            r = catching(lambda: Table(np.zeros(shp), TableIndex(field_names=list(range(len(dd))), field_domains=dd)))
            res["ctor_dup"] = r[1] if isinstance(r, tuple) else "ok"
            good = [[dec(e) for e in d] for d in case["doms"]]
            r = catching(lambda: Table(np.zeros(tuple(len(d) + 1 for d in good)), TableIndex(field_names=list(range(len(good))), field_domains=good)))
            res["ctor_shape"] = r[1] if isinstance(r, tuple) else "ok"
        if case["cls"] == "StateActionTable":
            r = catching(lambda: StateActionTable.from_state_list([1], [1]))
            res["sat_from_state_list"] = r[1] if isinstance(r, tuple) else "ok"
        return res

    run_cases(one)


if __name__ == "__main__":
    main()
