"""C12 implementation runner: builds msdm tables from JSON cases and records what indexing returns.

case   = {"cls": "Table|ProbabilityTable|StateTable|StateActionTable|StateActionNextStateTable|TabularPolicy",
          "names": [pv...], "doms": [[pv...]...], "chains": [[pv...]...]}
pv     = ["i",n] | ["b",bool] | ["f",num,den] | ["s",str] | ["n"] | ["e"] | ["sl",full] |
         ["t",[pv]] | ["dt",[pv]] | ["l",[pv]] | ["fs",[pv]]
result = {"keys": [pv], "len": n, "items": [obs], "chains": [{"steps": [obs], "get": obs, "action_dist": obs|None}]}
obs    = ["self"] | ["scalar",z] | ["table",cls,names,doms,data,probs,extra] | ["err",ExcName] | ["default"] | ["early"]
"""
import os, sys
sys.path.insert(0, os.path.dirname(os.path.abspath(__file__)))
from build import *
from fractions import Fraction


def main():
    import numpy as np
    from msdm.core.table import Table, ProbabilityTable, TableIndex, domaintuple
    from msdm.core.table.table import TableDistribution
    from msdm.core.mdp.tables import StateTable, StateActionTable, StateActionNextStateTable
    from msdm.core.mdp.tabularpolicy import TabularPolicy

    CLS = {"Table": Table, "ProbabilityTable": ProbabilityTable, "StateTable": StateTable,
           "StateActionTable": StateActionTable, "StateActionNextStateTable": StateActionNextStateTable,
           "TabularPolicy": TabularPolicy, "TableDistribution": TableDistribution}
    SENT = object()

    def dec(v):
        t = v[0]
        if t == "i": return int(v[1])
        if t == "b": return bool(v[1])
        if t == "f": return float(Fraction(int(v[1]), int(v[2])))
        if t == "s": return v[1]
        if t == "n": return None
        if t == "e": return Ellipsis
        if t == "sl": return slice(None) if v[1] else slice(0, 1)
        if t == "t": return tuple(dec(x) for x in v[1])
        if t == "dt": return domaintuple([dec(x) for x in v[1]])
        if t == "l": return [dec(x) for x in v[1]]
        if t == "fs": return frozenset(dec(x) for x in v[1])
        raise ValueError(v)

    def enc(x):
        if isinstance(x, (bool, np.bool_)): return ["b", bool(x)]
        if isinstance(x, (int, np.integer)): return ["i", int(x)]
        if isinstance(x, (float, np.floating)):
            n, d = float(x).as_integer_ratio()
            return ["f", n, d]
        if isinstance(x, str): return ["s", x]
        if x is None: return ["n"]
        if x is Ellipsis: return ["e"]
        if isinstance(x, slice): return ["sl", x == slice(None)]
        if isinstance(x, domaintuple): return ["dt", [enc(e) for e in x]]
        if isinstance(x, tuple): return ["t", [enc(e) for e in x]]
        if isinstance(x, list): return ["l", [enc(e) for e in x]]
        if isinstance(x, frozenset): return ["fs", sorted((enc(e) for e in x), key=repr)]
        return ["?", repr(x)]

    def catching(f):
        try:
            return f()
        except BaseException as e:
            if isinstance(e, (KeyboardInterrupt, SystemExit)):
                raise
            return ("__err__", type(e).__name__)

    def scalar_obs(r):
        if r is SENT: return ["default"]
        if isinstance(r, (int, np.integer)) and not isinstance(r, bool): return ["scalar", int(r)]
        if isinstance(r, float): return ["default-float", r]
        return ["other", repr(r)[:80]]

    def obs(r, cur):
        if isinstance(r, tuple) and len(r) == 2 and r[0] == "__err__":
            return ["err", r[1]]
        if r is SENT: return ["default"]
        if r is cur: return ["self"]
        if isinstance(r, Table):
            ti = r.table_index
            probs, extra = [], {}
            if isinstance(r, TableDistribution):
                sup = catching(lambda: list(r.support))
                if isinstance(sup, tuple) and sup and sup[0] == "__err__":
                    extra["support_error"] = sup[1]
                else:
                    extra["support"] = [enc(e) for e in sup]
                    for e in sup:
                        p = catching(lambda: r.prob(e))
                        if isinstance(p, tuple) and len(p) == 2 and p[0] == "__err__":
                            probs.append(["err", p[1]])
                        elif isinstance(p, float) and p == 0.0:
                            probs.append(["default"])
                        else:
                            probs.append(scalar_obs(p))
                    pf = catching(lambda: r.prob("__foreign__"))
                    extra["prob_foreign"] = pf if isinstance(pf, float) else repr(pf)
                    it = catching(lambda: [[enc(k), scalar_obs(v)] for k, v in r.items()])
                    extra["items"] = it if isinstance(it, list) else ["err", it[1]]
                    extra["len"] = catching(lambda: len(r))
            return ["table", type(r).__name__, [enc(n) for n in ti.field_names],
                    [[enc(e) for e in d] for d in ti.field_domains],
                    [int(x) for x in np.asarray(r._data).ravel().tolist()], probs, extra,
                    {"data_shape": list(np.asarray(r._data).shape), "dom_types": [type(d).__name__ for d in ti.field_domains]}]
        if isinstance(r, (int, np.integer)) and not isinstance(r, bool):
            return ["scalar", int(r)]
        return ["other", repr(r)[:80]]

    def build(case):
        cls = CLS[case["cls"]]
        doms = [[dec(e) for e in d] for d in case["doms"]]
        names = [dec(n) for n in case["names"]]
        shape = tuple(len(d) for d in doms)
        data = np.arange(int(np.prod(shape))).reshape(shape)
        if case["cls"] == "StateTable":
            return cls.from_state_list(doms[0], data)
        if case["cls"] in ("StateActionTable", "TabularPolicy"):
            return cls.from_state_action_lists(doms[0], doms[1], data)
        if case["cls"] == "StateActionNextStateTable":
            return cls.from_state_action_lists(doms[0], doms[1], data)
        return cls(data, TableIndex(field_names=names, field_domains=doms))

    def one(case, pl):
        t = build(case)
        res = {"names": [enc(n) for n in t.table_index.field_names],
               "keys": [enc(k) for k in t.keys()], "iter": [enc(k) for k in t], "len": len(t)}
        its = catching(lambda: list(t.items()))
        if isinstance(its, tuple) and its and its[0] == "__err__":
            res["items"] = [["err", its[1]]]
            res["item_keys"] = []
        else:
            res["items"] = [obs(v, t) for _, v in its]
            res["item_keys"] = [enc(k) for k, _ in its]
        vals = catching(lambda: list(t.values()))
        res["values"] = [["err", vals[1]]] if (isinstance(vals, tuple) and vals and vals[0] == "__err__") else [obs(v, t) for v in vals]
        chains = []
        for ch in case["chains"]:
            sels = [dec(s) for s in ch]
            steps, cur = [], t
            for k, s in enumerate(sels):
                r = catching(lambda: cur[s])
                o = obs(r, cur)
                steps.append(o)
                if o[0] == "err":
                    break
                if o[0] == "self":
                    continue
                if o[0] == "table":
                    cur = r
                    continue
                if k < len(sels) - 1:
                    steps.append(["early"])
                break
            out = {"steps": steps}
            if sels:
                out["get"] = obs(catching(lambda: t.get(sels[0], SENT)), t)
                if hasattr(t, "action_dist"):
                    out["action_dist"] = obs(catching(lambda: t.action_dist(sels[0])), t)
            chains.append(out)
        res["chains"] = chains
        return res

    run_cases(one)


if __name__ == "__main__":
    main()
