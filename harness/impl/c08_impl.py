"""C08 implementation runner: PointBasedValueIteration and QMDP on generated POMDPs.

point_based_value_iteration is wrapped at module level (no change to /repo) to record, for every call
_solve makes, the belief set it was given, the thresholds, the returned alpha vectors and the number of
sweeps they went through.  The policies are then queried at the harness's test beliefs."""
import os
import sys
sys.path.insert(0, os.path.dirname(os.path.abspath(__file__)))
from build import *            # noqa: E402,F401,F403
from build_pomdp import build_pomdp   # noqa: E402


def guarded(fn):
    try:
        return fn()
    except BaseException as e:
        if isinstance(e, (KeyboardInterrupt, SystemExit)):
            raise
        return {"error": type(e).__name__ + ": " + str(e)[:300]}


def representations(pomdp, sl, probs, which):
    """every way a caller can legally hand the same belief to the policy.
    which='qmdp': QMDPPolicy.action_value unpacks `ss, probs = b` (any pair of aligned sequences);
    which='alpha': AlphaVectorPolicy._belief_to_vector accepts a Distribution (looked up by state), a
    Belief (namedtuple) or a dense list/tuple in state_list order; ndarray is probed too (observation)."""
    import numpy as np
    from msdm.core.pomdp.tabularpomdp import Belief
    from msdm.core.distributions import DictDistribution
    n = len(sl)
    supp = [i for i in range(n) if probs[i] != 0]
    perm = list(range(n))[::-1] if n > 1 else [0]
    if n > 2:
        perm = perm[1:] + perm[:1]
    reps = {"dense": Belief(tuple(sl), tuple(probs)),
            "support": Belief(tuple(sl[i] for i in supp), tuple(probs[i] for i in supp)),
            "permuted": Belief(tuple(sl[i] for i in perm), tuple(probs[i] for i in perm))}
    if which == "qmdp":
        reps["pair_of_lists"] = ([sl[i] for i in perm], [probs[i] for i in perm])
    else:
        reps["dict"] = DictDistribution({sl[i]: probs[i] for i in range(n)})
        reps["dict_support"] = DictDistribution({sl[i]: probs[i] for i in supp})
        reps["list"] = list(probs)
        reps["tuple"] = tuple(probs)
        reps["ndarray"] = np.array(probs)
    return reps


def query(policy, pomdp, sl, al, beliefs, which):
    out = []
    for bq in beliefs:
        probs = tuple(fl(x) for x in bq)
        res = None
        for name, b in representations(pomdp, sl, probs, which).items():
            def one(b=b):
                dist = policy.action_dist(b)
                return {"value": fj(policy.value(b)),
                        "action_values": [fj(policy.action_value(b, a)) for a in al],
                        "dist": [fj(dist.prob(a)) for a in al]}
            r = guarded(one)
            if name == "dense":
                res = r
                res["reps"] = {}
            else:
                res["reps"][name] = r
        out.append(res)
    return out


def one(case, pl):
    import numpy as np
    import msdm.algorithms.pointbasedvalueiteration as pbvi_mod
    from msdm.algorithms.pointbasedvalueiteration import PointBasedValueIteration
    from msdm.algorithms.qmdp import QMDP
    from msdm.algorithms.valueiteration import ValueIteration
    from msdm.algorithms.policyiteration import PolicyIteration

    pomdp = build_pomdp(case["pomdp"])
    sl, al, ol = list(pomdp.state_list), list(pomdp.action_list), list(pomdp.observation_list)
    res = {"state_list": sl, "action_list": al, "observation_list": ol,
           "absorbing_vec": [bool(x) for x in pomdp.absorbing_state_vec]}

    # ---- PBVI ----
    calls = []
    orig = pbvi_mod.point_based_value_iteration

    def recording(pomdp_, belief_set, value_convergence_epsilon, horizon=None):
        r = orig(pomdp_, belief_set, value_convergence_epsilon=value_convergence_epsilon, horizon=horizon)
        bv = np.array(r["alpha_vectors"])
        bb = np.array(belief_set)
        new_bv = r["belief_action_alpha_vectors"][np.arange(len(bb)), :, r["belief_action_indices"]]
        # the vectors the last sweep was computed from: the returned ones if the loop stopped on the
        # convergence test, else those of a run with one sweep less (deterministic, same prefix)
        it = int(r["iterations"])
        if not np.array_equal(bv, new_bv):
            prev = bv
        elif it == 0:
            prev = np.zeros_like(bv)
        else:
            prev = np.array(orig(pomdp_, belief_set, value_convergence_epsilon=value_convergence_epsilon,
                                 horizon=it)["alpha_vectors"])
        cand = np.einsum("bsa->bas", r["belief_action_alpha_vectors"])
        calls.append({"belief_set": [[fj(x) for x in b] for b in bb],
                      "prev_alpha_vectors": [[fj(x) for x in v] for v in prev],
                      "candidates": [[[fj(x) for x in v] for v in c] for c in cand],
                      "selected": [int(x) for x in r["belief_action_indices"]],
                      "alpha_vectors": [[fj(x) for x in v] for v in bv],
                      "iterations": int(r["iterations"]),
                      "returned_is_last_sweep": bool(np.array_equal(bv, new_bv)),
                      "eps": fj(value_convergence_epsilon),
                      "horizon": None if horizon is None else int(horizon)})
        return r

    cfg = case["pbvi"]

    def run_pbvi():
        pbvi_mod.point_based_value_iteration = recording
        try:
            planner = PointBasedValueIteration(
                min_belief_expansions=int(cfg["min_exp"]), max_belief_expansions=int(cfg["max_exp"]),
                value_convergence_epsilon=fl(cfg["eps"]),
                horizon=None if cfg["horizon"] is None else int(cfg["horizon"]))
            r = planner.plan_on(pomdp)
        finally:
            pbvi_mod.point_based_value_iteration = orig
        return {"alpha_vectors": [[fj(x) for x in v] for v in np.array(r.alpha_vectors)],
                "result_belief_set_size": int(len(r.belief_set)),
                "n_calls": len(calls),
                "last_call": calls[-1] if calls else None,
                "first_call_belief_set_size": len(calls[0]["belief_set"]) if calls else 0,
                "queries": query(r.policy, pomdp, sl, al, case["beliefs"], "alpha")}
    res["pbvi"] = guarded(run_pbvi)

    # ---- QMDP ----
    res["qmdp"] = {}
    for name in case.get("qmdp_solvers", ["vi", "pi"]):
        def run_q():
            solver = ValueIteration(max_residual=1e-10) if name == "vi" else PolicyIteration()
            r = QMDP(mdp_solver=solver).plan_on(pomdp)
            Q = r.mdp_res.action_value
            return {"Q": [[fj(Q[s][a]) for a in al] for s in sl],
                    "queries": query(r.policy, pomdp, sl, al, case["beliefs"], "qmdp")}
        res["qmdp"][name] = guarded(run_q)
    return res


if __name__ == "__main__":
    run_cases(one)
