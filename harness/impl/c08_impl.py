"""C08 implementation runner: PointBasedValueIteration and QMDP on generated POMDPs.

point_based_value_iteration is wrapped at module level (no change to /repo) to record, for every call
_solve makes, the belief set it was given, the thresholds, the returned alpha vectors and the number of
sweeps they went through.  The policies are then queried at the harness's test beliefs."""
import os
import sys
sys.path.insert(0, os.path.dirname(os.path.abspath(__file__)))
from build import *            # noqa: E402,F401,F403
from build_pomdp import build_pomdp   # noqa: E402


LABELS = {
    "int": lambda i: i,
    "str": lambda i: ["", "b", "a10", "a9", "Z"][i],           # "" is falsy; sorted order != id order
    "tuple": lambda i: [(), (1,), (0, 1), (0,), (2,)][i],       # () is falsy
    "float": lambda i: [0.0, -1.5, 2.0, 0.5, 0.001][i],         # 0.0 is falsy
}


def build_labelled(case, labels, reward_scale=1.0):
    """TabularPOMDP over the case's ids relabelled by `labels` (kinds for states/actions/obs);
    returns (pomdp, state label->id, action label->id, observation label->id)"""
    from msdm.core.pomdp.tabularpomdp import TabularPOMDP
    from msdm.core.distributions import DictDistribution
    ls, la, lo = LABELS[labels["states"]], LABELS[labels["actions"]], LABELS[labels["obs"]]
    trans, rew, obs = {}, {}, {}
    for k, row in case["trans"].items():
        s, a = map(int, k.split(","))
        trans[(ls(s), la(a))] = DictDistribution({ls(ns): fl(p) for ns, p in row})
    for k, r in case["reward"].items():
        s, a, ns = map(int, k.split(","))
        rew[(ls(s), la(a), ls(ns))] = fl(r) * reward_scale
    for k, row in case["obs"].items():
        a, ns = map(int, k.split(","))
        obs[(la(a), ls(ns))] = DictDistribution({lo(o): fl(p) for o, p in row})
    actions = {ls(s): tuple(la(a) for a in acts) for s, acts in enumerate(case["actions"])}
    absorbing = {ls(s): bool(x) for s, x in enumerate(case["absorbing"])}
    init = DictDistribution({ls(s): fl(p) for s, p in case["init"]})
    gamma = fl(case["gamma"])
    if case["gamma"] in ("0", "1"):
        gamma = int(case["gamma"])            # boundary passed as int, not float

    class GeneratedPOMDP(TabularPOMDP):
        discount_rate = gamma

        def next_state_dist(self, s, a):
            return trans[(s, a)]

        def reward(self, s, a, ns):
            return rew.get((s, a, ns), 0.0)

        def actions(self, s):
            return actions[s]

        def initial_state_dist(self):
            return init

        def is_absorbing(self, s):
            return absorbing[s]

        def observation_dist(self, a, ns):
            return obs[(a, ns)]

    return (GeneratedPOMDP(), {ls(i): i for i in range(case["n"])}, {la(i): i for i in range(case["nA"])},
            {lo(i): i for i in range(case["nO"])})


def guarded(fn):
    try:
        return fn()
    except BaseException as e:
        if isinstance(e, (KeyboardInterrupt, SystemExit)):
            raise
        return {"error": type(e).__name__ + ": " + str(e)[:300]}


def representations(pomdp, sl, probs, which):
    """every way a caller can legally hand the same belief to the policy.
    which='qmdp': QMDPPolicy.action_value unpacks `ss, probs = b` (any pair of aligned sequences);
    which='alpha': AlphaVectorPolicy._belief_to_vector accepts a Distribution (looked up by state), a
    Belief (namedtuple) or a dense list/tuple in state_list order; ndarray is probed too (observation)."""
    import numpy as np
    from msdm.core.pomdp.tabularpomdp import Belief
    from msdm.core.distributions import DictDistribution
    n = len(sl)
    supp = [i for i in range(n) if probs[i] != 0]
    perm = list(range(n))[::-1] if n > 1 else [0]
    if n > 2:
        perm = perm[1:] + perm[:1]
    reps = {"dense": Belief(tuple(sl), tuple(probs)),
            "support": Belief(tuple(sl[i] for i in supp), tuple(probs[i] for i in supp)),
            "permuted": Belief(tuple(sl[i] for i in perm), tuple(probs[i] for i in perm))}
    if which == "qmdp":
        reps["pair_of_lists"] = ([sl[i] for i in perm], [probs[i] for i in perm])
    else:
        reps["dict"] = DictDistribution({sl[i]: probs[i] for i in range(n)})
        reps["dict_support"] = DictDistribution({sl[i]: probs[i] for i in supp})
        reps["list"] = list(probs)
        reps["tuple"] = tuple(probs)
        reps["ndarray"] = np.array(probs)
    return reps


def query(policy, pomdp, sl, al, beliefs, which, sid, initial_index=None):
    out = []
    for bi, bq in enumerate(beliefs):
        probs = tuple(fl(bq[sid[s]]) for s in sl)
        res = None
        reps = representations(pomdp, sl, probs, which)
        if bi == initial_index:
            reps["initial_agentstate"] = policy.initial_agentstate()    # the belief object the library builds
        for name, b in reps.items():
            def one(b=b):
                dist = policy.action_dist(b)
                return {"value": fj(policy.value(b)),
                        "action_values": [fj(policy.action_value(b, a)) for a in al],
                        "dist": [fj(dist.prob(a)) for a in al]}
            r = guarded(one)
            if name == "dense":
                res = r
                res["reps"] = {}
            else:
                res["reps"][name] = r
        out.append(res)
    return out


def one(case, pl):
    import numpy as np
    import msdm.algorithms.pointbasedvalueiteration as pbvi_mod
    from msdm.algorithms.pointbasedvalueiteration import PointBasedValueIteration
    from msdm.algorithms.qmdp import QMDP
    from msdm.algorithms.valueiteration import ValueIteration
    from msdm.algorithms.policyiteration import PolicyIteration

    labels = case.get("labels") or {"states": "int", "actions": "int", "obs": "int"}
    pomdp, sid, aid, oid = build_labelled(case["pomdp"], labels)
    warm = None
    if case.get("reuse"):
        # same labels, rewards x64: planners are first used on this one, then REUSED on `pomdp`
        warm = build_labelled(case["pomdp"], labels, reward_scale=64.0)[0]
    if case.get("touch_first"):
        # cached views of the base object are touched before any planner sees it
        _ = (pomdp.transition_matrix.sum(), pomdp.observation_matrix.sum(), pomdp.absorbing_state_vec.sum(),
             pomdp.state_action_reward_matrix.sum(), pomdp.initial_state_vec.sum())
    sl, al, ol = list(pomdp.state_list), list(pomdp.action_list), list(pomdp.observation_list)
    res = {"state_list": [sid[x] for x in sl], "action_list": [aid[x] for x in al],
           "observation_list": [oid[x] for x in ol],
           "absorbing_vec": [bool(x) for x in pomdp.absorbing_state_vec]}
    ii = case.get("initial_index")

    # ---- PBVI ----
    calls = []
    orig = pbvi_mod.point_based_value_iteration

    def recording(pomdp_, belief_set, value_convergence_epsilon, horizon=None, *args, **kw):
        # extra arguments a changed _solve may pass are handed through untouched
        r = orig(pomdp_, belief_set, value_convergence_epsilon, horizon, *args, **kw)
        bv = np.array(r["alpha_vectors"])
        bb = np.array(belief_set)
        new_bv = r["belief_action_alpha_vectors"][np.arange(len(bb)), :, r["belief_action_indices"]]
        # the vectors the last sweep was computed from: the returned ones if the loop stopped on the
        # convergence test, else those of a run with one sweep less (deterministic, same prefix)
        it = int(r["iterations"])
        if not np.array_equal(bv, new_bv):
            prev = bv
        elif it == 0:
            prev = np.zeros_like(bv)
        else:
            prev = np.array(orig(pomdp_, belief_set, value_convergence_epsilon, it, *args, **kw)["alpha_vectors"])
        cand = np.einsum("bsa->bas", r["belief_action_alpha_vectors"])
        calls.append({"belief_set": [[fj(x) for x in b] for b in bb],
                      "prev_alpha_vectors": [[fj(x) for x in v] for v in prev],
                      "candidates": [[[fj(x) for x in v] for v in c] for c in cand],
                      "selected": [int(x) for x in r["belief_action_indices"]],
                      "alpha_vectors": [[fj(x) for x in v] for v in bv],
                      "iterations": int(r["iterations"]),
                      "returned_is_last_sweep": bool(np.array_equal(bv, new_bv)),
                      "eps": fj(value_convergence_epsilon),
                      "horizon": None if horizon is None else int(horizon)})
        return r

    cfg = case["pbvi"]

    def run_pbvi():
        pbvi_mod.point_based_value_iteration = recording
        try:
            eps = fl(cfg["eps"])
            if cfg["eps"] in ("0", "1"):
                eps = int(cfg["eps"])         # boundary passed as int
            planner = PointBasedValueIteration(
                min_belief_expansions=int(cfg["min_exp"]), max_belief_expansions=int(cfg["max_exp"]),
                value_convergence_epsilon=eps,
                horizon=None if cfg["horizon"] is None else int(cfg["horizon"]))
            if warm is not None:
                planner.plan_on(warm)
                del calls[:]
            r = planner.plan_on(pomdp)
        finally:
            pbvi_mod.point_based_value_iteration = orig
        return {"alpha_vectors": [[fj(x) for x in v] for v in np.array(r.alpha_vectors)],
                "result_belief_set_size": int(len(r.belief_set)),
                "n_calls": len(calls),
                "last_call": calls[-1] if calls else None,
                "first_call_belief_set_size": len(calls[0]["belief_set"]) if calls else 0,
                "queries": query(r.policy, pomdp, sl, al, case["beliefs"], "alpha", sid, ii)}
    res["pbvi"] = guarded(run_pbvi)

    # ---- QMDP ----
    res["qmdp"] = {}
    for name in case.get("qmdp_solvers", ["vi", "pi"]):
        def run_q():
            # "pi" = QMDP() with its default solver (mdp_solver=None)
            planner = QMDP(mdp_solver=ValueIteration(max_residual=1e-10)) if name == "vi" else QMDP()
            if warm is not None:
                planner.plan_on(warm)
            r = planner.plan_on(pomdp)
            Q = r.mdp_res.action_value
            return {"Q": [[fj(Q[s][a]) for a in al] for s in sl],
                    "queries": query(r.policy, pomdp, sl, al, case["beliefs"], "qmdp", sid, ii)}
        res["qmdp"][name] = guarded(run_q)
    return res


if __name__ == "__main__":
    run_cases(one)
