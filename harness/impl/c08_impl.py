"""C08 implementation runner: PointBasedValueIteration and QMDP on generated POMDPs.

point_based_value_iteration is wrapped at module level (no change to /repo) to record, for every call
_solve makes, the belief set it was given, the thresholds, the returned alpha vectors and the number of
sweeps they went through.  The policies are then queried at the harness's test beliefs."""
import os
import sys
sys.path.insert(0, os.path.dirname(os.path.abspath(__file__)))
from build import *            # noqa: E402,F401,F403


LABELS = {
    "int": lambda i: i,
    "str": lambda i: ["", "b", "a10", "a9", "Z", "a", "z1", "B"][i],           # "" is falsy; sorted order != id order
    "tuple": lambda i: [(), (1,), (0, 1), (0,), (2,), (1, 0), (0, 0), (3,)][i],   # () is falsy
    "float": lambda i: [0.0, -1.5, 2.0, 0.5, 0.001, -0.25, 7.5, 1e3][i],          # 0.0 is falsy
    # signed ints: set({0, -1, 1}) iterates as 0, 1, -1 (hash(-1) == -2): neither sorted nor id order
    "signed": lambda i: [0, -1, 1, 2, -2, 3, -3, 4][i],
}


OTHER_CASE = {   # an unrelated problem of another size with other labels (reuse / stale-result probes)
    "n": 3, "nA": 3, "nO": 2, "actions": [[0, 1, 2]] * 3, "absorbing": [False, False, True],
    "trans": {"0,0": [[0, "1"]], "1,0": [[1, "1"]], "2,0": [[2, "1"]], "0,1": [[2, "1"]], "1,1": [[2, "1"]],
              "2,1": [[2, "1"]], "0,2": [[1, "1/2"], [0, "1/2"]], "1,2": [[0, "1"]], "2,2": [[2, "1"]]},
    "reward": {"0,0,0": "-1", "1,0,1": "-1", "0,1,2": "40", "1,1,2": "-70", "0,2,1": "3"},
    "obs": {"0,0": [[0, "3/4"], [1, "1/4"]], "0,1": [[1, "3/4"], [0, "1/4"]], "0,2": [[0, "1"]],
            "1,0": [[0, "1/2"], [1, "1/2"]], "1,1": [[0, "1/2"], [1, "1/2"]], "1,2": [[0, "1"]],
            "2,0": [[0, "1/2"], [1, "1/2"]], "2,1": [[1, "1"]], "2,2": [[0, "1"]]},
    "init": [[0, "1/2"], [1, "1/2"]], "gamma": "4/5"}
OTHER_LABELS = {"states": "str", "actions": "tuple", "obs": "float"}


def num(x, int_types):
    v = fl(x)
    return int(v) if int_types and v == int(v) and abs(v) < 2**40 else v


def build_labelled(case, labels, reward_scale=1.0, shift=0, int_types=False, shared=False):
    """TabularPOMDP over the case's ids relabelled by `labels` (kinds for states/actions/obs);
    returns (pomdp, state label->id, action label->id, observation label->id, caller objects).
    shift: rows of state (s+shift) mod n are used for state s (a different problem, same labels/sizes);
    int_types: integral rewards/probabilities are passed as Python ints; shared: ONE mutable list object is
    returned by actions(s) for every state and the same distribution objects on every call."""
    from msdm.core.pomdp.tabularpomdp import TabularPOMDP
    from msdm.core.distributions import DictDistribution
    ls, la, lo = LABELS[labels["states"]], LABELS[labels["actions"]], LABELS[labels["obs"]]
    n = case["n"]
    sh = lambda s: (s + shift) % n
    trans, rew, obs = {}, {}, {}
    for s in range(n):
        for a in range(case["nA"]):
            row = case["trans"]["%d,%d" % (sh(s), a)]
            trans[(ls(s), la(a))] = DictDistribution({ls(ns): num(p, int_types) for ns, p in row})
            for ns, p in row:
                r = case["reward"].get("%d,%d,%d" % (sh(s), a, ns))
                if r is not None:
                    rew[(ls(s), la(a), ls(ns))] = num(r, int_types) * (int(reward_scale) if int_types else reward_scale)
    for a in range(case["nA"]):
        for ns in range(n):
            obs[(la(a), ls(ns))] = DictDistribution({lo(o): num(p, int_types) for o, p in case["obs"]["%d,%d" % (a, sh(ns))]})
    shared_actions = [la(a) for a in range(case["nA"])]
    actions = {ls(s): (shared_actions if shared else tuple(la(a) for a in acts)) for s, acts in enumerate(case["actions"])}
    absorbing = {ls(s): bool(x) for s, x in enumerate(case["absorbing"])}
    init = DictDistribution({ls(s): num(p, int_types) for s, p in case["init"]})
    gamma = fl(case["gamma"])
    if case["gamma"] in ("0", "1"):
        gamma = int(case["gamma"])            # boundary passed as int, not float

    class GeneratedPOMDP(TabularPOMDP):
        discount_rate = gamma

        def next_state_dist(self, s, a):
            return trans[(s, a)]

        def reward(self, s, a, ns):
            return rew.get((s, a, ns), 0 if int_types else 0.0)

        def actions(self, s):
            return actions[s]

        def initial_state_dist(self):
            return init

        def is_absorbing(self, s):
            return absorbing[s]

        def observation_dist(self, a, ns):
            return obs[(a, ns)]

    raw = {"trans": trans, "reward": rew, "obs": obs, "actions": actions, "absorbing": absorbing, "init": init}
    return (GeneratedPOMDP(), {ls(i): i for i in range(case["n"])}, {la(i): i for i in range(case["nA"])},
            {lo(i): i for i in range(case["nO"])}, raw)


def snapshot(raw):
    """value snapshot of the caller's objects (to detect in-place modification by the library)"""
    def d(x):
        return tuple(sorted((repr(k), repr(v)) for k, v in x.items()))
    return {"trans": tuple(sorted((repr(k), d(v)) for k, v in raw["trans"].items())),
            "obs": tuple(sorted((repr(k), d(v)) for k, v in raw["obs"].items())),
            "reward": d(raw["reward"]), "absorbing": d(raw["absorbing"]), "init": d(raw["init"]),
            "actions": tuple(sorted((repr(k), repr(list(v))) for k, v in raw["actions"].items()))}


def touch(p):
    return (p.transition_matrix.sum(), p.observation_matrix.sum(), p.absorbing_state_vec.sum(),
            p.state_action_reward_matrix.sum(), p.initial_state_vec.sum(), len(p.observation_list))


def guarded(fn):
    try:
        return fn()
    except BaseException as e:
        if isinstance(e, (KeyboardInterrupt, SystemExit)):
            raise
        return {"error": type(e).__name__ + ": " + str(e)[:300]}


def representations(pomdp, sl, probs, which):
    """every way a caller can legally hand the same belief to the policy.
    which='qmdp': QMDPPolicy.action_value unpacks `ss, probs = b` (any pair of aligned sequences);
    which='alpha': AlphaVectorPolicy._belief_to_vector accepts a Distribution (looked up by state), a
    Belief (namedtuple) or a dense list/tuple in state_list order; ndarray is probed too (observation)."""
    import numpy as np
    from msdm.core.pomdp.tabularpomdp import Belief
    from msdm.core.distributions import DictDistribution
    n = len(sl)
    supp = [i for i in range(n) if probs[i] != 0]
    perm = list(range(n))[::-1] if n > 1 else [0]
    if n > 2:
        perm = perm[1:] + perm[:1]
    reps = {"dense": Belief(tuple(sl), tuple(probs)),
            "support": Belief(tuple(sl[i] for i in supp), tuple(probs[i] for i in supp)),
            "permuted": Belief(tuple(sl[i] for i in perm), tuple(probs[i] for i in perm))}
    if all(x in (0.0, 1.0) for x in probs):
        reps["dense_int"] = Belief(tuple(sl), tuple(int(x) for x in probs))      # integer-typed belief
    if which == "qmdp":
        reps["pair_of_lists"] = ([sl[i] for i in perm], [probs[i] for i in perm])
    else:
        reps["dict"] = DictDistribution({sl[i]: probs[i] for i in range(n)})
        reps["dict_support"] = DictDistribution({sl[i]: probs[i] for i in supp})
        reps["list"] = list(probs)
        reps["tuple"] = tuple(probs)
        reps["ndarray"] = np.array(probs)
    return reps


def query(policy, pomdp, sl, al, beliefs, which, sid, initial_index=None):
    out = []
    for bi, bq in enumerate(beliefs):
        probs = tuple(fl(bq[sid[s]]) for s in sl)
        res = None
        reps = representations(pomdp, sl, probs, which)
        if bi == initial_index:
            reps["initial_agentstate"] = policy.initial_agentstate()    # the belief object the library builds
        before = {k: repr(v) for k, v in reps.items() if k in ("list", "dict", "dict_support", "pair_of_lists")}
        for name, b in reps.items():
            def one(b=b):
                dist = policy.action_dist(b)
                return {"value": fj(policy.value(b)),
                        "action_values": [fj(policy.action_value(b, a)) for a in al],
                        "dist": [fj(dist.prob(a)) for a in al]}
            r = guarded(one)
            if name == "dense":
                res = r
                res["reps"] = {}
            else:
                res["reps"][name] = r
        res["mutated_beliefs"] = [k for k, v in before.items() if repr(reps[k]) != v]
        out.append(res)
    return out


def one(case, pl):
    import numpy as np
    import msdm.algorithms.pointbasedvalueiteration as pbvi_mod
    from msdm.algorithms.pointbasedvalueiteration import PointBasedValueIteration
    from msdm.algorithms.qmdp import QMDP
    from msdm.algorithms.valueiteration import ValueIteration
    from msdm.algorithms.policyiteration import PolicyIteration

    labels = case.get("labels") or {"states": "int", "actions": "int", "obs": "int"}
    it_, shd = bool(case.get("int_types")), bool(case.get("shared_objects"))
    mode = case.get("reuse") or None
    if mode is True:
        mode = "warm-twisted-first"
    if case.get("twin_first"):
        # the same labels with different numbers, and unrelated problems, are constructed AND USED first
        # (class-level / module-level caches would hand their data to the real problem)
        twin = build_labelled(case["pomdp"], labels, reward_scale=64.0, shift=1)[0]
        guarded(lambda: touch(twin))
        for _ in range(int(case.get("unrelated", 0))):
            guarded(lambda: touch(build_labelled(OTHER_CASE, OTHER_LABELS)[0]))
    pomdp, sid, aid, oid, raw = build_labelled(case["pomdp"], labels, int_types=it_, shared=shd)
    snap0 = snapshot(raw)
    hist = case.get("history") or []
    if "discount-edited" in hist:
        # history on ONE object: it is first planned on with another discount rate, then its discount_rate is
        # edited to the case's value; every later plan must be for the object's CURRENT definition
        final = pomdp.discount_rate
        pomdp.discount_rate = fl(case["history_gamma"])
        guarded(lambda: QMDP().plan_on(pomdp))
        guarded(lambda: PointBasedValueIteration(min_belief_expansions=1, max_belief_expansions=1, horizon=2).plan_on(pomdp))
        pomdp.discount_rate = final
    warm = None
    if mode == "warm-twisted-first":
        # same labels and sizes, other numbers (rows shifted by one state, rewards x64)
        warm = build_labelled(case["pomdp"], labels, reward_scale=64.0, shift=1)[0]
    elif mode in ("other-first", "stale"):
        warm = build_labelled(OTHER_CASE, OTHER_LABELS)[0]     # another size, other labels
    if case.get("touch_first"):
        # cached views of the base object are touched before any planner sees it
        touch(pomdp)
    sl, al, ol = list(pomdp.state_list), list(pomdp.action_list), list(pomdp.observation_list)
    res = {"state_list": [sid[x] for x in sl], "action_list": [aid[x] for x in al],
           "observation_list": [oid[x] for x in ol],
           "absorbing_vec": [bool(x) for x in pomdp.absorbing_state_vec], "reuse_errors": []}
    ii = case.get("initial_index")

    def on_warm(planner):
        r = guarded(lambda: planner.plan_on(warm))
        if isinstance(r, dict) and "error" in r:
            res["reuse_errors"].append(r["error"])      # the auxiliary problem itself is not judged

    # ---- PBVI ----
    calls = []
    orig = pbvi_mod.point_based_value_iteration

    def recording(pomdp_, belief_set, value_convergence_epsilon, horizon=None, *args, **kw):
        # extra arguments a changed _solve may pass are handed through untouched
        r = orig(pomdp_, belief_set, value_convergence_epsilon, horizon, *args, **kw)
        bv = np.array(r["alpha_vectors"])
        bb = np.array(belief_set)
        new_bv = r["belief_action_alpha_vectors"][np.arange(len(bb)), :, r["belief_action_indices"]]
        # the vectors the last sweep was computed from: the returned ones if the loop stopped on the
        # convergence test, else those of a run with one sweep less (deterministic, same prefix)
        it = int(r["iterations"])
        if not np.array_equal(bv, new_bv):
            prev = bv
        elif it == 0:
            prev = np.zeros_like(bv)
        else:
            prev = np.array(orig(pomdp_, belief_set, value_convergence_epsilon, it, *args, **kw)["alpha_vectors"])
        cand = np.einsum("bsa->bas", r["belief_action_alpha_vectors"])
        calls.append({"belief_set": [[fj(x) for x in b] for b in bb],
                      "prev_alpha_vectors": [[fj(x) for x in v] for v in prev],
                      "candidates": [[[fj(x) for x in v] for v in c] for c in cand],
                      "selected": [int(x) for x in r["belief_action_indices"]],
                      "alpha_vectors": [[fj(x) for x in v] for v in bv],
                      "iterations": int(r["iterations"]),
                      "returned_is_last_sweep": bool(np.array_equal(bv, new_bv)),
                      "eps": fj(value_convergence_epsilon),
                      "horizon": None if horizon is None else int(horizon)})
        return r

    cfg = case["pbvi"]

    def run_pbvi():
        pbvi_mod.point_based_value_iteration = recording
        try:
            eps = fl(cfg["eps"])
            if cfg["eps"] in ("0", "1"):
                eps = int(cfg["eps"])         # boundary passed as int
            planner = PointBasedValueIteration(
                min_belief_expansions=int(cfg["min_exp"]), max_belief_expansions=int(cfg["max_exp"]),
                value_convergence_epsilon=eps,
                horizon=None if cfg["horizon"] is None else int(cfg["horizon"]))
            if warm is not None and mode != "stale":
                on_warm(planner)
                del calls[:]
            r = planner.plan_on(pomdp)
            mine = list(calls)
            if mode == "stale":
                on_warm(planner)          # the FIRST result is queried only after this second plan_on
            del calls[:]
            calls.extend(mine)
        finally:
            pbvi_mod.point_based_value_iteration = orig
        return {"alpha_vectors": [[fj(x) for x in v] for v in np.array(r.alpha_vectors)],
                "result_belief_set_size": int(len(r.belief_set)),
                "n_calls": len(calls),
                "last_call": calls[-1] if calls else None,
                "first_call_belief_set_size": len(calls[0]["belief_set"]) if calls else 0,
                "queries": query(r.policy, pomdp, sl, al, case["beliefs"], "alpha", sid, ii)}
    res["pbvi"] = guarded(run_pbvi)

    # ---- QMDP ----
    res["qmdp"] = {}
    if "crude-solver-first" in hist:
        # the same pomdp object is first solved crudely (2 sweeps of value iteration, far from converged);
        # the accurate plans that follow must not inherit anything from it
        guarded(lambda: QMDP(mdp_solver=ValueIteration(max_iterations=2)).plan_on(pomdp))
    for name in case.get("qmdp_solvers", ["vi", "pi"]):
        def run_q():
            # "pi" = QMDP() with its default solver (mdp_solver=None)
            # "vi_dict": the shipped dictionary value iteration builds its table with StateActionTable.from_dict
            # (action axis in set-iteration order); "pi_params": PolicyIteration with non-default parameters
            planner = {"vi": lambda: QMDP(mdp_solver=ValueIteration(max_residual=1e-10)),
                       "vi_dict": lambda: QMDP(mdp_solver=ValueIteration(max_residual=1e-10, _version="dict")),
                       "pi_params": lambda: QMDP(mdp_solver=PolicyIteration(max_iterations=500, undefined_value=-3.0)),
                       "pi": lambda: QMDP()}[name]()
            if warm is not None and mode != "stale":
                on_warm(planner)
            r = planner.plan_on(pomdp)
            if mode == "stale":
                on_warm(planner)
            Q = r.mdp_res.action_value
            return {"Q": [[fj(Q[s][a]) for a in al] for s in sl],
                    "queries": query(r.policy, pomdp, sl, al, case["beliefs"], "qmdp", sid, ii)}
        res["qmdp"][name] = guarded(run_q)
    snap1 = snapshot(raw)
    res["mutated_inputs"] = [k for k in snap0 if snap0[k] != snap1[k]]
    return res


if __name__ == "__main__":
    run_cases(one)
