"""C16 implementation runner: MultichainPolicyIteration on generated MDPs.

Returns what plan_on reports (gain, bias, their action versions, policy, converged, iterations,
initial_gain, initial_value) with every float as an exact rational, and -- for the violation search
only -- the optimum of the multichain linear program (Puterman 9.3) solved by scipy on the same
arrays msdm exposes (undiscounted cases)."""
import os, sys
sys.path.insert(0, os.path.dirname(os.path.abspath(__file__)))
from build import *


def lp_gain(mdp):
    """min sum_s g(s)  s.t.  g(s) >= sum_j P(s,a,j) g(j),  g(s)+h(s) >= r(s,a) + sum_j P(s,a,j) h(j)
    for every available (s,a); absorbing states are terminal (zero row, zero reward)."""
    import numpy as np
    from scipy.optimize import linprog
    tf = np.array(mdp.transition_matrix, dtype=float)
    rf = np.einsum("san,san->sa", tf, np.array(mdp.reward_matrix, dtype=float))
    am = np.array(mdp.action_matrix).astype(bool)
    ab = np.array(mdp.absorbing_state_vec).astype(bool)
    n, nA = am.shape
    tf[ab] = 0
    rf[ab] = 0
    A, b = [], []
    for s in range(n):
        for a in range(nA):
            if not am[s, a]:
                continue
            row = np.zeros(2 * n); row[:n] = tf[s, a]; row[s] -= 1
            A.append(row); b.append(0.0)
            row = np.zeros(2 * n); row[n:] = tf[s, a]; row[n + s] -= 1; row[s] -= 1
            A.append(row); b.append(-rf[s, a])
    c = np.concatenate([np.ones(n), np.zeros(n)])
    r = linprog(c, A_ub=np.array(A), b_ub=np.array(b), bounds=[(None, None)] * (2 * n), method="highs")
    if r.status != 0:
        return {"status": int(r.status)}
    return {"status": 0, "g": [fj(x) for x in r.x[:n]]}


def build_c16(mdpcase, case):
    """QuickTabularMDP from a gen_mdp case.  Options (case["opts"]):
       shared   -- the caller's objects are SHARED and MUTABLE: actions(s) returns one list object for all states with
                   the same action set, next_state_dist returns one DictDistribution object for all identical rows
                   (and the same object on every call); a snapshot of them is compared after planning
       int_typed -- integral numbers are passed as Python ints (rewards, probability 1, discount rate 1)"""
    from msdm.core.mdp.quickmdp import QuickTabularMDP
    from msdm.core.distributions import DictDistribution
    opts = case.get("opts", {})
    it = opts.get("int_typed", False)

    def num(x):
        f = fl(x)
        return int(f) if (it and f == int(f)) else f
    dists, trans = {}, {}
    for k, row in mdpcase["trans"].items():
        s, a = map(int, k.split(","))
        key = tuple((ns, p) for ns, p in row) if opts.get("shared") else (s, a)
        if key not in dists:
            dists[key] = DictDistribution({ns: num(p) for ns, p in row})
        trans[(s, a)] = dists[key]
    rew = {}
    for k, r in mdpcase["reward"].items():
        s, a, ns = map(int, k.split(","))
        rew[(s, a, ns)] = num(r)
    if opts.get("shared"):
        pool = {}
        actions = [pool.setdefault(tuple(a), list(a)) for a in mdpcase["actions"]]
    else:
        actions = [tuple(a) for a in mdpcase["actions"]]
    absorbing = list(mdpcase["absorbing"])
    init = DictDistribution({s: num(p) for s, p in mdpcase["init"]})
    zero = 0 if it else 0.0
    mdp = QuickTabularMDP(
        next_state_dist=lambda s, a: trans[(s, a)],
        reward=lambda s, a, ns: rew.get((s, a, ns), zero),
        actions=lambda s: actions[s],
        initial_state_dist=init,
        is_absorbing=lambda s: absorbing[s],
        discount_rate=num(mdpcase["gamma"]),
    )
    if case.get("explicit_lists", False):
        mdp._state_list = tuple(range(mdpcase["n"]))
        mdp._action_list = tuple(range(mdpcase["nA"]))

    def snapshot():
        return ([list(a) for a in actions], {k: sorted(dict(d).items()) for k, d in trans.items()},
                sorted(dict(init).items()), dict(rew), list(absorbing))
    return mdp, snapshot


def extract(r, sl, al):
    return {
        "g": [fj(r.state_gain[s]) for s in sl],
        "Qg": [[fj(r.action_gain[s][a]) for a in al] for s in sl],
        "h": [fj(r.state_value[s]) for s in sl],
        "Qh": [[fj(r.action_value[s][a]) for a in al] for s in sl],
        "pi": [[fj(r.policy[s][a]) for a in al] for s in sl],
        "initial_gain": fj(r.initial_gain), "initial_value": fj(r.initial_value),
        "converged": bool(r.converged), "iterations": int(r.iterations)}


def plan_step(planner, mdpcase, case, pl, keep=None):
    import numpy as np
    mdp, snapshot = build_c16(mdpcase, case)
    sl, al = list(mdp.state_list), list(mdp.action_list)
    res = {"state_list": sl, "action_list": al,
           "absorbing_vec": [bool(x) for x in mdp.absorbing_state_vec]}
    before = snapshot()
    mats = [np.array(mdp.transition_matrix).tobytes(), np.array(mdp.reward_matrix).tobytes(), np.array(mdp.action_matrix).tobytes()]
    try:
        r = planner.plan_on(mdp)
        res["out"] = extract(r, sl, al)
        if keep is not None:
            keep.append((r, sl, al))
    except BaseException as e:
        if isinstance(e, (KeyboardInterrupt, SystemExit)):
            raise
        res["out"] = {"error": type(e).__name__ + ": " + str(e)[:300]}
    # the caller's problem must be left as it was
    res["problem_mutated"] = bool(before != snapshot() or mats != [np.array(mdp.transition_matrix).tobytes(),
                                  np.array(mdp.reward_matrix).tobytes(), np.array(mdp.action_matrix).tobytes()])
    if mdpcase["gamma"] == "1" and pl.get("lp", True):
        try:
            res["lp"] = lp_gain(mdp)
        except BaseException as e:
            if isinstance(e, (KeyboardInterrupt, SystemExit)):
                raise
            res["lp"] = {"status": -1, "error": type(e).__name__ + ": " + str(e)[:200]}
    return res


def one(case, pl):
    """ONE planner object plans on case["mdp"] and then, in order, on every MDP of case["more"]
    (planner reuse across problems is ordinary usage: parameter sweeps).  Afterwards the FIRST result object is
    read again (stale-result check) and, with opts.fresh_repeat, the first problem is planned once more with a
    fresh planner object in the same process (module/class-level state)."""
    from msdm.algorithms.multichainpolicyiteration import MultichainPolicyIteration
    planner = MultichainPolicyIteration(max_iterations=int(case["max_iterations"]))
    keep = []
    res = plan_step(planner, case["mdp"], case, pl, keep)
    if case.get("more"):
        res["more"] = []
        for m in case["more"]:
            try:
                res["more"].append(plan_step(planner, m, case, pl))
            except BaseException as e:
                if isinstance(e, (KeyboardInterrupt, SystemExit)):
                    raise
                res["more"].append({"error": type(e).__name__ + ": " + str(e)[:300]})
    if keep and "error" not in res["out"]:
        r, sl, al = keep[0]
        try:
            res["first_result_requeried_equal"] = bool(extract(r, sl, al) == res["out"])
        except BaseException as e:
            if isinstance(e, (KeyboardInterrupt, SystemExit)):
                raise
            res["first_result_requeried_equal"] = False
            res["requery_error"] = type(e).__name__ + ": " + str(e)[:200]
        if case.get("opts", {}).get("fresh_repeat"):
            again = plan_step(MultichainPolicyIteration(max_iterations=int(case["max_iterations"])), case["mdp"], case, dict(pl, lp=False))
            res["fresh_repeat_equal"] = bool(again.get("out") == res["out"] and again["state_list"] == res["state_list"])
    return res


if __name__ == "__main__":
    run_cases(one)
