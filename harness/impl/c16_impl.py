"""C16 implementation runner: MultichainPolicyIteration on generated MDPs.

Returns what plan_on reports (gain, bias, their action versions, policy, converged, iterations,
initial_gain, initial_value) with every float as an exact rational, and -- for the violation search
only -- the optimum of the multichain linear program (Puterman 9.3) solved by scipy on the same
arrays msdm exposes (undiscounted cases)."""
import os, sys
sys.path.insert(0, os.path.dirname(os.path.abspath(__file__)))
from build import *


def lp_gain(mdp):
    """min sum_s g(s)  s.t.  g(s) >= sum_j P(s,a,j) g(j),  g(s)+h(s) >= r(s,a) + sum_j P(s,a,j) h(j)
    for every available (s,a); absorbing states are terminal (zero row, zero reward)."""
    import numpy as np
    from scipy.optimize import linprog
    tf = np.array(mdp.transition_matrix, dtype=float)
    rf = np.einsum("san,san->sa", tf, np.array(mdp.reward_matrix, dtype=float))
    am = np.array(mdp.action_matrix).astype(bool)
    ab = np.array(mdp.absorbing_state_vec).astype(bool)
    n, nA = am.shape
    tf[ab] = 0
    rf[ab] = 0
    A, b = [], []
    for s in range(n):
        for a in range(nA):
            if not am[s, a]:
                continue
            row = np.zeros(2 * n); row[:n] = tf[s, a]; row[s] -= 1
            A.append(row); b.append(0.0)
            row = np.zeros(2 * n); row[n:] = tf[s, a]; row[n + s] -= 1; row[s] -= 1
            A.append(row); b.append(-rf[s, a])
    c = np.concatenate([np.ones(n), np.zeros(n)])
    r = linprog(c, A_ub=np.array(A), b_ub=np.array(b), bounds=[(None, None)] * (2 * n), method="highs")
    if r.status != 0:
        return {"status": int(r.status)}
    return {"status": 0, "g": [fj(x) for x in r.x[:n]]}


def plan_step(planner, mdpcase, case, pl):
    mdp = build_mdp(mdpcase, explicit_lists=case.get("explicit_lists", False))
    sl, al = list(mdp.state_list), list(mdp.action_list)
    res = {"state_list": sl, "action_list": al,
           "absorbing_vec": [bool(x) for x in mdp.absorbing_state_vec]}
    try:
        r = planner.plan_on(mdp)
        res["out"] = {
            "g": [fj(r.state_gain[s]) for s in sl],
            "Qg": [[fj(r.action_gain[s][a]) for a in al] for s in sl],
            "h": [fj(r.state_value[s]) for s in sl],
            "Qh": [[fj(r.action_value[s][a]) for a in al] for s in sl],
            "pi": [[fj(r.policy[s][a]) for a in al] for s in sl],
            "initial_gain": fj(r.initial_gain), "initial_value": fj(r.initial_value),
            "converged": bool(r.converged), "iterations": int(r.iterations)}
    except BaseException as e:
        if isinstance(e, (KeyboardInterrupt, SystemExit)):
            raise
        res["out"] = {"error": type(e).__name__ + ": " + str(e)[:300]}
    if mdpcase["gamma"] == "1" and pl.get("lp", True):
        try:
            res["lp"] = lp_gain(mdp)
        except BaseException as e:
            if isinstance(e, (KeyboardInterrupt, SystemExit)):
                raise
            res["lp"] = {"status": -1, "error": type(e).__name__ + ": " + str(e)[:200]}
    return res


def one(case, pl):
    """ONE planner object plans on case["mdp"] and then, in order, on every MDP of case["more"]
    (planner reuse across problems is ordinary usage: parameter sweeps)"""
    from msdm.algorithms.multichainpolicyiteration import MultichainPolicyIteration
    planner = MultichainPolicyIteration(max_iterations=int(case["max_iterations"]))
    res = plan_step(planner, case["mdp"], case, pl)
    if case.get("more"):
        res["more"] = []
        for m in case["more"]:
            try:
                res["more"].append(plan_step(planner, m, case, pl))
            except BaseException as e:
                if isinstance(e, (KeyboardInterrupt, SystemExit)):
                    raise
                res["more"].append({"error": type(e).__name__ + ": " + str(e)[:300]})
    return res


if __name__ == "__main__":
    run_cases(one)
