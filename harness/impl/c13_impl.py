"""C13 implementation runner: one randomised msdm component, one problem, one seed, run several
times inside THIS process (whose PYTHONHASHSEED the harness chose):

  run A   after the global generators (random, numpy.random, torch) were put in state 1
  run R   a second call of plan_on / train_on / run_on / the query on the SAME object run A built
  runs X  the SAME object pointed at a second problem with the same labels and different numbers (XR), then called
          on the first problem again (XA), and a fresh object on the second problem (XF): XR = XF and XA = A
  runs P  two FRESH components one after the other on ONE shared problem object (P1 = P2 = A) with an order-sensitive
          fingerprint of the problem before / between / after (the component must not edit the problem it was given)
  run H   a fresh object after 1-3 unrelated objects of the same classes were constructed (never called) in the process
  run B   a fresh object immediately afterwards, nothing re-seeded  ("twice in one process")
  run T   a fresh object on a problem object that was already USED (cached views touched) before being handed over
  runs C  after the global generators were put in different states 2, 3, ... ("scrambled"; case["scrambles"] of them)
  run D   after the global generators were put back in state 1       (separates dependence on the
                                                                      global state from plain non-determinism)

Each run constructs the problem, the options/policies and the algorithm object afresh (so the
constructor is part of the run), and is bracketed by snapshots of the three global generator
states.  What comes back per run is a canonical, order-insensitive (dict/set == semantics) rendering of the
result with every float written bit-for-bit (float.hex), its sha1 digest, and a second digest
that keeps dict insertion order (informational).  Nothing is compared here: the harness compares
digests inside the process and across processes.
"""
import collections.abc
import hashlib
import json
import os
import sys

sys.path.insert(0, os.path.dirname(os.path.abspath(__file__)))
from build import *   # noqa: F401,F403  (run_cases, fl, ...)
import random as _random   # the generator used for problem construction is always a private Random


# ----------------------------------------------------------------------------
# canonical rendering
# ----------------------------------------------------------------------------
def canon(x, ordered=False):
    import numpy as np
    if x is None or isinstance(x, (bool, str)):
        return x
    if isinstance(x, int):
        return x
    if isinstance(x, float):
        return {"f": x.hex()}
    if isinstance(x, np.bool_):
        return bool(x)
    if isinstance(x, np.integer):
        return int(x)
    if isinstance(x, np.floating):
        return {"f": float(x).hex()}
    if isinstance(x, np.ndarray):
        return {"nd": list(x.shape), "v": [canon(v, ordered) for v in x.reshape(-1).tolist()]}
    if type(x).__module__.startswith("torch"):
        import torch
        if isinstance(x, torch.Tensor):
            return canon(x.detach().cpu().numpy(), ordered)
    from msdm.core.semimdp.option import Option
    if isinstance(x, Option):
        return {"opt": canon(x.name, ordered)}
    from msdm.core.mdp.policy import SimulationResult
    if isinstance(x, SimulationResult):
        return {"sim": [canon(dict(s), ordered) for s in x.steps]}
    if isinstance(x, tuple) and hasattr(x, "_fields"):
        return {"nt": type(x).__name__, "v": [canon(v, ordered) for v in x]}
    if isinstance(x, (list, tuple)):
        return [canon(v, ordered) for v in x]
    if isinstance(x, (set, frozenset)):
        return {"set": sorted((canon(v, ordered) for v in x), key=_key)}
    if isinstance(x, collections.abc.Mapping):
        items = [[canon(k, ordered), canon(v, ordered)] for k, v in x.items()]
        if not ordered:
            items.sort(key=lambda kv: _key(kv[0]))
        return {"map": items}
    from msdm.core.distributions import FiniteDistribution
    if isinstance(x, FiniteDistribution):
        items = [[canon(k, ordered), canon(v, ordered)] for k, v in x.items()]
        if not ordered:
            items.sort(key=lambda kv: _key(kv[0]))
        return {"dist": items}
    if isinstance(x, (collections.abc.KeysView, collections.abc.ValuesView)):
        return [canon(v, ordered) for v in x]
    raise TypeError("C13 canon: no canonical form for %r" % type(x))


def _key(c):
    return json.dumps(c, sort_keys=True)


def digest(c):
    return hashlib.sha1(json.dumps(c, sort_keys=True).encode()).hexdigest()


# ----------------------------------------------------------------------------
# global generators
# ----------------------------------------------------------------------------
def snapshot():
    import numpy as np
    import torch
    h = lambda b: hashlib.sha1(b).hexdigest()[:16]
    st = np.random.get_state()
    return {"random": h(repr(_random.getstate()).encode()),
            "numpy": h(repr((st[0], st[1].tolist(), st[2], st[3], st[4])).encode()),
            "torch": h(bytes(torch.get_rng_state().numpy().tobytes()))}


def set_globals(k):
    """put the three process-global generators in state number k (k=1,2,...) and advance them a bit"""
    import numpy as np
    import torch
    _random.seed(7919 * k + 13)
    np.random.seed((104729 * k + 5) % (2 ** 32))
    torch.manual_seed(1299709 * k + 7)
    for _ in range(k):
        _random.random()
        np.random.rand()
        torch.rand(1)


# ----------------------------------------------------------------------------
# problems (constructed from the JSON spec with a PRIVATE generator; identical in every process)
# ----------------------------------------------------------------------------
PRETOUCH = [False]      # run T: every base problem object is USED (cached views touched) before it is handed over


def labeller(spec):
    """label schemes: str | int (0 is the initial state / first action) | tuple | falsy_str ("" is the initial state and
    the first action) | falsy_tuple (() ...) | float (0.0 ...) | negint (negative, 0 in the middle) | unsorted (strings
    whose construction order is not their sorted order)"""
    lab = spec.get("labels", "str")
    if lab == "str":
        return (lambda i: "s%d" % i), (lambda j: "a%d" % j)
    if lab == "tuple":
        return (lambda i: (i // 3, i % 3)), (lambda j: (j, -j))
    if lab == "falsy_str":
        return (lambda i: "" if i == 0 else "t%d" % i), (lambda j: "" if j == 0 else "b%d" % j)
    if lab == "falsy_tuple":
        return (lambda i: () if i == 0 else (i,)), (lambda j: () if j == 0 else (j,))
    if lab == "float":
        return (lambda i: 0.5 * i), (lambda j: float(j))
    if lab == "negint":
        return (lambda i: i - 3), (lambda j: j - 1)
    if lab == "unsorted":
        return (lambda i: "q%02d" % ((37 * i + 11) % 100)), (lambda j: "z%02d" % ((61 * j + 7) % 100))
    return (lambda i: i), (lambda j: j)


def rand_tables(spec):
    r = _random.Random(spec["pseed"])
    n, k = spec["n"], spec["k"]
    det = spec.get("deterministic", False)
    trans = {}
    for i in range(n - 1):
        for j in range(k):
            m = 1 if det else r.choice([1, 2, 2, 3])
            succ = r.sample(range(n), min(m, n))
            if (j == 0 or spec.get("reward") == "goal") and (i + 1) not in succ:
                succ[0] = i + 1                      # action 0 keeps a chain to the goal n-1; for the episodic learners (td, rmax:
                #                                      reward "goal") EVERY action does, so that every policy ends its episode with
                #                                      probability 1 (R-MAX's greedy policy has no step cap and no exploration)
            cuts = sorted(r.sample(range(1, 8), len(succ) - 1))
            parts = [b - a for a, b in zip([0] + cuts, cuts + [8])]
            probs = [p / 8 for p in parts]
            if spec.get("probs") == "nondyadic":
                # thirds, tenths, sevenths: float rows that are not dyadic and need not sum to exactly 1.0
                table = {1: [[1.0]], 2: [[1 / 3, 2 / 3], [0.1, 0.9], [0.7, 0.3]],
                         3: [[0.7, 0.2, 0.1], [1 / 3, 1 / 3, 1 / 3], [1 / 7, 2 / 7, 4 / 7], [0.1, 0.3, 0.6]]}[len(succ)]
                probs = table[(3 * i + j) % len(table)]
            if spec.get("tiny") and len(succ) >= 2 and (j == 0 or spec.get("reward") != "goal"):
                # tiny probabilities that matter (below isclose's atol): 2^-30 / 2^-45 / 2^-58; the chain successor of
                # action 0 keeps only that tiny mass on odd rows, so it is the only planned route forward there
                tp = [2.0 ** -30, 2.0 ** -45, 2.0 ** -58][(i + j) % 3]
                probs = [tp] + [0.0] * (len(succ) - 2) + [1.0 - tp] if i % 2 else \
                        [1.0 - 2.0 ** -20] + [0.0] * (len(succ) - 2) + [2.0 ** -20]
                succ, probs = zip(*[(t, p) for t, p in zip(succ, probs) if p > 0])
            if spec.get("no_goal"):
                succ = [0 if t == n - 1 else t for t in succ]        # the absorbing state is never entered: episodes run to the cap
                merged = {}
                for t, p in zip(succ, probs):
                    merged[t] = merged.get(t, 0.0) + p
                succ, probs = list(merged), list(merged.values())
            trans[(i, j)] = list(zip(succ, probs))
    return trans


def rand_mdp(spec):
    from msdm.core.mdp.quickmdp import QuickTabularMDP, QuickMDP
    from msdm.core.distributions import DictDistribution, UniformDistribution, DeterministicDistribution
    n, k = spec["n"], spec["k"]
    sl, al = labeller(spec)
    trans = rand_tables(spec)
    idx = {sl(i): i for i in range(n)}
    aidx = {al(j): j for j in range(k)}
    goal = n - 1
    style = spec.get("reward", "cost")
    scale = fl(spec.get("reward_scale", "1"))

    import numpy as np
    f32 = bool(spec.get("float32"))

    def reward(s, a, ns):
        i, j, t = idx[s], aidx[a], idx[ns]
        if style == "goal":
            return 1.0 if t == goal else -0.04
        if style == "neartie":                                   # ~1e6 with relative gaps of 1e-6 between alternatives
            return -(1.0e6 + (7 * i + 3 * j + t) % 4)
        if style == "int":
            return -(1 + (7 * i + 3 * j + t) % 4)                # Python ints where floats are usual
        r = -float(1 + (7 * i + 3 * j + t) % 4) * scale
        return np.float32(r) if f32 else r

    actions = tuple(al(j) for j in range(k))
    if spec.get("actions_as") == "list":
        actions = list(actions)                  # ONE persistent list object, handed out for every state (QuickMDP's documented form)
    common = dict(reward=reward, actions=actions if spec.get("actions_as") == "list" else (lambda s: actions), is_absorbing=lambda s: idx[s] == goal,
                  discount_rate=fl(spec.get("gamma", "19/20")))
    if spec.get("deterministic", False):
        return QuickMDP(next_state=lambda s, a: sl(trans[(idx[s], aidx[a])][0][0]) if idx[s] != goal else s,
                        initial_state=sl(0), **common)
    ninit = spec.get("ninit", 1)
    form = spec.get("init_dist", "dict")
    if form == "uniform":
        init = UniformDistribution([sl(i) for i in range(ninit)])
    elif form == "det":
        init = DeterministicDistribution(sl(0))
    elif form == "tiny":
        init = DictDistribution({sl(0): 1.0 - 2.0 ** -33, sl(min(1, n - 1)): 2.0 ** -33} if n > 1 else {sl(0): 1.0})
    elif form == "int":
        init = DictDistribution({sl(0): 1})                      # integer probability
    else:
        init = DictDistribution({sl(i): 1 / ninit for i in range(ninit)})

    cache = {}

    def nsd(s, a):
        if spec.get("persistent") and (s, a) in cache:
            return cache[(s, a)]                 # the SAME distribution object on every call
        if idx[s] == goal:
            d = DictDistribution({s: 1.0})
        else:
            d = DictDistribution({sl(t): (np.float32(p) if f32 else p) for t, p in trans[(idx[s], aidx[a])]})
        cache[(s, a)] = d
        return d
    return QuickTabularMDP(next_state_dist=nsd, initial_state_dist=init, **common)


def touch(p):
    """use the object the way earlier client code might have: every cached view is computed once"""
    for attr in ("state_list", "action_list", "observation_list", "transition_matrix", "reward_matrix",
                 "observation_matrix", "state_action_reward_matrix", "initial_state_vec", "absorbing_state_vec",
                 "reachable_state_vec", "action_matrix", "nonterminal_state_vec"):
        try:
            getattr(p, attr)
        except BaseException as e:
            if isinstance(e, (KeyboardInterrupt, SystemExit)):
                raise
    for meth in ("reachable_states", "initial_state_dist"):
        try:
            getattr(p, meth)()
        except BaseException as e:
            if isinstance(e, (KeyboardInterrupt, SystemExit)):
                raise
    return p


SHARED = [None]        # runs P: every build_problem() call hands out THIS problem object (the same one for several components)


def build_problem(spec):
    if SHARED[0] is not None:
        return SHARED[0]
    p = build_problem_(spec)
    if PRETOUCH[0]:
        touch(p)
    return p


def fingerprint(p, limit=150):
    """ORDER-SENSITIVE description of what the problem object hands out: for every state reached from the initial
    states (in discovery order) the actions in the order given, every successor distribution in the order given,
    rewards, absorbing flags, observation distributions.  A component that permutes or edits the problem's own
    containers changes it."""
    out = {"init": list(p.initial_state_dist().items())}
    seen, queue, rows = set(), [], []
    for s, _ in out["init"]:
        if s not in seen:
            seen.add(s)
            queue.append(s)
    while queue and len(rows) < limit:
        s = queue.pop(0)
        acts = list(p.actions(s))
        row = [s, bool(p.is_absorbing(s)), acts, []]
        for a in acts:
            succ = list(p.next_state_dist(s, a).items())
            ent = [succ, [p.reward(s, a, ns) for ns, _ in succ]]
            if hasattr(p, "observation_dist"):
                ent.append([list(p.observation_dist(a, ns).items()) for ns, _ in succ])
            row[3].append(ent)
            for ns, _ in succ:
                if ns not in seen:
                    seen.add(ns)
                    queue.append(ns)
        rows.append(row)
    out["rows"] = rows
    for attr in ("_state_list", "_action_list"):           # explicit lists the user may have set
        if isinstance(getattr(p, attr, None), (list, tuple)):
            out[attr] = list(getattr(p, attr))
    return digest(canon(out, ordered=True))


def build_problem_(spec):
    kind = spec["kind"]
    if kind == "rand":
        return rand_mdp(spec)
    if kind == "opengrid":
        from msdm.core.mdp.quickmdp import QuickMDP
        N = spec.get("size", 5)
        moves = {"north": (-1, 0), "south": (1, 0), "east": (0, 1), "west": (0, -1)}
        strs = spec.get("labels", "str") == "str"
        lab = (lambda r, c: "r%dc%d" % (r, c)) if strs else (lambda r, c: (r, c))
        pos = {lab(r, c): (r, c) for r in range(N) for c in range(N)}
        names = list(moves) if strs else [0, 1, 2, 3]
        mv = dict(zip(names, moves.values()))

        def next_state(s, a):
            r, c = pos[s]
            nr, nc = r + mv[a][0], c + mv[a][1]
            return lab(nr, nc) if (0 <= nr < N and 0 <= nc < N) else s
        acts = list(names) if spec.get("actions_as", "list") == "list" else tuple(names)
        return QuickMDP(next_state=next_state, reward=-1, actions=acts, initial_state=lab(N - 1, 0),
                        is_absorbing=lambda s: s == lab(0, N - 1), discount_rate=1.0)
    if kind == "rngrid":
        from msdm.tests.domains import make_russell_norvig_grid
        return make_russell_norvig_grid(discount_rate=.95, slip_prob=fl(spec.get("slip_prob", "4/5")))
    if kind == "gridworld":
        from msdm.domains import GridWorld
        return GridWorld(tile_array=spec["tiles"], discount_rate=fl(spec.get("gamma", "19/20")),
                         step_cost=-1, success_prob=fl(spec.get("success_prob", "1")))
    if kind == "romania":
        from msdm.tests.domains import RomaniaSubsetAIMA
        return RomaniaSubsetAIMA()
    if kind == "gnt":
        from msdm.tests.domains import GNTFig6_6
        m = GNTFig6_6()
        m.discount_rate = 1.0
        return m
    if kind == "tiger":
        from msdm.domains.tiger import Tiger
        return Tiger(coherence=fl(spec.get("coherence", "17/20")), discount_rate=fl(spec.get("gamma", "19/20")))
    if kind == "loadunload":
        from msdm.domains.loadunload import LoadUnload
        return LoadUnload(nstates=spec.get("nstates", 4), discount_rate=fl(spec.get("gamma", "19/20")))
    if kind == "heavenorhell":
        from msdm.domains.heavenorhell import HeavenOrHell
        return HeavenOrHell(coherence=fl(spec.get("coherence", "9/10")), grid=spec.get("grid", "hcg\n#s#"),
                            discount_rate=fl(spec.get("gamma", "19/20")))
    raise ValueError("unknown problem kind %r" % kind)


def second_problem(spec, par):
    """same labels, different numbers (None when the kind has no such sibling)"""
    kind = spec["kind"]
    if kind == "rand":
        s2 = dict(spec, pseed=spec["pseed"] + 1000, n=spec["n"] + int(par.get("second_problem_n_delta", 0)))
        if par.get("second_problem_labels"):
            s2["labels"] = par["second_problem_labels"]           # other labels / other label order
        return s2
    if kind == "gridworld":
        return dict(spec, success_prob="3/5" if spec.get("success_prob", "1") != "3/5" else "4/5") if spec.get("success_prob", "1") != "1" else None
    if kind == "rngrid":
        return dict(spec, slip_prob="3/5")
    if kind in ("tiger", "heavenorhell"):
        return dict(spec, coherence="7/10")
    if kind == "loadunload":
        return dict(spec, gamma="9/10")
    return None


def policy_table(policy, states):
    return {s: policy.action_dist(s) for s in states}


class PrintingListener:
    """event listener for the TD learners / R-MAX that PRINTS progress (a user's print hook) and records rewards"""
    def __init__(self):
        self.episode_rewards, self.cur, self.n = [], 0, 0

    def end_of_timestep(self, local_vars):
        self.cur += local_vars["r"]
        self.n += 1

    def end_of_episode(self, local_vars):
        print("episode", len(self.episode_rewards), "steps", self.n, "reward", self.cur)
        self.episode_rewards.append(self.cur)
        self.cur = 0

    def results(self):
        from types import SimpleNamespace
        return SimpleNamespace(episode_rewards=self.episode_rewards)


class Listener:
    """event listener used by the listener variants: counts calls (LAO*, LRTDP)"""
    def __init__(self):
        self.n = 0

    def main_lao_star_loop(self, localvars):
        self.n += 1

    def end_of_lrtdp_trial(self, localvars):
        self.n += 1

    def end_of_lrtdp_timestep(self, localvars):
        self.n += 1


# ----------------------------------------------------------------------------
# components.  Each builder CONSTRUCTS the objects from (problem, seed, params) and returns  call(other=None):
# the per-call entry point (plan_on / train_on / run_on / query) on the problem the object was built with, or — for
# objects that take the problem per call — on another problem object `other` (run X).  Builders that cannot be
# pointed at another problem set  call.rebindable = False.
# ----------------------------------------------------------------------------
def c_laostar(spec, seed, par):
    from msdm.algorithms.laostar import LAOStar, LAOStarEventListener
    mdp = build_problem(spec)
    heur = 0.0 if par.get("heuristic_constant") else (lambda s: 0.0)       # non-callable heuristics are wrapped by LAOStar
    kw = {}
    if par.get("listener"):
        kw["event_listener_class"] = type("L", (Listener, LAOStarEventListener), {})
    planner = LAOStar(heuristic=heur, seed=seed,
                      randomize_action_order=par.get("randomize_action_order", True),
                      randomize_nextstate_order=par.get("randomize_nextstate_order", True),
                      max_lao_star_iterations=par.get("max_iterations", 2000),
                      dynamic_programming_iterations=par.get("dp_iterations", 100), **kw)

    keep = []

    def late():
        res, m = keep[0]
        return {"policy_all_states": policy_table(res.policy, list(m.state_list)), "state_value_map": res.state_value_map,
                "initial_value": res.initial_value}

    def call(other=None):
        res = planner.plan_on(mdp if other is None else other)
        keep.append((res, mdp if other is None else other))
        svm = res.state_value_map
        return {"initial_value": res.initial_value, "state_value_map": svm, "iterations": res.iterations,
                "converged": res.converged, "policy": policy_table(res.policy, list(svm.keys())),
                "visit_order": res.explicit_graph.states_by_visitorder(),
                "expanded_order": res.explicit_graph.states_by_expandedorder(),
                "listener_calls": res.event_listener.n if res.event_listener is not None else None}
    call.late = late
    return call


def c_lrtdp(spec, seed, par):
    from msdm.algorithms.lrtdp import LRTDP, LRTDPEventListener
    mdp = build_problem(spec)
    kw = {}
    if par.get("listener"):
        kw["event_listener_class"] = type("L", (Listener, LRTDPEventListener), {})
    planner = LRTDP(heuristic=lambda s: 0.0, seed=seed, iterations=par.get("iterations", 200),
                    randomize_action_order=par.get("randomize_action_order", True),
                    max_trial_length=par.get("max_trial_length"),
                    bellman_error_margin=fl(par.get("bellman_error_margin", "1/100")), **kw)

    keep = []

    def late():
        res, m = keep[0]
        return {"policy_all_states": policy_table(res.policy, list(m.state_list)), "V": dict(res.V),
                "Q": {s: dict(q) for s, q in res.Q.items()}, "initial_value": res.initial_value}

    def call(other=None):
        res = planner.plan_on(mdp if other is None else other)
        keep.append((res, mdp if other is None else other))
        V = dict(res.V)
        return {"V": V, "initial_value": res.initial_value, "Q": {s: dict(q) for s, q in res.Q.items()},
                "policy": policy_table(res.policy, list(V.keys())), "action_orders": {s: list(o) for s, o in res.action_orders.items()},
                "solved": dict(res.solved), "seed": res.seed, "converged": getattr(res, "converged", None),
                "listener_calls": res.event_listener.n if res.event_listener is not None else None}
    call.late = late
    return call


def c_astar(spec, seed, par):
    from msdm.algorithms.search import AStarSearch
    mdp = build_problem(spec)
    hv = (lambda s: 0)
    if par.get("heuristic") == "nonmonotone":      # inadmissible and non-monotone on purpose; needs assert_monotone_heuristic=False
        hv = lambda s: -float(len(repr(s)) * 7 % 5)
    planner = AStarSearch(heuristic_value=hv, seed=seed, assert_monotone_heuristic=par.get("assert_monotone_heuristic", True),
                          randomize_action_order=par.get("randomize_action_order", True),
                          tie_breaking_strategy=par.get("tie_breaking_strategy", "random"))

    keep = []

    def late():
        res = keep[0]
        return {"path": res.path, "visited": res.visited, "policy": policy_table(res.policy, res.path[:-1])}

    def call(other=None):
        res = planner.plan_on(mdp if other is None else other)
        keep.append(res)
        return {"path": res.path, "path_value": res.path_value, "visited": res.visited,
                "policy": policy_table(res.policy, res.path[:-1]), "non_monotonic": res.non_monotonic_counter}
    call.late = late
    return call


def c_bfs(spec, seed, par):
    from msdm.algorithms.search import BreadthFirstSearch
    mdp = build_problem(spec)
    planner = BreadthFirstSearch(seed=seed, randomize_action_order=par.get("randomize_action_order", True))

    keep = []

    def late():
        res = keep[0]
        return {"path": res.path, "visited": res.visited, "policy": policy_table(res.policy, res.path[:-1])}

    def call(other=None):
        res = planner.plan_on(mdp if other is None else other)
        keep.append(res)
        return {"path": res.path, "visited": res.visited, "policy": policy_table(res.policy, res.path[:-1])}
    call.late = late
    return call


def c_td(spec, seed, par):
    from msdm.algorithms import tdlearning
    objs = []
    iq = par.get("initial_q")
    initial_q = 0.0 if iq is None else ((lambda s, a: 0.25) if iq == "callable" else (1 if iq == "int1" else fl(iq)))
    for name in par.get("learners", ["QLearning", "DoubleQLearning", "SARSA", "ExpectedSARSA"]):
        objs.append((name, build_problem(spec),
                     getattr(tdlearning, name)(episodes=par.get("episodes", 12), step_size=fl(par.get("step_size", "1/2")),
                                               rand_choose=fl(par.get("rand_choose", "1/10")),
                                               softmax_temp=fl(par.get("softmax_temp", "0")),
                                               initial_q=initial_q, seed=seed,
                                               **({"event_listener_class": PrintingListener} if par.get("listener") == "printing" else {}))))

    keep = []

    def late():
        return {name: {"policy_all_states": policy_table(res.policy, list(m.state_list)),
                       "q": {s: dict(av) for s, av in res.q_values.items()}} for name, res, m in keep[:len(objs)]}

    def call(other=None):
        out = {}
        for name, mdp, learner in objs:
            res = learner.train_on(mdp if other is None else other)
            keep.append((name, res, mdp if other is None else other))
            q = {s: dict(av) for s, av in res.q_values.items()}
            out[name] = {"q": q, "episode_rewards": res.event_listener_results.episode_rewards,
                         "policy": policy_table(res.policy, list(q.keys()))}
        return out
    call.late = late
    return call


def c_rmax(spec, seed, par):
    from msdm.algorithms.rmax import RMAX
    mdp = build_problem(spec)
    learner = RMAX(episodes=par.get("episodes", 8), rmax=1.0, num_transition_samples=par.get("m", 2), seed=seed,
                   bellman_convergence_diff=fl(par.get("bellman_convergence_diff", "1/100000")),
                   **({"event_listener_class": PrintingListener} if par.get("listener") == "printing" else {}))

    keep = []

    def late():
        res, m = keep[0]
        return {"policy_all_states": policy_table(res.policy, list(m.state_list)),
                "q": {s: dict(av) for s, av in res.q_values.items()}}

    def call(other=None):
        res = learner.train_on(mdp if other is None else other)
        keep.append((res, mdp if other is None else other))
        q = {s: dict(av) for s, av in res.q_values.items()}
        return {"q": q, "episode_rewards": res.event_listener_results.episode_rewards,
                "policy": policy_table(res.policy, list(q.keys()))}
    call.late = late
    return call


def c_bpi(spec, seed, par):
    from msdm.algorithms.fscboundedpolicyiteration import FSCBoundedPolicyIteration
    pomdp = build_problem(spec)
    learner = FSCBoundedPolicyIteration(controller_state_count=par.get("nodes", 2), iterations=par.get("iterations", 4), seed=seed,
                                        convergence_diff=fl(par.get("convergence_diff", "1/100000")))

    def call(other=None):
        res = learner.train_on(pomdp if other is None else other)
        return {"value": res.value, "state_controller_value": res.state_controller_value, "converged": res.converged,
                "action_strategy": res.policy.action_strategy, "observation_strategy": res.policy.observation_strategy,
                "initial_state_dist": res.policy.initial_state_dist, "seed_used": learner.seed}
    return call


def c_ga(spec, seed, par):
    from msdm.algorithms.fscgradientascent import FSCGradientAscent
    pomdp = build_problem(spec)
    import torch
    kw = {}
    if par.get("log_iteration_progress"):
        kw["log_iteration_progress"] = par["log_iteration_progress"]
    if par.get("optimizer"):
        kw["optimizer"] = getattr(torch.optim, par["optimizer"])
    if par.get("dtype"):
        kw["dtype"] = getattr(torch, par["dtype"])
    learner = FSCGradientAscent(controller_state_count=par.get("nodes", 2), iterations=par.get("iterations", 12),
                                learning_rate=fl(par.get("learning_rate", "1/10")), seed=seed, **kw)

    def call(other=None):
        res = learner.train_on(pomdp if other is None else other)
        return {"expected_value": res.value.expected_value, "action_logit": res.controller_logit.action,
                "state_logit": res.controller_logit.state, "initial_logit": res.controller_logit.initial_state,
                "seed_used": learner.seed}
    return call


def c_semimdp(spec, seed, par):
    from msdm.core.semimdp.semimdp import SemiMarkovDecisionProcess
    from msdm.core.semimdp.option import PlanToSubgoalOption
    from msdm.algorithms import ValueIteration
    mdp = build_problem(spec)
    sl = list(mdp.state_list)
    n = len(sl)
    targets = [sl[n // 2], sl[n - 1]]
    options = []
    for t, sub in enumerate(targets):
        mode = par.get("option_names", "str")
        name = ("to-%s" % (sub,)) if mode == "str" else ([0, ""][t] if mode == "falsy" else 1000 + t)
        kwname = {} if mode == "none" else {"name": name}          # "none": options created WITHOUT name= (library default)
        options.append(PlanToSubgoalOption(mdp=mdp, initial_states=[s for s in sl if s != sub and not mdp.is_absorbing(s)],
                                           subgoals=[sub] + [g for g in sl if mdp.is_absorbing(g) and g != sub], planner=ValueIteration(max_iterations=200),
                                           max_steps=par.get("option_max_steps", 400),
                                           max_nonterminal_pseudoreward=fl(par["pseudoreward"]) if par.get("pseudoreward") else float("inf"),
                                           include_mdp_absorbing_states=True, **kwname))
    smdp = SemiMarkovDecisionProcess(mdp=mdp, options=options, n_option_simulations=par.get("nsim", 12), seed=seed,
                                     include_mdp_actions=bool(par.get("include_mdp_actions", False)))

    def call(other=None):
        out = []
        for s in sl[:par.get("nstates", 4)]:
            for o in options:
                if o.is_initial(s):
                    out.append([s, options.index(o) if par.get("option_names") == "none" else o.name,
                                smdp.next_state_transit_time_reward_dist(s, o)])
        out.append(["again", smdp.next_state_transit_time_reward_dist(sl[0], options[-1])])
        if par.get("include_mdp_actions"):
            a0 = mdp.actions(sl[0])[0]                       # ground action: exact branch, no simulation
            out.append(["ground", a0, smdp.next_state_transit_time_reward_dist(sl[0], a0),
                        [repr(type(x).__name__) for x in smdp.actions(sl[0])]])
            out.append(["derived", smdp.next_state_dist(sl[0], options[-1]), smdp.next_state_transit_time_dist(sl[0], options[-1]),
                        smdp.expected_cumulative_reward(sl[0], options[-1])])
        return out
    call.rebindable = False
    call.inputs = [options, [list(o.initial_states) for o in options], [o.initial_states for o in options],
                   [o.subgoals for o in options], sl]
    return call


def c_implicit(spec, seed, par):
    from msdm.core.distributions.distributions import ImplicitDistribution
    from msdm.core.distributions import DictDistribution, UniformDistribution, DeterministicDistribution
    words = [tuple(w) if isinstance(w, list) else w for w in spec.get("events", ["left", "right", "up", "down"])]
    n = par.get("n_samples", 60)

    def func(rng):
        return (words[int(rng.random() * len(words))], rng.randint(0, 2))

    def call(other=None):
        # an ImplicitDistribution is itself the seeded generator (sample() must advance it), so the per-call entry
        # point here is "construct from the seed, then a fixed sequence of queries"
        # (extract_sites.AUDITED_STATEFUL; msdm's own tests draw repeatedly from one ImplicitDistribution object)
        d = ImplicitDistribution(func, n_samples=n, _seed=seed)
        out = {"items": dict(d.items()), "samples": [d.sample() for _ in range(5)],
               "samples_rng": [d.sample(rng=_random.Random(seed)) for _ in range(2)],
               "expectation": d.expectation(lambda e: e[1] * 0.3 + len(str(e[0])))}
        d2 = ImplicitDistribution(func, n_samples=n, _seed=seed)
        out["marginal"] = dict(d2.marginalize(lambda e: e[0]).items())
        try:
            out["conditioned"] = dict(d2.condition(lambda e: e[1] != 1).items())
        except ValueError:                                    # rejection sampling ran out of its n_samples tries
            out["conditioned"] = "ValueError"
        try:                                                  # error path: no sample satisfies the predicate
            out["impossible"] = dict(ImplicitDistribution(func, n_samples=n, _seed=seed).condition(lambda e: False).items())
        except ValueError as e:
            out["impossible"] = "ValueError"
        # relations that must hold INSIDE one run (each pair must be equal): the history of the base object and of its
        # other derived distributions must not reach a derived distribution; an explicitly supplied generator decides
        base = ImplicitDistribution(func, n_samples=n, _seed=seed)
        proj, pred = (lambda e: e[0]), (lambda e: e[1] != 2)
        m1 = _guard(lambda: dict(base.marginalize(proj).items()))
        m2 = _guard(lambda: dict(base.marginalize(proj).items()))               # the same derivation a second time
        c1 = _guard(lambda: dict(base.condition(pred).items()))
        used = ImplicitDistribution(func, n_samples=n, _seed=seed)
        [used.sample() for _ in range(3)]                                        # the base was drawn from before deriving
        m3 = _guard(lambda: dict(used.marginalize(proj).items()))
        c3 = _guard(lambda: dict(used.condition(pred).items()))
        g1 = [base.marginalize(proj).sample(rng=_random.Random(seed + 5)) for _ in range(2)]
        g2 = [ImplicitDistribution(func, n_samples=n, _seed=seed + 1).marginalize(proj).sample(rng=_random.Random(seed + 5)) for _ in range(2)]
        s1 = [ImplicitDistribution(func, n_samples=n, _seed=seed).sample(rng=_random.Random(seed + 6)) for _ in range(2)]
        out["__must_equal__"] = [["same marginal derived twice from one base", m1, m2],
                                 ["marginal of a base that was drawn from before", m1, m3],
                                 ["conditional of a base that was drawn from before", c1, c3],
                                 ["derived.sample(rng=g) with equally seeded g, repeated", g1[0], g1[1]],
                                 ["derived.sample(rng=g) does not depend on the base's seed", g1, g2],
                                 ["base.sample(rng=g) with equally seeded g, repeated", s1[0], s1[1]]]
        # the finite distributions' sample(): single-element early return, k > 1, list / keys-view supports
        g = _random.Random(seed)
        dd = DictDistribution({w: (i + 1) / sum(range(1, len(words) + 1)) for i, w in enumerate(words)})
        out["finite"] = [dd.sample(rng=g), dd.sample(rng=g, k=3), UniformDistribution(list(words)).sample(rng=g),
                         DictDistribution({words[0]: 1.0}).sample(rng=g), DeterministicDistribution(words[-1]).sample(rng=g),
                         (dd * .5 | UniformDistribution(list(words)) * .5).sample(rng=g, k=2), g.random()]
        return out
    call.rebindable = False
    return call


def pick_state(mdp, which):
    sl = list(mdp.state_list)
    if which == "first":
        return sl[0]
    if which == "absorbing":
        return next(s for s in sl if mdp.is_absorbing(s))
    return None


def c_mdp_rollout(spec, seed, par):
    from msdm.core.mdp.policy import FunctionalPolicy
    from msdm.core.distributions import DictDistribution
    mdp = build_problem(spec)
    policy = FunctionalPolicy(lambda s: DictDistribution.uniform(mdp.actions(s)))
    if par.get("policy") == "tabular":
        policy = policy.to_tabular(mdp.state_list, mdp.action_list)
    ms = par.get("max_steps", 25)

    def call(other=None):          # same policy object, an EQUALLY SEEDED generator per call (the property's hypothesis)
        m = mdp if other is None else other
        kw = {}
        if par.get("initial_state"):
            kw["initial_state"] = pick_state(m, par["initial_state"])
        run = policy.run_on(m, max_steps=ms, rng=_random.Random(seed), **kw)
        if par.get("policy") == "tabular":                      # TabularPolicy.evaluate_on is the exact evaluation: roll-outs only
            runs = [policy.run_on(m, max_steps=ms, rng=_random.Random(seed + j), **kw) for j in range(3)]
            return {"run": run, "len": len(run), "more_runs": runs}
        ev = policy.evaluate_on(m, n_simulations=par.get("nsim", 8), max_steps=max(ms, 1), rng=_random.Random(seed))
        return {"run": run, "len": len(run), "state_value": dict(ev.state_value.items()), "initial_value": ev.initial_value,
                "action_value": {s: dict(av.items()) for s, av in ev.action_value.items()},
                "occupancy": dict(ev.state_occupancy.items())}
    return call


def c_pomdp_rollout(spec, seed, par):
    import numpy as np
    from msdm.core.pomdp.finitestatecontroller import StochasticFiniteStateController
    pomdp = build_problem(spec)
    nactions, nstates, nobs = pomdp.observation_matrix.shape
    g = np.random.default_rng(par.get("controller_seed", 5))      # private generator: fixed controller
    nc = par.get("nodes", 2)
    norm = lambda a: a / a.sum(-1, keepdims=True)
    if par.get("controller") == "valuebased":
        from msdm.core.pomdp.policy import ValueBasedTabularPOMDPPolicy

        class VB(ValueBasedTabularPOMDPPolicy):              # belief-based policy of the anchored file, with exact ties
            def action_value(self, b, a):
                return b[1][0] if a == self.pomdp.action_list[0] else 0.5
        policy = VB(pomdp)
    else:
        policy = StochasticFiniteStateController(pomdp, norm(g.uniform(1, 2, (nc, nactions))),
                                                 norm(g.uniform(1, 2, (nc, nactions, nobs, nc))), norm(g.uniform(1, 2, (nc,))))

    def call(other=None):
        p = pomdp if other is None else other
        kw = {}
        if par.get("initial_state"):
            kw["initial_state"] = list(p.state_list)[0]
        if par.get("initial_agentstate") is not None:
            kw["initial_agentstate"] = par["initial_agentstate"]           # 0: a falsy node, passed explicitly
        traj = policy.run_on(p, max_steps=par.get("max_steps", 12), rng=_random.Random(seed), **kw)
        return {"traj": traj, "len": len(traj)}
    if par.get("controller") != "valuebased":
        call.inputs = [policy.action_strategy, policy.observation_strategy, policy.initial_state_dist]
    if par.get("controller") == "valuebased":
        call.rebindable = False      # the belief policy carries the pomdp it was built with
    return call


COMPONENTS = {"laostar": c_laostar, "lrtdp": c_lrtdp, "astar": c_astar, "bfs": c_bfs, "td": c_td, "rmax": c_rmax,
              "bpi": c_bpi, "ga": c_ga, "semimdp": c_semimdp, "implicit": c_implicit,
              "mdp_rollout": c_mdp_rollout, "pomdp_rollout": c_pomdp_rollout}


def _guard(thunk):
    try:
        return thunk()
    except ValueError:
        return "ValueError"


def render(val):
    failures = []
    if isinstance(val, dict) and "__must_equal__" in val:
        val = dict(val)
        for label, x, y in val.pop("__must_equal__"):
            if digest(canon(x)) != digest(canon(y)):
                failures.append({"relation": label, "left": json.dumps(canon(x))[:300], "right": json.dumps(canon(y))[:300]})
    r = render_(val)
    r["relation_failures"] = failures
    return r


def render_(val):
    c = canon(val)
    r = {"digest": digest(c), "ordered_digest": digest(canon(val, ordered=True))}
    txt = json.dumps(c, sort_keys=True)
    if len(txt) <= 6000:
        r["canon"] = c
    else:
        r["canon_head"] = txt[:1500]
    return r


RUN_LIMIT_S = int(os.environ.get("C13_RUN_LIMIT_S", "40"))       # watchdog: one run of one component (normally << 1 s)


class DidNotFinish(BaseException):
    pass


def _alarm(signum, frame):
    raise DidNotFinish("run exceeded %d s" % RUN_LIMIT_S)


def bracket(thunk):
    """one run bracketed by global-generator snapshots; thunk() -> (result, anything to keep).  A run that exceeds
    RUN_LIMIT_S is cut off and reported as error 'DidNotFinish' for THIS run (the harness counts it; it is a violation only
    if the runs it is compared with did finish)"""
    import contextlib
    import io
    import signal
    signal.signal(signal.SIGALRM, _alarm)
    signal.alarm(RUN_LIMIT_S)
    before = snapshot()
    keep = None
    buf = io.StringIO()
    try:
        with contextlib.redirect_stdout(buf):
            val, keep = thunk()
        if buf.getvalue():                       # whatever the component prints (progress logs) is part of what is compared
            val = {"result": val, "stdout": buf.getvalue()[:4000]} if not (isinstance(val, dict) and "__must_equal__" in val) \
                else dict(val, stdout=buf.getvalue()[:4000])
        r = render(val)
        r["printed_chars"] = len(buf.getvalue())
    except BaseException as e:
        if isinstance(e, (KeyboardInterrupt, SystemExit)):
            raise
        import traceback
        r = {"error": type(e).__name__ + ": " + str(e)[:300], "trace": traceback.format_exc()[-1200:]}
    finally:
        signal.alarm(0)
    after = snapshot()
    r["globals_changed"] = [k for k in ("random", "numpy", "torch") if before[k] != after[k]]
    if r.get("error", "").startswith("DidNotFinish"):
        r["globals_changed"] = []                # an interrupted run says nothing about the generators
    return r, keep


def one(case, pl):
    fn = COMPONENTS[case["component"]]
    par = case.get("params", {})
    holder = {}

    def fresh(spec=None):
        call = fn(spec or case["problem"], case["seed"], par)     # construction is part of the run
        holder["call"] = call
        before = digest(canon(call.inputs, ordered=True)) if hasattr(call, "inputs") else None
        val = call()
        if before is not None and digest(canon(call.inputs, ordered=True)) != before:
            holder["inputs_mutated"] = True                       # lists / arrays the caller handed to a constructor were edited
        return val, call

    out = {"hashseed": os.environ.get("PYTHONHASHSEED"), "str_hash_probe": hash("msdm-c13-probe") & 0xffff}
    set_globals(1)
    out["A"], _ = bracket(fresh)
    if out["A"].get("error", "").startswith("DidNotFinish"):
        # the component does not terminate within reason on this input: outside what C13 speaks about (runs that finish).
        # Nothing else is run; every mandatory run carries the same marker, the harness counts the case.
        for k in ("R", "B", "D"):
            out[k] = dict(out["A"])
        out["C"] = [dict(out["A"])]
        out["did_not_finish"] = True
        out["inputs_mutated"] = False
        return out
    call = holder.get("call")
    if call is not None:
        # run R: a SECOND call of the per-call entry point on the SAME planner / learner / policy / semi-MDP object
        out["R"], _ = bracket(lambda: (call(), None))
    else:
        out["R"] = dict(out["A"], globals_changed=[])       # construction itself raised: nothing to call a second time
    # runs X: the same object pointed at a SECOND problem (same labels, different numbers) must behave like a fresh
    # object on that problem, and, called on the first problem afterwards, must still reproduce run A
    spec2 = second_problem(case["problem"], par)
    if call is not None and spec2 is not None and getattr(call, "rebindable", True) and case.get("x", True):
        out["XR"], _ = bracket(lambda: (call(build_problem(spec2)), None))
        if hasattr(call, "late"):
            # results of the FIRST call (policy on ALL states incl. never queried ones, tables) re-queried AFTER the object
            # was used on the second problem; reference: the same late query on a fresh object that made one call only
            out["XQ"], _ = bracket(lambda: (call.late(), None))
        out["XA"], _ = bracket(lambda: (call(), None))
        out["XF"], _ = bracket(lambda: fresh(spec2))
    out["B"], _ = bracket(fresh)
    if "XQ" in out and holder.get("call") is not None and hasattr(holder["call"], "late"):
        cb = holder["call"]
        out["BQ"], _ = bracket(lambda: (cb.late(), None))
    # run H: the same construction after a VARYING number of unrelated objects of the same classes were created in this
    # process (problem + component built on the sibling problem, never called): class-level / module-level state such as
    # instance counters, registries or caches must not reach the result
    if case.get("h", True):
        junk = []
        for j in range(1 + (case["seed"] + len(case["component"])) % 3):
            try:
                junk.append(fn(spec2 or case["problem"], case["seed"] + 17 + j, par))
            except BaseException as e:
                if isinstance(e, (KeyboardInterrupt, SystemExit)):
                    raise
        out["H"], _ = bracket(fresh)
        out["H"]["objects_created_before"] = len(junk)
    # runs P: ONE problem object shared by two fresh components, with an order-sensitive fingerprint of the problem taken
    # before, between and after: P1 = P2 = A (the problem object may be reused) and the problem must come back unchanged
    if case.get("p", True) and case["problem"]["kind"] != "none":
        try:
            SHARED[0] = build_problem_(case["problem"])
            fp = [fingerprint(SHARED[0])]
            out["P1"], _ = bracket(fresh)
            fp.append(fingerprint(SHARED[0]))
            out["P2"], _ = bracket(fresh)
            fp.append(fingerprint(SHARED[0]))
            out["problem_fingerprints"] = fp
        except BaseException as e:
            if isinstance(e, (KeyboardInterrupt, SystemExit)):
                raise
            out["problem_fingerprints"] = ["error: " + type(e).__name__ + ": " + str(e)[:200]]
        finally:
            SHARED[0] = None
    # run T: base objects already used (cached views touched) before being handed to the component
    if case.get("t", True):
        PRETOUCH[0] = True
        try:
            out["T"], _ = bracket(fresh)
        finally:
            PRETOUCH[0] = False
    out["C"] = []
    for k in range(2, 2 + int(case.get("scrambles", 1))):
        set_globals(k)
        out["C"].append(bracket(fresh)[0])
    set_globals(1)
    out["D"], _ = bracket(fresh)
    out["inputs_mutated"] = bool(holder.get("inputs_mutated"))
    return out


if __name__ == "__main__":
    run_cases(one)
