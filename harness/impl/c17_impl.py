"""C17 implementation runner: msdm.algorithms.rmax.RMAX on generated MDPs.

Per case: builds the MDP through the public constructor, trains RMAX with a recording
RMAXEventListener (the (s, a, r, ns) of every time step, episode by episode), and returns
the experience (as indices into state_list/action_list), the Q dictionary, the policy, and the
learner's tallies (rewards, s_a_counts, transitions, q_matrix) read from the learner object."""
import os, sys
sys.path.insert(0, os.path.dirname(os.path.abspath(__file__)))
from build import *


def one(case, pl):
    import numpy as np
    from msdm.algorithms.rmax import RMAX, RMAXEventListener
    mdp = build_mdp(case["mdp"])
    sl, al = list(mdp.state_list), list(mdp.action_list)
    sidx = {s: i for i, s in enumerate(sl)}
    aidx = {a: i for i, a in enumerate(al)}

    class Recorder(RMAXEventListener):
        def __init__(self):
            self.episodes = []
            self.cur = []
            self.starts = []

        def end_of_timestep(self, lv):
            self.cur.append([sidx[lv["s"]], aidx[lv["a"]], fj(lv["r"]), sidx[lv["ns"]], int(lv["ai"])])

        def end_of_episode(self, lv):
            # lv["s"] is the state the episode ended in
            self.episodes.append({"steps": self.cur, "end": sidx[lv["s"]]})
            self.cur = []

        def results(self):
            return self.episodes

    learner = RMAX(episodes=int(case["episodes"]), rmax=fl(case["rmax"]),
                   num_transition_samples=int(case["m"]),
                   bellman_convergence_diff=fl(case["tol"]),
                   seed=int(case["seed"]), event_listener_class=Recorder)
    res = learner.train_on(mdp)
    q = res.q_values
    qstates = list(q.keys())
    out = {
        "state_list": sl, "action_list": al,
        "q_states": qstates,
        "q_actions": [list(q[s].keys()) for s in qstates],
        "Q": [[fj(q[s][a]) if (s in q and a in q[s]) else None for a in al] for s in sl],
        "pi": [[fj(res.policy.action_dist(s).prob(a)) for a in al] for s in sl],
        "episodes": res.event_listener_results,
        "rewards": [[fj(x) for x in row] for row in learner.rewards.tolist()],
        "counts": [[fj(x) for x in row] for row in learner.s_a_counts.tolist()],
        "transitions": [[[fj(x) for x in r2] for r2 in row] for row in learner.transitions.tolist()],
        "q_matrix": [[fj(x) for x in row] for row in learner.q_matrix.tolist()],
        "n_states": int(learner.n_states), "n_actions": int(learner.n_actions),
        "max_reward_matrix": fj(float(np.max(mdp.reward_matrix))),
    }
    return out


if __name__ == "__main__":
    run_cases(one)
