"""C17 implementation runner: msdm.algorithms.rmax.RMAX on generated MDPs.

Per case: builds the MDP through the public constructor, trains RMAX with a recording
RMAXEventListener (the (s, a, r, ns) of every time step, episode by episode), and returns
the experience (as indices into state_list/action_list), the Q dictionary, the policy, and the
learner's tallies (rewards, s_a_counts, transitions, q_matrix) read from the learner object.
A case with a "then" part trains the SAME RMAX object on a second MDP afterwards ("second")."""
import os, sys
sys.path.insert(0, os.path.dirname(os.path.abspath(__file__)))
from build import *


def build_labelled_mdp(case):
    """QuickTabularMDP from a gen_mdp case whose actions(s) lists the action LABELS in the
    per-state order case["action_perm"][s] (a permutation of the action ids; the set is the same in
    every state) and whose labels are case["action_labels"][id] (ints or strings, possibly not in
    sorted order).  Everything is keyed by label, never by position."""
    from msdm.core.mdp.quickmdp import QuickTabularMDP
    from msdm.core.distributions import DictDistribution
    m = case["mdp"]
    labels = case.get("action_labels") or list(range(m["nA"]))
    perm = case.get("action_perm") or [list(a) for a in m["actions"]]
    trans, rew = {}, {}
    for k, row in m["trans"].items():
        s, a = map(int, k.split(","))
        trans[(s, labels[a])] = DictDistribution({ns: fl(p) for ns, p in row})
    for k, r in m["reward"].items():
        s, a, ns = map(int, k.split(","))
        rew[(s, labels[a], ns)] = fl(r)
    actions = [tuple(labels[a] for a in perm[s]) for s in range(m["n"])]
    absorbing = list(m["absorbing"])
    init = DictDistribution({s: fl(p) for s, p in m["init"]})
    return QuickTabularMDP(
        next_state_dist=lambda s, a: trans[(s, a)],
        reward=lambda s, a, ns: rew.get((s, a, ns), 0.0),
        actions=lambda s: actions[s],
        initial_state_dist=init,
        is_absorbing=lambda s: absorbing[s],
        discount_rate=fl(m["gamma"]),
    ), labels


def collect(learner, view):
    """one train_on call of the given learner object on the MDP of `view`, with everything the
    certificate needs, mapped back by label"""
    import numpy as np
    mdp, labels = build_labelled_mdp(view)
    sl, al = list(mdp.state_list), list(mdp.action_list)      # al: LABELS in msdm's order
    sidx = {s: i for i, s in enumerate(sl)}
    aidx = {a: i for i, a in enumerate(al)}                   # label -> position in action_list
    label_id = {lab: i for i, lab in enumerate(labels)}       # label -> generator action id
    res = learner.train_on(mdp)
    episodes = [{"steps": [[sidx[s], aidx[a], fj(r), sidx[ns], int(ai)] for (s, a, r, ns, ai) in ep["steps"]],
                 "end": sidx[ep["end"]]} for ep in res.event_listener_results]
    q = res.q_values
    qstates = list(q.keys())
    return {
        # action_list is reported as generator action ids in msdm's action_list order
        "state_list": sl, "action_list": [label_id[a] for a in al], "action_labels_in_order": [str(a) for a in al],
        "q_states": qstates,
        "q_actions": [sorted(label_id[a] for a in q[s].keys()) for s in qstates],
        "Q": [[fj(q[s][a]) if (s in q and a in q[s]) else None for a in al] for s in sl],
        "pi": [[fj(res.policy.action_dist(s).prob(a)) for a in al] for s in sl],
        "episodes": episodes,
        "rewards": [[fj(x) for x in row] for row in learner.rewards.tolist()],
        "counts": [[fj(x) for x in row] for row in learner.s_a_counts.tolist()],
        "transitions": [[[fj(x) for x in r2] for r2 in row] for row in learner.transitions.tolist()],
        "q_matrix": [[fj(x) for x in row] for row in learner.q_matrix.tolist()],
        "n_states": int(learner.n_states), "n_actions": int(learner.n_actions),
        "max_reward_matrix": fj(float(np.max(mdp.reward_matrix))),
    }


def one(case, pl):
    import traceback
    from msdm.algorithms.rmax import RMAX, RMAXEventListener

    class Recorder(RMAXEventListener):
        """records the raw (s, a, r, ns, ai) of every time step, episode by episode"""
        def __init__(self):
            self.episodes = []
            self.cur = []

        def end_of_timestep(self, lv):
            self.cur.append((lv["s"], lv["a"], lv["r"], lv["ns"], lv["ai"]))

        def end_of_episode(self, lv):
            # lv["s"] is the state the episode ended in
            self.episodes.append({"steps": self.cur, "end": lv["s"]})
            self.cur = []

        def results(self):
            return self.episodes

    learner = RMAX(episodes=int(case["episodes"]), rmax=fl(case["rmax"]),
                   num_transition_samples=int(case["m"]),
                   bellman_convergence_diff=fl(case["tol"]),
                   seed=int(case["seed"]), event_listener_class=Recorder)
    out = collect(learner, case)
    if "then" in case:
        # object reuse: the SAME RMAX object, second problem (own discount rate, rewards, rmax)
        view = {k: v for k, v in case.items() if k != "then"}
        view.update(case["then"])
        learner.rmax = fl(view["rmax"])
        try:
            out["second"] = collect(learner, view)
        except BaseException as e:
            if isinstance(e, (KeyboardInterrupt, SystemExit)):
                raise
            out["second"] = {"error": type(e).__name__ + ": " + str(e)[:500],
                             "trace": traceback.format_exc()[-1500:]}
    return out


if __name__ == "__main__":
    run_cases(one)
