"""C17 implementation runner: msdm.algorithms.rmax.RMAX on generated MDPs.

Per case: builds the MDP through the public constructor, trains RMAX with a recording
RMAXEventListener (the (s, a, r, ns) of every time step, episode by episode), and returns
the experience (as indices into state_list/action_list), the Q dictionary, the policy, and the
learner's tallies (rewards, s_a_counts, transitions, q_matrix) read from the learner object.
A case with a "then" part trains the SAME RMAX object on a second MDP afterwards ("second")."""
import os, sys
sys.path.insert(0, os.path.dirname(os.path.abspath(__file__)))
from build import *
from fractions import Fraction


def lab(x):
    """labels travel through JSON: lists stand for tuples"""
    return tuple(lab(y) for y in x) if isinstance(x, list) else x


def num(s, as_int):
    f = Fraction(s)
    return int(f) if (as_int and f.denominator == 1) else float(f)


def build_labelled_mdp(case):
    """QuickTabularMDP from a gen_mdp case, presented as case says: state labels case["state_labels"][id],
    action labels case["action_labels"][id] (ints, strings, tuples, bools; sorted order may differ from the
    id order), actions(s) listing the labels in the per-state order case["action_perm"][s] as a tuple /
    list / frozenset, optional explicit _state_list / _action_list in a shuffled order, integral gamma
    passed as int.  Everything is keyed by label, never by position."""
    from msdm.core.mdp.quickmdp import QuickTabularMDP
    from msdm.core.distributions import DictDistribution
    m = case["mdp"]
    alab = [lab(x) for x in (case.get("action_labels") or list(range(m["nA"])))]
    slab = [lab(x) for x in (case.get("state_labels") or list(range(m["n"])))]
    perm = case.get("action_perm") or [list(a) for a in m["actions"]]
    cont = {"tuple": tuple, "list": list, "frozenset": frozenset, "shared-list": list}[case.get("actions_container", "tuple")]
    ntype = case.get("number_type", "float")

    def nv(x):
        """a generator number as handed to msdm: float, or (when exactly representable) int / numpy float32"""
        import numpy as np
        f = fl(x)
        if ntype == "int" and float(int(f)) == f:
            return int(f)
        if ntype == "float32" and float(np.float32(f)) == f:
            return np.float32(f)
        return f

    trans, rew, shared = {}, {}, {}
    for k, row in m["trans"].items():
        s, a = map(int, k.split(","))
        if case.get("shared_distributions"):
            key = repr(row)               # identical rows are served by ONE DictDistribution object
            if key not in shared:
                shared[key] = DictDistribution({slab[ns]: nv(p) for ns, p in row})
            trans[(slab[s], alab[a])] = shared[key]
        else:
            trans[(slab[s], alab[a])] = DictDistribution({slab[ns]: nv(p) for ns, p in row})
    for k, r in m["reward"].items():
        s, a, ns = map(int, k.split(","))
        rew[(slab[s], alab[a], slab[ns])] = nv(r)
    if case.get("actions_container") == "shared-list":
        lists = {}                        # ONE list object per distinct order, for every state using it
        actions = {slab[s]: lists.setdefault(tuple(perm[s]), [alab[a] for a in perm[s]]) for s in range(m["n"])}
    else:
        actions = {slab[s]: cont(alab[a] for a in perm[s]) for s in range(m["n"])}
    absorbing = {slab[s]: bool(m["absorbing"][s]) for s in range(m["n"])}
    init = DictDistribution({slab[s]: nv(p) for s, p in m["init"]})
    mdp = QuickTabularMDP(
        next_state_dist=lambda s, a: trans[(s, a)],
        reward=lambda s, a, ns: rew.get((s, a, ns), 0.0),
        actions=lambda s: actions[s],
        initial_state_dist=init,
        is_absorbing=lambda s: absorbing[s],
        discount_rate=num(m["gamma"], case.get("ints_as_int", False)),
    )
    ex = case.get("explicit_lists")
    if ex:
        mdp._state_list = tuple(slab[s] for s in ex["states"])
        mdp._action_list = tuple(alab[a] for a in ex["actions"])

    def snapshot():
        """the caller's objects msdm is handed, by value"""
        return {"actions": {repr(k): repr(list(v) if not isinstance(v, frozenset) else sorted(v, key=repr)) for k, v in actions.items()},
                "transitions": {repr(k): repr(sorted(((repr(x), float(pp)) for x, pp in v.items()))) for k, v in trans.items()},
                "rewards": {repr(k): float(v) for k, v in rew.items()},
                "init": repr(sorted((repr(x), float(pp)) for x, pp in init.items())),
                "absorbing": {repr(k): v for k, v in absorbing.items()}}
    mdp._c17_snapshot = snapshot
    return mdp, slab, alab


class TrainingDoesNotTerminate(Exception):
    pass


def train_with_watchdog(learner, mdp, seconds=int(os.environ.get("C17_TRAIN_TIMEOUT", "90"))):
    """train_on under an alarm: the generated MDPs are proper (episodes end with probability 1) and the value
    iteration is a contraction, so a training that is still running after minutes (the slowest generated one
    takes a few seconds) is reported as an error of that case instead of hanging the whole run"""
    import signal

    def on_alarm(signum, frame):
        raise TrainingDoesNotTerminate("train_on still running after %d s" % seconds)
    old = signal.signal(signal.SIGALRM, on_alarm)
    signal.alarm(seconds)
    try:
        return learner.train_on(mdp)
    finally:
        signal.alarm(0)
        signal.signal(signal.SIGALRM, old)


def collect(learner, view, mdp_parts=None, policy_when="before"):
    """one train_on call of the given learner object on the MDP of `view` (or on the already built
    and already used MDP object mdp_parts), with everything the certificate needs, mapped back by label.
    policy_when: "before" = the result's policy is read for every state right away; "after" / "half-after"
    = no state / every other state is read now and late_read() fills in the rest later."""
    import numpy as np
    mdp, slab, alab = mdp_parts or build_labelled_mdp(view)
    sl, al = list(mdp.state_list), list(mdp.action_list)      # LABELS in msdm's order
    sidx = {s: i for i, s in enumerate(sl)}
    aidx = {a: i for i, a in enumerate(al)}                   # label -> position in action_list
    state_id = {x: i for i, x in enumerate(slab)}             # label -> generator state id
    label_id = {x: i for i, x in enumerate(alab)}             # label -> generator action id
    before = mdp._c17_snapshot()
    res = train_with_watchdog(learner, mdp)
    after = mdp._c17_snapshot()
    mutated = [k for k in before if before[k] != after[k]]
    episodes = [{"steps": [[sidx[s], aidx[a], fj(r), sidx[ns], int(ai)] for (s, a, r, ns, ai) in ep["steps"]],
                 "end": sidx[ep["end"]]} for ep in res.event_listener_results]
    q = res.q_values
    qstates = list(q.keys())
    outside = [x for x in slab if x not in sidx]              # generator states msdm did not list

    def read_policy(states):
        return [[fj(res.policy.action_dist(s).prob(a)) for a in al] for s in states]

    def read_q():
        return [[fj(q[s][a]) if (s in q and a in q[s]) else None for a in al] for s in sl]

    early = list(range(len(sl))) if policy_when == "before" else \
        ([i for i in range(len(sl)) if i % 2 == 0] if policy_when == "half-after" else [])
    pi_early = dict(zip(early, read_policy([sl[i] for i in early])))
    out = {
        # state_list / action_list are reported as generator ids in msdm's order
        "state_list": [state_id[s] for s in sl], "action_list": [label_id[a] for a in al],
        "labels_in_order": [repr(s) for s in sl] + ["|"] + [repr(a) for a in al],
        "q_states": [state_id.get(s, repr(s)) for s in qstates],
        "q_actions": [sorted(label_id.get(a, -1) for a in q[s].keys()) for s in qstates],
        "Q": read_q(),
        "episodes": episodes,
        "rewards": [[fj(x) for x in row] for row in learner.rewards.tolist()],
        "counts": [[fj(x) for x in row] for row in learner.s_a_counts.tolist()],
        "transitions": [[[fj(x) for x in r2] for r2 in row] for row in learner.transitions.tolist()],
        "q_matrix": [[fj(x) for x in row] for row in learner.q_matrix.tolist()],
        "n_states": int(learner.n_states), "n_actions": int(learner.n_actions),
        "max_reward_matrix": fj(float(np.max(mdp.reward_matrix))),
        "caller_objects_mutated": mutated,
    }

    def late_read(after_later_training):
        """(re)read the result: the policy for every state (states not read so far get their first query
        now) and the Q dict; the certificate is given THIS reading"""
        pi = read_policy(sl)
        pi_again = read_policy(sl)                            # the policy object, used twice
        out["pi"] = pi
        out["pi_same_on_second_query"] = pi == pi_again
        out["pi_early_equals_late"] = all(pi[i] == row for i, row in pi_early.items())
        out["pi_outside"] = read_policy(outside)
        final = mdp._c17_snapshot()                           # ... and after the result has been queried
        out["caller_objects_mutated"] = sorted(set(out["caller_objects_mutated"]) | {k for k in before if before[k] != final[k]})
        if after_later_training:
            out["Q_late"] = read_q()
            out["policy_read"] = policy_when

    if policy_when == "before":
        late_read(False)
    return out, (mdp, slab, alab), late_read


def one(case, pl):
    import traceback
    from msdm.algorithms.rmax import RMAX, RMAXEventListener

    class Recorder(RMAXEventListener):
        """records the raw (s, a, r, ns, ai) of every time step, episode by episode"""
        def __init__(self):
            self.episodes = []
            self.cur = []

        def end_of_timestep(self, lv):
            self.cur.append((lv["s"], lv["a"], lv["r"], lv["ns"], lv["ai"]))

        def end_of_episode(self, lv):
            # lv["s"] is the state the episode ended in
            self.episodes.append({"steps": self.cur, "end": lv["s"]})
            self.cur = []

        def results(self):
            return self.episodes

    ints = case.get("ints_as_int", False)

    def typed_rmax(view):
        """the rmax ARGUMENT in the numeric type the case asks for (always equal in value to the float64 maximum)"""
        import numpy as np
        t = view.get("rmax_type")
        f = Fraction(view.get("rmax_arg", view["rmax"]))      # rmax_arg: deliberately NOT the maximum reward
        if t == "float32":
            return np.float32(float(f))
        if t == "float64":
            return np.float64(float(f))
        if t == "int64":
            return np.int64(int(f))
        if t == "int":
            return int(f)
        if t == "float":
            return float(f)
        return num(view["rmax"], view.get("ints_as_int", False))

    def typed_int(x):
        import numpy as np
        return np.int64(int(x)) if case.get("int_args_type") == "int64" else int(x)

    def make(listener=None):
        kw = dict(episodes=typed_int(case["episodes"]), rmax=typed_rmax(case),
                  num_transition_samples=typed_int(case["m"]),
                  bellman_convergence_diff=fl(case["tol"]),
                  seed=None if case["seed"] is None else int(case["seed"]))
        if listener is not None:
            kw["event_listener_class"] = listener
        return RMAX(**kw)

    learner = make(Recorder)
    when = (case.get("then") or {}).get("first_policy_queried", "before")
    out, parts, late_read = collect(learner, case, policy_when=when)
    if case.get("default_listener_rerun") and case["seed"] is not None:
        # a second, fresh object of the class with the DEFAULT listener, on the already-used MDP object
        #   or on the same problem constructed a second time (class-/module-level caches)
        rerun_mdp = build_labelled_mdp(case)[0] if case.get("rerun_fresh_mdp") else parts[0]
        r2 = train_with_watchdog(make(), rerun_mdp)
        sl = list(parts[0].state_list)
        al = list(parts[0].action_list)
        out["rerun"] = {"episode_rewards": [fj(x) for x in r2.event_listener_results.episode_rewards],
                        "Q": [[fj(r2.q_values[s][a]) for a in al] for s in sl]}
    if "then" in case:
        # object reuse: the SAME RMAX object, second training (same MDP object with another seed, or a
        # second problem with its own discount rate, rewards, rmax)
        view = {k: v for k, v in case.items() if k != "then"}
        view.update(case["then"])
        learner.rmax = typed_rmax(view)
        learner.seed = None if view["seed"] is None else int(view["seed"])
        try:
            out["second"] = collect(learner, view, parts if view.get("same_mdp_object") else None)[0]
        except BaseException as e:
            if isinstance(e, (KeyboardInterrupt, SystemExit)):
                raise
            out["second"] = {"error": type(e).__name__ + ": " + str(e)[:500],
                             "trace": traceback.format_exc()[-1500:]}
        # the FIRST result, read (again) after the learner object has been trained on something else
        late_read(True)
    return out


if __name__ == "__main__":
    run_cases(one)
