"""C02 implementation runner: TabularPolicy.evaluate_on (exact policy evaluation) on generated
MDPs x generated stochastic policies.

Representations exercised (all chosen by the case, i.e. by the harness' rng):
  * policy given as TabularPolicy.from_state_action_lists (ndarray or nested lists, lists or tuples) over the
    policy's own permuted / larger state list and permuted action list, as TabularPolicy.from_dict, or as a
    FunctionalPolicy (returning a DictDistribution or a plain dict) turned into a table by Policy.to_tabular;
  * state / action labels: ints, strings whose sorted order is reversed, tuples (with the falsy ()), strings with
    the falsy "", floats with the falsy 0.0, and an unsortable int/str mix (state_list falls back to set order);
  * discount rate passed as float or int;
  * multi-step scenarios: the SAME policy object evaluated again on MDPs with re-ordered lists / on the same
    MDP, and a SECOND policy object evaluated on the already used MDP object;
  * inputs evaluate_on must reject (the exception type, or None when silently evaluated, is reported back).
Everything is reported back in generator ids (ints), in the order msdm uses."""
import os, sys
from fractions import Fraction
sys.path.insert(0, os.path.dirname(os.path.abspath(__file__)))
from build import *


def label_map(kind, n):
    if kind == "revstr":
        return ["zyxwvutsrq"[i] for i in range(n)]
    if kind == "tuple":
        return [() if i == 0 else (i % 2, i) for i in range(n)]
    if kind == "falsystr":
        return ["" if i == 0 else "q%d" % (9 - i) for i in range(n)]
    if kind == "float":
        return [0.5 * i for i in range(n)]
    if kind == "unsortable":
        return [i if i % 2 == 0 else "o%d" % i for i in range(n)]
    return list(range(n))


def num(x, ints):
    """float of an 'n/d' string; with int-typed inputs, integral values are passed as Python ints"""
    f = Fraction(x)
    return int(f) if (ints and f.denominator == 1) else float(f)


def make_mdp(case, explicit_lists=False, spec=None):
    """QuickTabularMDP from a gen_mdp case with relabelled states/actions (same as build.build_mdp for int labels).
    With case['shared_objects'] the callbacks hand out persistent MUTABLE objects (one list per distinct action set,
    shared by all states that have it; one distribution object per (s, a), and a single one for equal rows)."""
    from msdm.core.mdp.quickmdp import QuickTabularMDP
    from msdm.core.distributions import DictDistribution
    m = spec or case["mdp"]
    ints = bool(case.get("int_inputs"))
    fl = lambda x: num(x, ints)
    lab = case.get("labels") or {}
    LS, LA = label_map(lab.get("s"), m["n"]), label_map(lab.get("a"), m["nA"])
    IS = {l: i for i, l in enumerate(LS)}
    IA = {l: i for i, l in enumerate(LA)}
    trans = {}
    for k, row in m["trans"].items():
        s, a = map(int, k.split(","))
        trans[(s, a)] = DictDistribution({LS[ns]: fl(p) for ns, p in row})
    rew = {}
    for k, r in m["reward"].items():
        s, a, ns = map(int, k.split(","))
        rew[(s, a, ns)] = fl(r)
    actions = [tuple(LA[a] for a in acts) for acts in m["actions"]]
    if case.get("shared_objects"):
        pool, dpool = {}, {}
        actions = [pool.setdefault(tuple(acts), [LA[a] for a in acts]) for acts in m["actions"]]
        for k in list(trans):
            key = tuple(sorted((repr(x), p) for x, p in trans[k].items()))
            trans[k] = dpool.setdefault(key, trans[k])
    absorbing = list(m["absorbing"])
    g = fl(m["gamma"])
    if case.get("gamma_as_int") and g == int(g):
        g = int(g)
    # absorbing flags as the user's is_absorbing returns them: bool, Python int, np.int64, np.bool_
    import numpy as np
    ft = case.get("flag_type")
    flag = {"int": int, "np.int64": np.int64, "np.bool_": np.bool_}.get(ft, bool)
    absorbing = [flag(x) for x in absorbing]
    mdp = QuickTabularMDP(
        next_state_dist=lambda s, a: trans[(IS[s], IA[a])],
        reward=lambda s, a, ns: rew.get((IS[s], IA[a], IS[ns]), 0.0),
        actions=lambda s: actions[IS[s]],
        initial_state_dist=DictDistribution({LS[s]: fl(p) for s, p in m["init"]}),
        is_absorbing=lambda s: absorbing[IS[s]],
        discount_rate=g,
    )
    if explicit_lists:
        mdp._state_list = tuple(LS)
        mdp._action_list = tuple(LA)
    inputs = {"actions": actions, "trans": trans, "rew": rew}
    if case.get("mdp_form") == "matrices":
        # the same problem handed over in matrix form (TabularMarkovDecisionProcess.from_matrices), with the flag
        # arrays typed as the case says (0/1 integers, floats, bools)
        from msdm.core.mdp.tabularmdp import TabularMarkovDecisionProcess
        sl0, al0 = list(mdp.state_list), list(mdp.action_list)
        dt = {"int": int, "np.int64": np.int64, "np.bool_": bool}.get(ft, float if case.get("matrix_flags_float") else bool)
        mats = {"transition_matrix": np.array(mdp.transition_matrix), "reward_matrix": np.array(mdp.reward_matrix),
                "action_matrix": np.array(mdp.action_matrix).astype(dt if dt is not bool else float),
                "initial_state_vec": np.array(mdp.initial_state_vec),
                "absorbing_state_vec": np.array([absorbing[IS[x]] for x in sl0]).astype(dt)}
        mdp = TabularMarkovDecisionProcess.from_matrices(state_list=sl0, action_list=al0, discount_rate=g, **mats)
        inputs.update(mats)
        inputs["matrix_state_list"], inputs["matrix_action_list"] = sl0, al0
    mdp._c02_inputs = inputs
    return mdp, LS, LA, IS, IA


def snapshot(objs):
    import copy
    import numpy as np
    return {k: (o.copy() if isinstance(o, np.ndarray) else copy.deepcopy(o)) for k, o in objs.items()}


def mutated(objs, snap):
    import numpy as np
    bad = []
    for k, o in objs.items():
        b = snap[k]
        if isinstance(o, np.ndarray):
            same = o.shape == b.shape and o.dtype == b.dtype and np.array_equal(o, b)
        else:
            same = (o == b) and type(o) is type(b)
        if not same:
            bad.append(k)
    return bad


def make_policy(pol, sl, al, LS, LA, IS, IA):
    """-> (policy object, info dict); sl/al: the first MDP's lists in generator ids"""
    import numpy as np
    from msdm.core.distributions import DictDistribution
    from msdm.core.mdp.tabularpolicy import TabularPolicy
    from msdm.core.mdp.policy import FunctionalPolicy
    rows = {int(s): [(int(a), fl(p)) for a, p in r] for s, r in pol["rows"].items()}
    for s, r in (pol.get("float_rows") or {}).items():
        rows[int(s)] = [(int(a), float.fromhex(h)) for a, h in r]
    info = {}
    extra = pol.get("extra_action_labels", [])          # error path: actions the MDP does not have
    pal = [a for a in pol["action_order"] if a in al]
    form = pol["form"]
    if form in ("tab", "tab_lists"):
        psl = list(pol["state_order"])                  # may contain states the MDP lacks
        data = np.zeros((len(psl), len(pal) + len(extra)))
        for i, s in enumerate(psl):
            for a, p in rows[s]:
                if a in pal:
                    data[i, pal.index(a)] = p
        slab, alab = [LS[s] for s in psl], [LA[a] for a in pal] + list(extra)
        if pol.get("dtype") == "int" and ((data == 0) | (data == 1)).all():
            data = data.astype(int)                     # deterministic policy as an integer table
        elif pol.get("dtype") == "float32" and (data.astype(np.float32).astype(float) == data).all():
            data = data.astype(np.float32)              # exactly representable: same numbers, other dtype
        info["_inputs"] = {"policy_data": data, "policy_state_list": slab, "policy_action_list": alab}
        if form == "tab_lists":
            policy = TabularPolicy.from_state_action_lists(state_list=tuple(slab), action_list=tuple(alab),
                                                           data=[list(map(float, r)) for r in data])
        else:
            policy = TabularPolicy.from_state_action_lists(state_list=slab, action_list=alab, data=data)
    elif form == "dict":
        # one entry per available action of every MDP state (zeros explicit)
        d = {}
        for s in [x for x in pol["state_order"] if x in sl]:
            row = {LA[a]: 0.0 for a in pol["avail"][str(s)]}
            for a, p in rows[s]:
                row[LA[a]] = p
            d[LS[s]] = row
        policy = TabularPolicy.from_dict(d, default_value=0.0)
    else:
        psl = [s for s in pol["state_order"] if s in sl]  # to_tabular needs every listed action known
        if form == "fun_dict":
            fp = FunctionalPolicy(lambda s: {LA[a]: p for a, p in rows[IS[s]]})
        else:
            fp = FunctionalPolicy(lambda s: DictDistribution({LA[a]: p for a, p in rows[IS[s]]}))
        policy = fp.to_tabular(state_list=[LS[s] for s in psl], action_list=[LA[a] for a in pal])
        info["table"] = [[fj(x) for x in r] for r in np.array(policy)]
    info["policy_type"] = type(policy).__name__
    info["psl"] = [IS[x] for x in policy.state_list]
    info["pal"] = [IA[x] if x in IA else -1 for x in policy.action_list]
    if form == "dict":
        info["table"] = [[fj(x) for x in r] for r in np.array(policy)]
    return policy, info


def one(case, pl):
    mdp, LS, LA, IS, IA = make_mdp(case, explicit_lists=case.get("explicit_lists", False))
    lists = lambda mk: ([IS[x] for x in mk.state_list], [IA[x] for x in mk.action_list])
    sl, al = lists(mdp)
    res = {"state_list": sl, "action_list": al,
           "absorbing_vec": [bool(x) for x in mdp.absorbing_state_vec]}     # (touches the MDP's cached matrices first)
    policy, info = make_policy(case["policy"], sl, al, LS, LA, IS, IA)
    caller = dict(info.pop("_inputs", {}))
    caller.update({"mdp_" + k: v for k, v in mdp._c02_inputs.items()})
    snap = snapshot(caller)
    res.update(info)

    if case.get("expect_error"):
        try:
            policy.evaluate_on(mdp)
            res["raised"] = None
        except BaseException as e:
            if isinstance(e, (KeyboardInterrupt, SystemExit)):
                raise
            res["raised"] = type(e).__name__
        return res

    def extract(r, sl_k, al_k):
        return {"V": [fj(r.state_value[LS[s]]) for s in sl_k],
                "Q": [[fj(r.action_value[LS[s]][LA[a]]) for a in al_k] for s in sl_k],
                "occ": [fj(r.state_occupancy[LS[s]]) for s in sl_k],
                "initial_value": fj(r.initial_value)}

    kept = {}

    def evaluate(pol_obj, mdp_k):
        sl_k, al_k = lists(mdp_k)
        try:
            r = pol_obj.evaluate_on(mdp_k)
            out = {"state_list": sl_k, "action_list": al_k, "n_simulations": r.n_simulations}
            out.update(extract(r, sl_k, al_k))
            out["mutated"] = mutated(caller, snap)       # caller's objects must be left as they were
            if not kept:
                kept["first"] = (r, sl_k, al_k, extract(r, sl_k, al_k))
            return out
        except BaseException as e:
            if isinstance(e, (KeyboardInterrupt, SystemExit)):
                raise
            return {"state_list": sl_k, "action_list": al_k, "error": type(e).__name__ + ": " + str(e)[:300]}

    first = evaluate(policy, mdp)
    if "error" in first:
        return {"error": first["error"]}
    res.update(first)
    # multi-step: the SAME policy object again (re-ordered lists / same MDP), or ANOTHER policy object on
    # the MDP object that has already been used
    evals = [first]
    for step in case.get("reuse", []):
        if step == "same":
            evals.append(evaluate(policy, mdp))
        elif step == "fresh":
            # the same problem and the same policy constructed again from scratch, after everything else
            m3 = make_mdp(case, explicit_lists=case.get("explicit_lists", False))[0]
            p3, info3 = make_policy(case["policy"], sl, al, LS, LA, IS, IA)
            info3.pop("_inputs", None)
            evals.append(evaluate(p3, m3))
        elif "other_mdp" in step:
            # the SAME policy object on a DIFFERENT problem (other numbers, possibly another size and discount)
            m2 = make_mdp(case, spec=step["other_mdp"])[0]
            m2._action_list = tuple(LA[x] for x in sorted(al, key=lambda x: step["akeys"][x]))
            ev = evaluate(policy, m2)
            ev["mdp"] = step["other_mdp"]
            evals.append(ev)
        elif "other_policy" in step:
            p2, info2 = make_policy(step["other_policy"], sl, al, LS, LA, IS, IA)
            info2.pop("_inputs", None)
            ev = evaluate(p2, mdp)
            ev.update(info2)
            ev["pol"] = step["other_policy"]
            evals.append(ev)
        else:
            m2 = make_mdp(case, explicit_lists=case.get("explicit_lists", False))[0]
            m2._state_list = tuple(LS[x] for x in sorted(sl, key=lambda x: step["skeys"][x]))
            m2._action_list = tuple(LA[x] for x in sorted(al, key=lambda x: step["akeys"][x]))
            evals.append(evaluate(policy, m2))
    res["evals"] = evals
    # the FIRST result object, re-read after all later calls: it must still say what it said
    r1, sl1, al1, out1 = kept["first"]
    res["first_result_changed"] = extract(r1, sl1, al1) != out1
    return res


if __name__ == "__main__":
    run_cases(one)
