"""C02 implementation runner: TabularPolicy.evaluate_on (exact policy evaluation) on generated
MDPs x generated stochastic policies, given as a TabularPolicy over the policy's own (permuted /
larger) state and action lists, or as a FunctionalPolicy turned into a table by Policy.to_tabular."""
import os, sys
sys.path.insert(0, os.path.dirname(os.path.abspath(__file__)))
from build import *


def one(case, pl):
    import numpy as np
    from msdm.core.distributions import DictDistribution
    from msdm.core.mdp.tabularpolicy import TabularPolicy
    from msdm.core.mdp.policy import FunctionalPolicy
    mdp = build_mdp(case["mdp"], explicit_lists=case.get("explicit_lists", False))
    sl, al = list(mdp.state_list), list(mdp.action_list)
    pol = case["policy"]
    rows = {int(s): [(int(a), fl(p)) for a, p in r] for s, r in pol["rows"].items()}
    res = {"state_list": sl, "action_list": al,
           "absorbing_vec": [bool(x) for x in mdp.absorbing_state_vec]}
    # the policy's own lists: the case gives orders over ALL generator ids; only ids the MDP
    # knows can be columns (evaluate_on asserts policy actions <= mdp actions)
    pal = [a for a in pol["action_order"] if a in al]
    if pol["form"] == "tab":
        psl = [s for s in pol["state_order"]]                       # may contain states the MDP lacks
        data = np.zeros((len(psl), len(pal)))
        for i, s in enumerate(psl):
            for a, p in rows[s]:
                if a in pal:
                    data[i, pal.index(a)] = p
        policy = TabularPolicy.from_state_action_lists(state_list=psl, action_list=pal, data=data)
    else:
        psl = [s for s in pol["state_order"] if s in sl]            # to_tabular needs every listed action known
        fp = FunctionalPolicy(lambda s: DictDistribution(dict(rows[s])))
        policy = fp.to_tabular(state_list=psl, action_list=pal)
        res["policy_type"] = type(policy).__name__
        res["table"] = [[fj(x) for x in r] for r in np.array(policy)]
    res["psl"], res["pal"] = psl, pal

    def evaluate(mdp_k):
        sl_k, al_k = list(mdp_k.state_list), list(mdp_k.action_list)
        try:
            r = policy.evaluate_on(mdp_k)
            return {"state_list": sl_k, "action_list": al_k,
                    "V": [fj(r.state_value[s]) for s in sl_k],
                    "Q": [[fj(r.action_value[s][a]) for a in al_k] for s in sl_k],
                    "occ": [fj(r.state_occupancy[s]) for s in sl_k],
                    "initial_value": fj(r.initial_value), "n_simulations": r.n_simulations}
        except BaseException as e:
            if isinstance(e, (KeyboardInterrupt, SystemExit)):
                raise
            return {"state_list": sl_k, "action_list": al_k, "error": type(e).__name__ + ": " + str(e)[:300]}

    first = evaluate(mdp)
    if "error" in first:
        return {"error": first["error"]}
    res.update(first)
    # the SAME policy object evaluated again: on MDPs with the same dynamics whose state/action lists
    # are ordered differently (same sets, so same sizes), and once more on the first MDP
    evals = [first]
    for step in case.get("reuse", []):
        if step == "same":
            evals.append(evaluate(mdp))
            continue
        m2 = build_mdp(case["mdp"])
        m2._state_list = tuple(sorted(sl, key=lambda x: step["skeys"][x]))
        m2._action_list = tuple(sorted(al, key=lambda x: step["akeys"][x]))
        evals.append(evaluate(m2))
    res["evals"] = evals
    return res


if __name__ == "__main__":
    run_cases(one)
