"""C18 implementation runner: DiscreteFactorTable expressions and TabularGridGame transitions."""
import os, sys, json, math
sys.path.insert(0, os.path.dirname(os.path.abspath(__file__)))
from build import *

ACTIONS = [(0, 0), (1, 0), (-1, 0), (0, 1), (0, -1)]


# ---------------------------------------------------------------- factor tables
def mk_table(t):
    import numpy as np
    from msdm.core.distributions import DiscreteFactorTable as Pr
    rows = [json.loads(json.dumps(r)) for r in t["rows"]]
    if t.get("sup") == "tuple":
        rows = tuple(rows)
    ws = [fl(w) for w in t["w"]]
    if t.get("ctor") == "uniform":
        return Pr(rows)
    if t.get("ctor") == "logits":
        ls = [(math.log(w) if w > 0 else -np.inf) for w in ws]
        return Pr(rows, logits=np.array(ls) if t.get("arr") else ls)
    return Pr(rows, probs=np.array(ws) if t.get("arr") else (tuple(ws) if t.get("sup") == "tuple" else ws))


def touch(tb):
    """use a table before it is combined: cached views / derived tables must not change it"""
    _ = (tb.probs, tb.logits, len(tb), list(tb.items()), tb.keys())
    if len(tb.support) > 0:
        _ = (tb.prob(tb.support[0]), tb.logit(tb.support[-1]), tb.Z, tb & tb, tb * .5, tb.marginalize(lambda r: dict(r)))


def restrict_nested(r, paths):
    out = {}
    for p in paths:
        cur, ok = r, True
        for k in p:
            if isinstance(cur, dict) and k in cur:
                cur = cur[k]
            else:
                ok = False
                break
        if not ok:
            continue
        d = out
        for k in p[:-1]:
            d = d.setdefault(k, {})
        d[p[-1]] = cur
    return out


def num(c, as_int):
    x = fl(c)
    return int(x) if (as_int and x == int(x)) else x


def ev(e, objs, as_int=False):
    op = e[0]
    if op == "t":
        return objs[e[1]]          # the SAME table object wherever the expression mentions it
    if op == "and":
        return ev(e[1], objs, as_int) & ev(e[2], objs, as_int)
    if op == "or":
        return ev(e[1], objs, as_int) | ev(e[2], objs, as_int)
    if op == "mul":
        return ev(e[1], objs, as_int) * num(e[2], as_int)
    if op == "rmul":
        return num(e[2], as_int) * ev(e[1], objs, as_int)
    if op == "div":
        return ev(e[1], objs, as_int) / num(e[2], as_int)
    if op == "norm":
        return ev(e[1], objs, as_int).normalize()
    if op == "marg":
        paths = [tuple(p) for p in e[2]]
        inner = ev(e[1], objs, as_int)
        if len(inner.support) == 0:
            # msdm: marginalize of an empty table raises ValueError (zip(*()) unpack); outside the property,
            # mapped to the empty table here
            return inner
        return inner.marginalize(lambda r: restrict_nested(r, paths))
    raise ValueError(op)


def ft_case(case):
    import numpy as np
    objs = [mk_table(t) for t in case["tables"]]
    if case.get("touch"):
        for tb in objs:
            touch(tb)
    before = [([json.dumps(r, sort_keys=True) for r in tb.support], list(map(float, tb.logits))) for tb in objs]
    try:
        t = ev(case["expr"], objs, case.get("int_scalars", False))
        t2 = ev(case["expr"], objs, case.get("int_scalars", False))     # same objects, second evaluation
    except AssertionError:
        return {"raised": "AssertionError"}
    after = [([json.dumps(r, sort_keys=True) for r in tb.support], list(map(float, tb.logits))) for tb in objs]
    rows = [json.loads(json.dumps(r)) for r in t.support]
    same = (list(map(lambda r: json.dumps(r, sort_keys=True), t.support)) == list(map(lambda r: json.dumps(r, sort_keys=True), t2.support))
            and [fj(x) for x in t.logits] == [fj(x) for x in t2.logits] and [fj(x) for x in t.probs] == [fj(x) for x in t2.probs])
    return {"rows": rows,
            "w": [fj(np.exp(l)) for l in t.logits],
            "p": [fj(p) for p in t.probs],
            "probq": [fj(t.prob(r)) for r in rows],
            "repeat_same": bool(same), "operands_unchanged": before == after}


# ---------------------------------------------------------------- grid games
def pos_of(gg, s):
    if s.get("isTerminal", False):
        return None
    out = []
    for an in gg.agent_names:
        a = s[an]
        if a.get("type") != "agent" or a.get("name") != an or set(a.keys()) != {"type", "name", "x", "y"}:
            raise ValueError("unexpected agent record %r" % (a,))
        out.append([int(a["x"]), int(a["y"])])
    if set(s.keys()) != set(gg.agent_names):
        raise ValueError("unexpected state keys %r" % (list(s.keys()),))
    return out


def build_game(case):
    from msdm.domains.gridgame.tabulargridgame import TabularGridGame
    fp = fl(case["fence_p"])
    if case.get("fence_int") and fp == int(fp):
        fp = int(fp)
    kw = {"fence_success_prob": fp}
    if case.get("collision_prob") is not None:
        kw["collision_prob"] = fl(case["collision_prob"])
    goal = (("G0", ("A0",)), ("G1", ("A1",)), ("G", ("A0", "A1")))
    wall = (("[", "left"), ("]", "right"), ("^", "above"), ("_", "below"))
    fence = (("{", "left"), ("}", "right"), ("~", "above"), ("u", "below"))
    form = case.get("sym_form")
    if form == "dict":
        kw.update(goal_symbols=dict(goal), wall_symbols=dict(wall), fence_symbols=dict(fence))
    elif form == "tuple":
        kw.update(goal_symbols=goal, wall_symbols=wall, fence_symbols=fence, agent_symbols=("A0", "A1"), obstacle_symbols=("#",))
    return TabularGridGame(case["layout"], **kw)


def jas(gg, reverse=False):
    out = []
    for a0 in ACTIONS:
        for a1 in ACTIONS:
            items = [(gg.agent_names[0], {"x": a0[0], "y": a0[1]}), (gg.agent_names[1], {"x": a1[0], "y": a1[1]})]
            if reverse:       # other key order, inside and outside
                items = [(k, {"y": v["y"], "x": v["x"]}) for k, v in reversed(items)]
            out.append(dict(items))
    return out


def reordered(s):
    if s.get("isTerminal", False):
        return dict(s)
    return {k: {kk: s[k][kk] for kk in reversed(list(s[k].keys()))} for k in reversed(list(s.keys()))}


def gg_case(case):
    from msdm.domains.gridgame.tabulargridgame import TERMINALSTATE
    # other games built and used first IN THIS PROCESS (class-level / module-level caches must not leak)
    for wc in case.get("warmup", []):
        wg = build_game(wc)
        s0 = wg.initial_state_dist().support[0]
        for ja in jas(wg):
            wg.next_state_dist(s0, ja)
        wg.reachable_states(MAX_STATES=8)
    gg = build_game(case)
    facts = {"width": gg.width, "height": gg.height, "agent_names": list(gg.agent_names),
             "goals": [[g["x"], g["y"], list(g["owners"])] for g in gg.goals],
             "obstacles": [[o["x"], o["y"]] for o in gg.obstacles],
             "walls": [[w["start"]["x"], w["start"]["y"], w["end"]["x"], w["end"]["y"]] for w in gg.walls],
             "fences": [[w["start"]["x"], w["start"]["y"], w["end"]["x"], w["end"]["y"]] for w in gg.fences],
             "init": pos_of(gg, gg.initial_state_dist().support[0])}
    reach = list(gg.reachable_states(MAX_STATES=case.get("max_states", 60)))
    reach = sorted(reach, key=lambda d: json.dumps(d, sort_keys=True))
    nterm = sum(1 for s in reach if gg.is_terminal(s))
    reach = [s for s in reach if not gg.is_terminal(s)][:case.get("max_states", 60)]
    states = reach + [dict(TERMINALSTATE)]
    out = []
    JA = jas(gg)
    for s in states:
        rec = {"s": pos_of(gg, s), "is_terminal": bool(gg.is_terminal(s)),
               "is_absorbing": (bool(gg.is_absorbing(s)) if not gg.is_terminal(s) else None), "tr": [], "rew": []}
        for ja in JA:
            d = gg.next_state_dist(s, ja)
            rec["tr"].append([[pos_of(gg, ns), fj(p)] for ns, p in zip(d.support, d.probs)])
            if gg.is_terminal(s):
                rr = []
                for ns in d.support:
                    jr = gg.joint_rewards(s, ja, ns)
                    rr.append([fj(jr[an]) for an in gg.agent_names])
                rec["rew"].append(rr)
        out.append(rec)
    # second pass on the SAME game object, after everything was computed once, with the state and
    # joint-action dictionaries in the opposite key order: must give identical distributions
    mism = []
    JR = jas(gg, reverse=True)
    for k, s in enumerate(states):
        s2 = reordered(s)
        for j, ja in enumerate(JR):
            d = gg.next_state_dist(s2, ja)
            again = [[pos_of(gg, ns), fj(p)] for ns, p in zip(d.support, d.probs)]
            if again != out[k]["tr"][j] and len(mism) < 5:
                mism.append({"state": out[k]["s"], "ja_index": j, "first": out[k]["tr"][j], "again": again})
    return {"facts": facts, "states": out, "terminal_reachable": nterm > 0, "repeat_mismatch": mism}


def one(case, pl):
    if case["kind"] == "ft":
        return ft_case(case)
    return gg_case(case)


if __name__ == "__main__":
    run_cases(one)
