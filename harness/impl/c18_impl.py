"""C18 implementation runner: DiscreteFactorTable expressions and TabularGridGame transitions."""
import os, sys, json, math
sys.path.insert(0, os.path.dirname(os.path.abspath(__file__)))
from build import *

ACTIONS = [(0, 0), (1, 0), (-1, 0), (0, 1), (0, -1)]


# ---------------------------------------------------------------- factor tables
def mk_table(t):
    import numpy as np
    from msdm.core.distributions import DiscreteFactorTable as Pr
    rows = [json.loads(json.dumps(r)) for r in t["rows"]]
    if t.get("sup") == "tuple":
        rows = tuple(rows)
    ws = [fl(w) for w in t["w"]]
    if t.get("int_w") and all(w == int(w) and abs(w) < 2 ** 53 for w in ws):
        ws = [int(w) for w in ws]          # integer-typed probability table
    t["_rows_obj"], t["_ws_obj"] = rows, ws   # the caller's own objects, snapshotted by ft_case
    if t.get("ctor") == "uniform":
        return Pr(rows)
    if t.get("ctor") == "logits":
        ls = [(math.log(w) if w > 0 else -np.inf) for w in ws]
        t["_ws_obj"] = ls
        return Pr(rows, logits=np.array(ls) if t.get("arr") else ls)
    return Pr(rows, probs=np.array(ws) if t.get("arr") else (tuple(ws) if t.get("sup") == "tuple" else ws))


def touch(tb):
    """use a table before it is combined: cached views / derived tables must not change it"""
    _ = (tb.probs, tb.logits, len(tb), list(tb.items()), tb.keys())
    if len(tb.support) > 0:
        _ = (tb.prob(tb.support[0]), tb.logit(tb.support[-1]), tb.Z, tb & tb, tb * .5, tb.marginalize(lambda r: dict(r)))


def restrict_nested(r, paths):
    out = {}
    for p in paths:
        cur, ok = r, True
        for k in p:
            if isinstance(cur, dict) and k in cur:
                cur = cur[k]
            else:
                ok = False
                break
        if not ok:
            continue
        d = out
        for k in p[:-1]:
            d = d.setdefault(k, {})
        d[p[-1]] = cur
    return out


def num(c, as_int):
    x = fl(c)
    return int(x) if (as_int and x == int(x)) else x


def ev(e, objs, as_int=False):
    op = e[0]
    if op == "t":
        return objs[e[1]]          # the SAME table object wherever the expression mentions it
    if op == "and":
        return ev(e[1], objs, as_int) & ev(e[2], objs, as_int)
    if op == "or":
        return ev(e[1], objs, as_int) | ev(e[2], objs, as_int)
    if op == "mul":
        return ev(e[1], objs, as_int) * num(e[2], as_int)
    if op == "rmul":
        return num(e[2], as_int) * ev(e[1], objs, as_int)
    if op == "div":
        return ev(e[1], objs, as_int) / num(e[2], as_int)
    if op == "norm":
        return ev(e[1], objs, as_int).normalize()
    if op == "marg":
        paths = [tuple(p) for p in e[2]]
        inner = ev(e[1], objs, as_int)
        if len(inner.support) == 0:
            # msdm: marginalize of an empty table raises ValueError (zip(*()) unpack); outside the property,
            # mapped to the empty table here
            return inner
        return inner.marginalize(lambda r: restrict_nested(r, paths))
    raise ValueError(op)


def ser(tb):
    return ([json.dumps(r, sort_keys=True) for r in tb.support], [fj(x) for x in tb.logits], [fj(x) for x in tb.probs])


def ft_case(case):
    import numpy as np
    objs = [mk_table(t) for t in case["tables"]]
    caller0 = [(json.dumps(list(t["_rows_obj"])), json.dumps([fj(x) for x in t["_ws_obj"]])) for t in case["tables"]]
    if case.get("touch"):
        for tb in objs:
            touch(tb)
    before = [([json.dumps(r, sort_keys=True) for r in tb.support], list(map(float, tb.logits))) for tb in objs]
    try:
        t = ev(case["expr"], objs, case.get("int_scalars", False))
        t2 = ev(case["expr"], objs, case.get("int_scalars", False))     # same objects, second evaluation
    except AssertionError:
        return {"raised": "AssertionError"}
    first = ser(t)
    # the operands go on being used (other orders, other operators, a second different expression) ...
    try:
        for a in objs:
            for b2 in objs:
                _ = (b2 & a, a * 3)
                if len(a.support) > 0:
                    _ = a.marginalize(lambda r: dict(r))
            _ = a & t
    except AssertionError:
        pass
    # ... and the FIRST result, re-read afterwards, must still be what it was
    stale_ok = ser(t) == first
    after = [([json.dumps(r, sort_keys=True) for r in tb.support], list(map(float, tb.logits))) for tb in objs]
    caller1 = [(json.dumps(list(t["_rows_obj"])), json.dumps([fj(x) for x in t["_ws_obj"]])) for t in case["tables"]]
    rows = [json.loads(json.dumps(r)) for r in t.support]
    same = (list(map(lambda r: json.dumps(r, sort_keys=True), t.support)) == list(map(lambda r: json.dumps(r, sort_keys=True), t2.support))
            and [fj(x) for x in t.logits] == [fj(x) for x in t2.logits] and [fj(x) for x in t.probs] == [fj(x) for x in t2.probs])
    return {"rows": rows,
            "w": [fj(np.exp(l)) for l in t.logits],
            "p": [fj(p) for p in t.probs],
            "probq": [fj(t.prob(r)) for r in rows],
            "repeat_same": bool(same), "operands_unchanged": before == after and caller0 == caller1,
            "first_result_unchanged": bool(stale_ok)}


# ---------------------------------------------------------------- grid games
def pos_of(gg, s):
    if s.get("isTerminal", False):
        return None
    out = []
    for an in gg.agent_names:
        a = s[an]
        if a.get("type") != "agent" or a.get("name") != an or set(a.keys()) != {"type", "name", "x", "y"}:
            raise ValueError("unexpected agent record %r" % (a,))
        out.append([int(a["x"]), int(a["y"])])
    if set(s.keys()) != set(gg.agent_names):
        raise ValueError("unexpected state keys %r" % (list(s.keys()),))
    return out


def build_game(case):
    from msdm.domains.gridgame.tabulargridgame import TabularGridGame
    fp = fl(case["fence_p"])
    if case.get("fence_int") and fp == int(fp):
        fp = int(fp)
    kw = {"fence_success_prob": fp}
    for name in ("goal_reward", "step_cost", "collision_cost"):
        if case.get(name) is not None:
            v = fl(case[name])
            kw[name] = int(v) if (case.get("reward_int") and v == int(v)) else v
    if case.get("collision_prob") is not None:
        kw["collision_prob"] = fl(case["collision_prob"])
    goal = (("G0", ("A0",)), ("G1", ("A1",)), ("G", ("A0", "A1")))
    wall = (("[", "left"), ("]", "right"), ("^", "above"), ("_", "below"))
    fence = (("{", "left"), ("}", "right"), ("~", "above"), ("u", "below"))
    form = case.get("sym_form")
    if form == "dict":
        kw.update(goal_symbols=dict(goal), wall_symbols=dict(wall), fence_symbols=dict(fence))
    elif form == "tuple":
        kw.update(goal_symbols=goal, wall_symbols=wall, fence_symbols=fence, agent_symbols=("A0", "A1"), obstacle_symbols=("#",))
    return TabularGridGame(case["layout"], **kw)


def jas(gg, reverse=False):
    out = []
    for a0 in ACTIONS:
        for a1 in ACTIONS:
            items = [(gg.agent_names[0], {"x": a0[0], "y": a0[1]}), (gg.agent_names[1], {"x": a1[0], "y": a1[1]})]
            if reverse:       # other key order, inside and outside
                items = [(k, {"y": v["y"], "x": v["x"]}) for k, v in reversed(items)]
            out.append(dict(items))
    return out


def reordered(s):
    if s.get("isTerminal", False):
        return dict(s)
    return {k: {kk: s[k][kk] for kk in reversed(list(s[k].keys()))} for k in reversed(list(s.keys()))}


def game_facts(gg):
    return {"width": gg.width, "height": gg.height, "agent_names": list(gg.agent_names),
            "goals": [[g["x"], g["y"], list(g["owners"])] for g in gg.goals],
            "obstacles": [[o["x"], o["y"]] for o in gg.obstacles],
            "walls": [[w["start"]["x"], w["start"]["y"], w["end"]["x"], w["end"]["y"]] for w in gg.walls],
            "fences": [[w["start"]["x"], w["start"]["y"], w["end"]["x"], w["end"]["y"]] for w in gg.fences],
            "init": pos_of(gg, gg.initial_state_dist().support[0])}


def dser(gg, d):
    return [[pos_of(gg, ns), fj(p)] for ns, p in zip(d.support, d.probs)]


def gg_case(case):
    import copy
    from msdm.domains.gridgame import tabulargridgame as tgg
    problems = []

    def note(what, **kw):
        if len(problems) < 6:
            problems.append(dict(what=what, **kw))

    # other games built and used first IN THIS PROCESS (class-level / module-level caches must not leak);
    # their first answers are kept and re-queried after the main game was used
    warm = []
    for wc in case.get("warmup", []):
        wg = build_game(wc)
        s0 = wg.initial_state_dist().support[0]
        first = [dser(wg, wg.next_state_dist(s0, ja)) for ja in jas(wg)]
        wg.reachable_states(MAX_STATES=8)
        warm.append((wc, wg, s0, first))
    gg = build_game(case)
    facts = game_facts(gg)
    maxs = case.get("max_states", 60)
    allreach = list(gg.reachable_states(MAX_STATES=maxs))
    complete = len(allreach) <= maxs            # the search was not cut short
    reach = sorted(allreach, key=lambda d: json.dumps(d, sort_keys=True))
    nterm = sum(1 for s in reach if gg.is_terminal(s))
    reach = [s for s in reach if not gg.is_terminal(s)][:maxs]
    states = reach + [dict(tgg.TERMINALSTATE)]
    out = []
    JA = jas(gg)
    kept = []          # distribution OBJECTS of the first state, looked at again at the very end
    for k, s in enumerate(states):
        rec = {"s": pos_of(gg, s), "is_terminal": bool(gg.is_terminal(s)),
               "is_absorbing": (bool(gg.is_absorbing(s)) if not gg.is_terminal(s) else None), "tr": [], "rew": []}
        for j, ja in enumerate(JA):
            s_in, ja_in = copy.deepcopy(s), copy.deepcopy(ja)
            d = gg.next_state_dist(s_in, ja_in)
            if s_in != s or ja_in != ja or list(s_in.keys()) != list(s.keys()):
                note("next_state_dist changed the caller's state / joint-action dictionaries", state=rec["s"], ja_index=j)
            rec["tr"].append(dser(gg, d))
            if k == 0:
                kept.append((d, dser(gg, d)))
            if gg.is_terminal(s):
                rr = []
                for ns in d.support:
                    jr = gg.joint_rewards(s, ja, ns)
                    rr.append([fj(jr[an]) for an in gg.agent_names])
                rec["rew"].append(rr)
        out.append(rec)
    # second pass on the SAME game object, after everything was computed once, with the state and
    # joint-action dictionaries in the opposite key order: must give identical distributions
    mism = []
    JR = jas(gg, reverse=True)
    for k, s in enumerate(states):
        s2 = reordered(s)
        for j, ja in enumerate(JR):
            again = dser(gg, gg.next_state_dist(s2, ja))
            if again != out[k]["tr"][j] and len(mism) < 5:
                mism.append({"state": out[k]["s"], "ja_index": j, "first": out[k]["tr"][j], "again": again})
    # the game object and the module constant are what they were
    if game_facts(gg) != facts:
        note("the game's parsed layout changed while it was used")
    if tgg.TERMINALSTATE != {"isTerminal": True}:
        note("module constant TERMINALSTATE was modified", value=repr(tgg.TERMINALSTATE))
    for d, ser0 in kept:
        if dser(gg, d) != ser0:
            note("a distribution returned earlier changed after later calls")
    # the same problem constructed a second time in this process, after all of the above
    gg2 = build_game(case)
    if game_facts(gg2) != facts:
        note("second construction of the same game parses differently")
    for k, s in enumerate(states[:3] + states[-1:]):
        kk = k if k < len(states[:3]) else len(states) - 1
        for j, ja in enumerate(JA):
            if dser(gg2, gg2.next_state_dist(copy.deepcopy(s), copy.deepcopy(ja))) != out[kk]["tr"][j]:
                note("second construction of the same game answers differently", state=out[kk]["s"], ja_index=j)
                break
    # the warm-up games, asked again AFTER the main game was used: old answers, and a state not touched before
    for wc, wg, s0, first in warm:
        if [dser(wg, wg.next_state_dist(s0, ja)) for ja in jas(wg)] != first:
            note("an earlier game answers differently after another game was used", warmup=wc["layout"])
        fresh = build_game(wc)
        succ = [ns for ja in jas(wg)[1:6] for ns in wg.next_state_dist(s0, ja).support if not wg.is_terminal(ns) and ns != s0][:2]
        for ns in succ:
            for ja in jas(wg)[::4]:
                if dser(wg, wg.next_state_dist(ns, ja)) != dser(fresh, fresh.next_state_dist(copy.deepcopy(ns), ja)):
                    note("an earlier game differs from a fresh copy of itself on a state it had not been asked about", warmup=wc["layout"])
                    break
    return {"facts": facts, "states": out, "terminal_reachable": nterm > 0, "repeat_mismatch": mism,
            "reach_complete": bool(complete), "n_visited": len(allreach), "problems": problems}


def one(case, pl):
    if case["kind"] == "ft":
        return ft_case(case)
    return gg_case(case)


if __name__ == "__main__":
    run_cases(one)
