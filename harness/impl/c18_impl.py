"""C18 implementation runner: DiscreteFactorTable expressions and TabularGridGame transitions."""
import os, sys, json, math
sys.path.insert(0, os.path.dirname(os.path.abspath(__file__)))
from build import *

ACTIONS = [(0, 0), (1, 0), (-1, 0), (0, 1), (0, -1)]


# ---------------------------------------------------------------- factor tables
def mk_table(t):
    import numpy as np
    from msdm.core.distributions import DiscreteFactorTable as Pr
    rows = [json.loads(json.dumps(r)) for r in t["rows"]]
    ws = [fl(w) for w in t["w"]]
    if t.get("ctor") == "uniform":
        return Pr(rows)
    if t.get("ctor") == "logits":
        return Pr(rows, logits=[(math.log(w) if w > 0 else -np.inf) for w in ws])
    return Pr(rows, probs=ws)


def restrict_nested(r, paths):
    out = {}
    for p in paths:
        cur, ok = r, True
        for k in p:
            if isinstance(cur, dict) and k in cur:
                cur = cur[k]
            else:
                ok = False
                break
        if not ok:
            continue
        d = out
        for k in p[:-1]:
            d = d.setdefault(k, {})
        d[p[-1]] = cur
    return out


def ev(e, tabs):
    op = e[0]
    if op == "t":
        return mk_table(tabs[e[1]])
    if op == "and":
        return ev(e[1], tabs) & ev(e[2], tabs)
    if op == "or":
        return ev(e[1], tabs) | ev(e[2], tabs)
    if op == "mul":
        return ev(e[1], tabs) * fl(e[2])
    if op == "rmul":
        return fl(e[2]) * ev(e[1], tabs)
    if op == "div":
        return ev(e[1], tabs) / fl(e[2])
    if op == "norm":
        return ev(e[1], tabs).normalize()
    if op == "marg":
        paths = [tuple(p) for p in e[2]]
        inner = ev(e[1], tabs)
        if len(inner.support) == 0:
            # msdm: marginalize of an empty table raises ValueError (zip(*()) unpack); outside the property,
            # mapped to the empty table here
            return inner
        return inner.marginalize(lambda r: restrict_nested(r, paths))
    raise ValueError(op)


def ft_case(case):
    import numpy as np
    try:
        t = ev(case["expr"], case["tables"])
    except AssertionError:
        return {"raised": "AssertionError"}
    rows = [json.loads(json.dumps(r)) for r in t.support]
    return {"rows": rows,
            "w": [fj(np.exp(l)) for l in t.logits],
            "p": [fj(p) for p in t.probs],
            "probq": [fj(t.prob(r)) for r in rows]}


# ---------------------------------------------------------------- grid games
def pos_of(gg, s):
    if s.get("isTerminal", False):
        return None
    out = []
    for an in gg.agent_names:
        a = s[an]
        if a.get("type") != "agent" or a.get("name") != an or set(a.keys()) != {"type", "name", "x", "y"}:
            raise ValueError("unexpected agent record %r" % (a,))
        out.append([int(a["x"]), int(a["y"])])
    if set(s.keys()) != set(gg.agent_names):
        raise ValueError("unexpected state keys %r" % (list(s.keys()),))
    return out


def gg_case(case):
    from msdm.domains.gridgame.tabulargridgame import TabularGridGame, TERMINALSTATE
    kw = {"fence_success_prob": fl(case["fence_p"])}
    if case.get("collision_prob") is not None:
        kw["collision_prob"] = fl(case["collision_prob"])
    gg = TabularGridGame(case["layout"], **kw)
    facts = {"width": gg.width, "height": gg.height, "agent_names": list(gg.agent_names),
             "goals": [[g["x"], g["y"], list(g["owners"])] for g in gg.goals],
             "obstacles": [[o["x"], o["y"]] for o in gg.obstacles],
             "walls": [[w["start"]["x"], w["start"]["y"], w["end"]["x"], w["end"]["y"]] for w in gg.walls],
             "fences": [[w["start"]["x"], w["start"]["y"], w["end"]["x"], w["end"]["y"]] for w in gg.fences],
             "init": pos_of(gg, gg.initial_state_dist().support[0])}
    reach = list(gg.reachable_states(MAX_STATES=case.get("max_states", 60)))
    reach = sorted(reach, key=lambda d: json.dumps(d, sort_keys=True))
    nterm = sum(1 for s in reach if gg.is_terminal(s))
    reach = [s for s in reach if not gg.is_terminal(s)][:case.get("max_states", 60)]
    states = reach + [dict(TERMINALSTATE)]
    out = []
    for s in states:
        rec = {"s": pos_of(gg, s), "is_terminal": bool(gg.is_terminal(s)),
               "is_absorbing": (bool(gg.is_absorbing(s)) if not gg.is_terminal(s) else None), "tr": [], "rew": []}
        for a0 in ACTIONS:
            for a1 in ACTIONS:
                ja = {gg.agent_names[0]: {"x": a0[0], "y": a0[1]}, gg.agent_names[1]: {"x": a1[0], "y": a1[1]}}
                d = gg.next_state_dist(s, ja)
                rec["tr"].append([[pos_of(gg, ns), fj(p)] for ns, p in zip(d.support, d.probs)])
                if gg.is_terminal(s):
                    rr = []
                    for ns in d.support:
                        jr = gg.joint_rewards(s, ja, ns)
                        rr.append([fj(jr[an]) for an in gg.agent_names])
                    rec["rew"].append(rr)
        out.append(rec)
    return {"facts": facts, "states": out, "terminal_reachable": nterm > 0}


def one(case, pl):
    if case["kind"] == "ft":
        return ft_case(case)
    return gg_case(case)


if __name__ == "__main__":
    run_cases(one)
