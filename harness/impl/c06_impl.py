"""C06 implementation runner: every view msdm offers of a tabular MDP defined by tables over
arbitrary hashable labels — reachable_states (with the pop order recorded through the calls to
actions()), state/action lists, arrays, tables, boolean vectors, the from_matrices round trip,
QuickMDP / QuickTabularMDP wrappers, and ValueIteration on original vs rebuilt vs wrapped."""
import os, sys
sys.path.insert(0, os.path.dirname(os.path.abspath(__file__)))
from build import *


def dec(e):
    """JSON label -> hashable Python object"""
    from frozendict import frozendict
    k, v = e
    if k == "i":
        return int(v)
    if k == "s":
        return str(v)
    if k == "f":
        return float(v)
    if k == "b":
        return bool(v)
    if k == "t":
        return tuple(dec(x) for x in v)
    if k == "d":
        return frozendict({kk: dec(vv) for kk, vv in v})
    raise ValueError(k)


def err(e):
    return {"error": type(e).__name__ + ": " + str(e)[:200]}


def guarded(f):
    try:
        return f()
    except BaseException as e:
        if isinstance(e, (KeyboardInterrupt, SystemExit)):
            raise
        return err(e)


def arr(x):
    import numpy as np
    x = np.asarray(x)
    if x.dtype == bool:
        return x.tolist()
    if x.ndim == 1:
        return [fj(v) for v in x]
    return [arr(r) for r in x]


def view(mdp, sid, aid, tables=True):
    """all observable views; every attribute guarded separately"""
    out = {}
    out["state_list"] = guarded(lambda: [sid[s] for s in mdp.state_list])
    out["action_list"] = guarded(lambda: [aid[a] for a in mdp.action_list])
    out["state_list_type"] = guarded(lambda: type(mdp.state_list).__name__)
    for name, attr in [("tf", "transition_matrix"), ("rf", "reward_matrix"), ("am", "action_matrix"),
                       ("sarf", "state_action_reward_matrix"), ("s0", "initial_state_vec"),
                       ("abs", "absorbing_state_vec"), ("dead", "dead_end_state_vec"),
                       ("unable", "_unable_to_reach_absorbing"), ("reach_vec", "reachable_state_vec")]:
        out[name] = guarded(lambda: arr(getattr(mdp, attr)))
    out["gamma"] = guarded(lambda: fj(mdp.discount_rate))
    out["writeable"] = guarded(lambda: [bool(getattr(mdp, a).flags.writeable) for a in
                                        ("transition_matrix", "reward_matrix", "action_matrix", "initial_state_vec")])
    if tables:
        def tab3(t):
            sl, al = list(mdp.state_list), list(mdp.action_list)
            return [[[fj(t[s][a][ns]) for ns in sl] for a in al] for s in sl]

        def tab2(t):
            sl, al = list(mdp.state_list), list(mdp.action_list)
            return [[fj(t[s][a]) for a in al] for s in sl]
        out["tf_table"] = guarded(lambda: tab3(mdp.transition_table))
        out["rf_table"] = guarded(lambda: tab3(mdp.reward_table))
        out["sarf_table"] = guarded(lambda: tab2(mdp.state_action_reward_table))
        out["table_lists"] = guarded(lambda: [
            [sid[s] for s in mdp.transition_table.state_list], [aid[a] for a in mdp.transition_table.action_list],
            [sid[s] for s in mdp.reward_table.state_list], [aid[a] for a in mdp.reward_table.action_list]])
    return out


def plan(mdp, sid, aid, vi, planner=None):
    from msdm.algorithms.valueiteration import ValueIteration
    planner = planner or ValueIteration(max_iterations=int(vi["max_iterations"]), max_residual=fl(vi["max_residual"]))
    r = planner.plan_on(mdp)
    sl, al = list(mdp.state_list), list(mdp.action_list)
    return {"V": {str(sid[s]): fj(r.state_value[s]) for s in sl},
            "Q": {"%d,%d" % (sid[s], aid[a]): fj(r.action_value[s][a]) for s in sl for a in al},
            "pi": {"%d,%d" % (sid[s], aid[a]): fj(r.policy[s][a]) for s in sl for a in al},
            "initial_value": fj(r.initial_value), "iterations": int(r.iterations), "converged": bool(r.converged)}


_TABLE_CLS = []


def get_table_mdp_class():
    """ONE class per process, tables on the instance: successive cases (same labels, different numbers) are
    different objects of the same class"""
    if _TABLE_CLS:
        return _TABLE_CLS[0]
    from msdm.core.mdp.tabularmdp import TabularMarkovDecisionProcess

    class TableMDP(TabularMarkovDecisionProcess):
        def __init__(self, tb):
            self.tb = tb
            self.discount_rate = tb["gamma"]

        def next_state_dist(self, s, a):
            return self.tb["trans"][(s, a)]

        def reward(self, s, a, ns):
            tb = self.tb
            return tb["rconst"] if tb["rconst"] is not None else tb["rew"].get((s, a, ns), 0.0)

        def actions(self, s):
            self.tb["log"].append(self.tb["sid"][s])
            return self.tb["acts"][s]

        def initial_state_dist(self):
            return self.tb["init"]

        def is_absorbing(self, s):
            return self.tb["absb"][s]
    _TABLE_CLS.append(TableMDP)
    return TableMDP


def native_dist(d):
    """the same distribution as msdm's Deterministic / Uniform class when it has that shape"""
    from msdm.core.distributions import DictDistribution
    from msdm.core.distributions.dictdistribution import DeterministicDistribution, UniformDistribution
    items = list(d.items())
    if len(items) == 1 and items[0][1] == 1.0:
        return DeterministicDistribution(items[0][0])
    if len(items) >= 2 and all(p == 1.0 / len(items) for _, p in items):
        return UniformDistribution([e for e, _ in items])
    return d


def one(case, pl):
    from msdm.core.mdp.tabularmdp import TabularMarkovDecisionProcess
    from msdm.core.mdp.quickmdp import QuickTabularMDP, QuickMDP
    from msdm.core.distributions import DictDistribution
    c = case["mdp"]
    S = [dec(e) for e in case["slabels"]]
    A = [dec(e) for e in case["alabels"]]
    sid = {s: i for i, s in enumerate(S)}
    aid = {a: i for i, a in enumerate(A)}
    assert len(sid) == len(S) and len(aid) == len(A)
    trans = {}
    for k, row in c["trans"].items():
        s, a = map(int, k.split(","))
        trans[(S[s], A[a])] = DictDistribution({S[ns]: fl(p) for ns, p in row})
    rconst = c.get("reward_const")
    rew = {}
    for k, r in c["reward"].items():
        s, a, ns = map(int, k.split(","))
        rew[(S[s], A[a], S[ns])] = fl(r)
    if case.get("int_rewards"):            # integer-valued rewards as Python ints
        rew = {k: (int(v) if float(v).is_integer() else v) for k, v in rew.items()}
    seq = list if case.get("actions_as_list") else tuple
    acts = {S[s]: seq(A[a] for a in al) for s, al in enumerate(c["actions"])}
    if case.get("share_objects"):
        # ONE list object for all states with the same actions, ONE distribution object for all equal rows
        pool = {}
        acts = {s: pool.setdefault(tuple(v), v) for s, v in acts.items()}
        dpool = {}
        trans = {k: dpool.setdefault(tuple(d.items()), d) for k, d in trans.items()}
    absb = {S[s]: bool(x) for s, x in enumerate(c["absorbing"])}
    init = DictDistribution({S[s]: fl(p) for s, p in c["init"]})
    gamma = int(Fraction(c["gamma"])) if case.get("gamma_int") else fl(c["gamma"])
    if case.get("dist_repr") == "native":
        trans = {k: native_dist(d) for k, d in trans.items()}
        init = native_dist(init)
    log = []
    tb = {"trans": trans, "rew": rew, "rconst": fl(rconst) if rconst is not None else None, "acts": acts,
          "absb": absb, "init": init, "gamma": gamma, "log": log, "sid": sid}

    TableMDP = get_table_mdp_class()

    def mk():
        m = TableMDP(tb)
        eseq = list if case.get("explicit_as_list") else tuple
        if case.get("explicit_states") is not None:
            m._state_list = eseq(S[i] for i in case["explicit_states"])
        if case.get("explicit_actions") is not None:
            m._action_list = eseq(A[i] for i in case["explicit_actions"])
        return m

    def snapshot():
        snap = {"trans": {k: list(d.items()) for k, d in trans.items()}, "acts": {k: list(v) for k, v in acts.items()},
                "acts_types": {k: type(v).__name__ for k, v in acts.items()}, "init": list(init.items()),
                "rew": dict(rew), "absb": dict(absb)}
        return snap
    snap0 = snapshot()
    res = {}
    mdp = mk()
    user_lists = {"states": getattr(mdp, "_state_list", None), "actions": getattr(mdp, "_action_list", None)}
    user_lists0 = {k: (type(v).__name__, list(v)) if v is not None else None for k, v in user_lists.items()}
    # reachability first (cached under the same key state_list uses), with pop order
    runs = []
    for k in case.get("reach_order") or ([None] + list(case.get("cutoffs", []))):
        del log[:]
        try:
            kk = float(k) if (k is not None and case.get("cutoff_float")) else k
            pos = bool(case.get("cutoff_positional"))
            r = mdp.reachable_states() if k is None else (mdp.reachable_states(kk) if pos else mdp.reachable_states(max_states=kk))
            run = {"max": k, "result": sorted(sid[s] for s in r), "size": len(r), "trace": list(log),
                   "type": type(r).__name__}
            # second call with the same argument (cache hit) must give the same set
            r2 = mdp.reachable_states() if k is None else (mdp.reachable_states(kk) if pos else mdp.reachable_states(max_states=kk))
            run["again"] = sorted(sid[s] for s in r2)
            runs.append(run)
        except BaseException as e:
            if isinstance(e, (KeyboardInterrupt, SystemExit)):
                raise
            runs.append(dict(err(e), max=k))
    res["reach"] = runs
    res["orig"] = view(mdp, sid, aid)
    res["orig_again"] = view(mdp, sid, aid)        # every cached view read a second time

    # rebuild from the arrays
    def rebuild():
        m2 = TabularMarkovDecisionProcess.from_matrices(
            state_list={"list": list, "tuple": tuple}.get(case.get("fm_lists"), lambda x: x)(mdp.state_list),
            action_list={"list": list, "tuple": tuple}.get(case.get("fm_lists"), lambda x: x)(mdp.action_list),
            initial_state_vec=mdp.initial_state_vec, transition_matrix=mdp.transition_matrix,
            action_matrix=mdp.action_matrix, reward_matrix=mdp.reward_matrix,
            absorbing_state_vec=mdp.absorbing_state_vec, discount_rate=mdp.discount_rate)
        return m2
    m2 = guarded(rebuild)
    if isinstance(m2, dict):
        res["rebuilt"] = m2
    else:
        res["rebuilt"] = view(m2, sid, aid)
        res["rebuilt"]["reach"] = guarded(lambda: sorted(sid[s] for s in m2.reachable_states()))
        res["rebuilt"]["class"] = type(m2).__name__
        # the rebuilt functions, read back pointwise on the listed states
        def funcs():
            out = {}
            for s in m2.state_list:
                out[str(sid[s])] = {"actions": [aid[a] for a in m2.actions(s)], "absorbing": bool(m2.is_absorbing(s)),
                                    "next": {str(aid[a]): sorted([sid[ns], fj(p)] for ns, p in m2.next_state_dist(s, a).items())
                                             for a in m2.actions(s)}}
            out["init"] = sorted([sid[s], fj(p)] for s, p in m2.initial_state_dist().items())
            return out
        res["rebuilt"]["funcs"] = guarded(funcs)

    # from_matrices on hand-made dense arrays that are NOT in canonical form (rows under unavailable actions,
    # rewards on impossible transitions): the resulting MDP's views against its own functions
    raw = case.get("raw")
    if raw:
        import numpy as np

        def fa(x):
            return np.array([[[fl(v) for v in r] for r in mm] for mm in x], dtype=float).reshape(
                (len(raw["sl"]), len(raw["al"]), len(raw["sl"])))

        dt = {"float32": np.float32, "int": np.int64}.get(case.get("raw_dtype"), float)
        raw_in = {}

        def build_raw():
            conv = {"list": list, "tuple": tuple}.get(case.get("fm_lists"), list)
            raw_in.update(
                state_list=conv(S[i] for i in raw["sl"]), action_list=conv(A[j] for j in raw["al"]),
                initial_state_vec=np.array([fl(v) for v in raw["s0"]], dtype=float).astype(dt),
                transition_matrix=fa(raw["tf"]).astype(dt),
                action_matrix=np.array([[fl(v) for v in r] for r in raw["am"]], dtype=float).reshape((len(raw["sl"]), len(raw["al"]))).astype(dt),
                reward_matrix=fa(raw["rf"]).astype(dt),
                absorbing_state_vec=np.array(raw["abs"], dtype=bool))
            raw_in["copy"] = {k: (list(v) if isinstance(v, (list, tuple)) else v.copy()) for k, v in raw_in.items()}
            return TabularMarkovDecisionProcess.from_matrices(discount_rate=gamma, **{k: v for k, v in raw_in.items() if k != "copy"})

        def raw_inputs_mutated():
            out = []
            for k, v0 in raw_in.get("copy", {}).items():
                v = raw_in[k]
                if isinstance(v0, list):
                    if list(v) != v0:
                        out.append(k)
                elif not (np.array_equal(v, v0) and v.dtype == v0.dtype and v.flags.writeable):
                    out.append(k)
            return out

        def funcs_of(mm):
            out = {}
            for s in mm.state_list:
                out[str(sid[s])] = {"actions": [aid[a] for a in mm.actions(s)], "absorbing": bool(mm.is_absorbing(s)),
                                    "next": {str(aid[a]): sorted([sid[ns], fj(p)] for ns, p in mm.next_state_dist(s, a).items())
                                             for a in mm.actions(s)},
                                    "reward": {"%d,%d" % (aid[a], sid[ns]): fj(mm.reward(s, a, ns))
                                               for a in mm.actions(s) for ns, p in mm.next_state_dist(s, a).items()}}
            out["init"] = sorted([sid[s], fj(p)] for s, p in mm.initial_state_dist().items())
            return out
        mr = guarded(build_raw)
        if isinstance(mr, dict):
            res["raw"] = mr
        else:
            # functions first (before any cached view is touched), then the views, then the functions again
            rr = {"funcs": guarded(lambda: funcs_of(mr))}
            rr.update(view(mr, sid, aid))
            rr["funcs_after"] = guarded(lambda: funcs_of(mr))
            rr["reach"] = guarded(lambda: sorted(sid[s] for s in mr.reachable_states()))
            res["raw"] = rr
            def raw_quick():
                return QuickTabularMDP(next_state_dist=mr.next_state_dist, reward=mr.reward, actions=mr.actions,
                                       initial_state_dist=mr.initial_state_dist, is_absorbing=mr.is_absorbing,
                                       discount_rate=mr.discount_rate)
            mrq = guarded(raw_quick)
            res["raw_quick"] = mrq if isinstance(mrq, dict) else view(mrq, sid, aid, tables=False)
            if not isinstance(mrq, dict):
                res["raw_quick"]["reach"] = guarded(lambda: sorted(sid[s] for s in mrq.reachable_states()))
            # a second round trip from the views it serves, and planning on both
            def again():
                return TabularMarkovDecisionProcess.from_matrices(
                    state_list=mr.state_list, action_list=mr.action_list, initial_state_vec=mr.initial_state_vec,
                    transition_matrix=mr.transition_matrix, action_matrix=mr.action_matrix, reward_matrix=mr.reward_matrix,
                    absorbing_state_vec=mr.absorbing_state_vec, discount_rate=mr.discount_rate)
            mrr = guarded(again)
            res["raw_rebuilt"] = mrr if isinstance(mrr, dict) else view(mrr, sid, aid, tables=False)
            if case.get("vi"):
                res["raw_plan"] = {"raw": guarded(lambda: plan(mr, sid, aid, case["vi"]))}
                if not isinstance(mrr, dict):
                    res["raw_plan"]["rebuilt"] = guarded(lambda: plan(mrr, sid, aid, case["vi"]))
                if not isinstance(mrq, dict):
                    res["raw_plan"]["quick"] = guarded(lambda: plan(mrq, sid, aid, case["vi"]))
            res["raw_inputs_mutated"] = guarded(raw_inputs_mutated)

    # quick constructors wrapping the five functions (fresh un-instrumented source object)
    src = TableMDP(dict(tb, log=[]))
    def quick_tab():
        return QuickTabularMDP(next_state_dist=src.next_state_dist, reward=src.reward, actions=src.actions,
                               initial_state_dist=src.initial_state_dist, is_absorbing=src.is_absorbing,
                               discount_rate=src.discount_rate)
    mq = guarded(quick_tab)
    res["quick"] = mq if isinstance(mq, dict) else view(mq, sid, aid, tables=False)
    if not isinstance(mq, dict):
        res["quick"]["reach"] = guarded(lambda: sorted(sid[s] for s in mq.reachable_states()))
    # ... and wrapping the functions of the object whose cached views were all touched above
    def quick_used():
        return QuickTabularMDP(next_state_dist=mdp.next_state_dist, reward=mdp.reward, actions=mdp.actions,
                               initial_state_dist=mdp.initial_state_dist, is_absorbing=mdp.is_absorbing,
                               discount_rate=mdp.discount_rate)
    mu = guarded(quick_used)
    res["quick_used"] = mu if isinstance(mu, dict) else view(mu, sid, aid, tables=False)

    # constant / deterministic variants of the quick constructor
    qv = case.get("qv")
    if qv:
        def quick_var():
            kw = {}
            if qv.get("det"):
                kw["next_state"] = lambda s, a: next(iter(trans[(s, a)].support))
            else:
                kw["next_state_dist"] = src.next_state_dist
            kw["reward"] = fl(rconst) if qv.get("const_reward") else src.reward
            kw["actions"] = acts[S[0]] if qv.get("const_actions") else src.actions
            if qv.get("init_state"):
                kw["initial_state"] = next(iter(init.support))
            elif qv.get("init_callable"):
                kw["initial_state_dist"] = src.initial_state_dist
            else:
                kw["initial_state_dist"] = init
            return QuickTabularMDP(is_absorbing=src.is_absorbing, discount_rate=gamma, **kw)
        mv = guarded(quick_var)
        res["quick_var"] = mv if isinstance(mv, dict) else view(mv, sid, aid, tables=False)
        if not isinstance(mv, dict):
            res["quick_var"]["reach"] = guarded(lambda: sorted(sid[s] for s in mv.reachable_states()))

    # plain QuickMDP (not tabular): functional interface + reachability only
    def quick_plain():
        m3 = QuickMDP(next_state_dist=src.next_state_dist, reward=src.reward, actions=src.actions,
                      initial_state_dist=init, is_absorbing=src.is_absorbing, discount_rate=src.discount_rate)
        ok = True
        for s in S:
            ok &= tuple(m3.actions(s)) == tuple(acts[s]) and bool(m3.is_absorbing(s)) == absb[s]
            for a in acts[s]:
                d = m3.next_state_dist(s, a)
                ok &= dict(d.items()) == dict(trans[(s, a)].items())
                for ns, _ in d.items():
                    ok &= m3.reward(s, a, ns) == src.reward(s, a, ns)
        ok &= dict(m3.initial_state_dist().items()) == dict(init.items())
        return {"funcs_equal": bool(ok), "gamma": fj(m3.discount_rate),
                "reach": sorted(sid[s] for s in m3.reachable_states()),
                "has_state_list": hasattr(m3, "state_list")}
    res["quick_plain"] = guarded(quick_plain)

    # QuickMDP's two assertions (error paths) and falsy deterministic arguments
    def assertions():
        out = []
        for kw in ({"initial_state": S[0]}, {"next_state": lambda s, a: s}):
            try:
                QuickMDP(reward=0.0, actions=(), is_absorbing=lambda s: False, **kw)
                out.append("no error")
            except AssertionError:
                out.append("AssertionError")
        return out
    res["quick_assertions"] = guarded(assertions)

    # tables.py constructors and the lookup error path
    def table_paths():
        from msdm.core.mdp.tables import StateTable, StateActionTable, StateActionIndexError
        sl, al = list(mdp.state_list), list(mdp.action_list)
        out = {}
        t1 = StateTable.from_dict({s: float(mdp.initial_state_vec[i]) for i, s in enumerate(sl)})
        out["state_table_from_dict"] = [fj(t1[s]) for s in sl] == [fj(x) for x in mdp.initial_state_vec] \
            and list(t1.state_list) == sl
        t2 = StateTable.from_state_list(mdp.state_list, mdp.initial_state_vec)
        out["state_table_from_list"] = [fj(t2[s]) for s in sl] == [fj(x) for x in mdp.initial_state_vec]
        if al:
            nested = {s: {a: float(mdp.state_action_reward_matrix[i, j]) for j, a in enumerate(al) if mdp.action_matrix[i, j]}
                      for i, s in enumerate(sl)}
            t3 = StateActionTable.from_dict(nested, default_value=-7.0)
            out["state_action_table_from_dict"] = list(t3.state_list) == sl and set(t3.action_list) <= set(al) and all(
                fj(t3[s][a]) == (fj(mdp.state_action_reward_matrix[i, j]) if mdp.action_matrix[i, j] else fj(-7.0))
                for i, s in enumerate(sl) for j, a in enumerate(al) if a in t3.action_list)
        missing = ("no", "such", "state", 1)
        try:
            mdp.transition_table[missing]
            out["missing_key"] = "no error"
        except StateActionIndexError:
            out["missing_key"] = "StateActionIndexError"
        try:
            StateActionTable.from_state_list(sl, [0.0] * len(sl))
            out["from_state_list_2d"] = "no error"
        except NotImplementedError:
            out["from_state_list_2d"] = "NotImplementedError"
        return out
    res["table_paths"] = guarded(table_paths)

    # planning on original, rebuilt, wrapped
    vi = case.get("vi")
    if vi:
        res["plan"] = {"orig": guarded(lambda: plan(mdp, sid, aid, vi))}
        if not isinstance(m2, dict):
            res["plan"]["rebuilt"] = guarded(lambda: plan(m2, sid, aid, vi))
        if not isinstance(mq, dict):
            res["plan"]["quick"] = guarded(lambda: plan(mq, sid, aid, vi))
        # one planner object reused on the rebuilt MDP and then on the original (same labels)
        def shared():
            from msdm.algorithms.valueiteration import ValueIteration
            pl_ = ValueIteration(max_iterations=int(vi["max_iterations"]), max_residual=fl(vi["max_residual"]))
            return [guarded(lambda: plan(x, sid, aid, vi, planner=pl_)) for x in ([m2] if not isinstance(m2, dict) else []) + [mdp]]
        res["plan"]["shared"] = guarded(shared)
    # (5) one planner object for every case of this process (different sizes / labels), against a fresh one
    if vi:
        def global_shared():
            from msdm.algorithms.valueiteration import ValueIteration
            key = (int(vi["max_iterations"]), vi["max_residual"])
            if key not in _GLOBAL_PLANNER:
                _GLOBAL_PLANNER[key] = ValueIteration(max_iterations=key[0], max_residual=fl(key[1]))
            return plan(mdp, sid, aid, vi, planner=_GLOBAL_PLANNER[key])
        res["plan"]["global_shared"] = guarded(global_shared)
    # the same problem constructed again after all the unrelated constructions above, and the FIRST object's
    # views re-read after that
    late = mk()
    res["late"] = {"new_object": view(late, sid, aid), "first_object_again": view(mdp, sid, aid)}
    # (4) nothing the caller handed over may have been changed
    snap1 = snapshot()
    mutated = [k for k in snap0 if snap0[k] != snap1[k]]
    user_lists1 = {k: (type(v).__name__, list(v)) if v is not None else None for k, v in user_lists.items()}
    if user_lists1 != user_lists0:
        mutated.append("explicit_lists")
    res["inputs_mutated"] = mutated
    bc = case.get("big_chain")
    if bc:
        res["big_chain"] = guarded(lambda: big_chain(bc))
    bm = case.get("big_model")
    if bm:
        res["big_model"] = guarded(lambda: big_model(bm))
    return res


def big_model_row(spec, s, a, fp, fq):
    """next-state items of the structured large model (same formula as harness/c06.py:big_model_row)"""
    S, kind = spec["S"], spec["kind"]
    if kind == "corridor":
        if s == S - 1:
            return [(s, 1.0)]
        return [(min(s + a + 1, S - 1), fp[a]), (s, fq[a])]
    if kind == "ring":
        return [((s + a + 1) % S, fp[a]), (s, fq[a])]
    t, u = (s * spec["mult"][a] + spec["off"][a]) % S, (s + a + 1) % S
    return [(t, 1.0)] if t == u else [(t, fp[a]), (u, fq[a])]


def big_model(spec):
    """a structured MDP with |S|^2 |A| above 2^22 / 2^24: the dense arrays, reported sparsely"""
    import numpy as np
    from msdm.core.mdp.quickmdp import QuickTabularMDP
    from msdm.core.distributions import DictDistribution
    S, A = spec["S"], spec["A"]
    fp, fq, fr = [fl(x) for x in spec["p"]], [fl(x) for x in spec["q"]], [fl(x) for x in spec["r"]]
    acts_full, acts_less = tuple(range(A)), tuple(range(A - 1))
    m = QuickTabularMDP(
        next_state_dist=lambda s, a: DictDistribution(big_model_row(spec, s, a, fp, fq)),
        reward=lambda s, a, ns: fr[a] if ns != s else 0.0,
        actions=lambda s: acts_less if (A > 1 and s % 7 == 3) else acts_full,
        initial_state_dist=DictDistribution({0: fl(spec["init"][0]), 1: fl(spec["init"][1])}),
        is_absorbing=lambda s: spec["kind"] == "corridor" and s == S - 1,
        discount_rate=fl(spec["gamma"]))
    out = {"state_list_ok": list(m.state_list) == list(range(S)), "action_list": [int(a) for a in m.action_list],
           "reach": len(m.reachable_states())}
    tf = m.transition_matrix
    out["shape"] = list(tf.shape)
    nz = np.nonzero(tf)
    out["tf_nnz"] = [[int(i), int(j), int(k), fj(tf[i, j, k])] for i, j, k in zip(*nz)]
    am = m.action_matrix
    out["am_zero"] = [[int(i), int(j)] for i, j in zip(*np.nonzero(am == 0))]
    out["am_values"] = sorted(set(float(x) for x in np.unique(am)))
    rs = tf.sum(-1, dtype=np.float64)
    out["rowsum_dev"] = fj(float(np.abs(rs[am != 0] - 1).max()))
    out["unavailable_rows_zero"] = bool((rs[am == 0] == 0).all())
    rf = m.reward_matrix
    nzr = np.nonzero(rf)
    out["rf_nnz"] = [[int(i), int(j), int(k), fj(rf[i, j, k])] for i, j, k in zip(*nzr)]
    out["sarf"] = [[fj(x) for x in row] for row in m.state_action_reward_matrix]
    out["s0_nnz"] = [[int(i), fj(m.initial_state_vec[i])] for i in np.nonzero(m.initial_state_vec)[0]]
    out["abs_true"] = [int(i) for i in np.nonzero(m.absorbing_state_vec)[0]]
    out["dead_true"] = [int(i) for i in np.nonzero(m.dead_end_state_vec)[0]]
    out["tt"] = fj(m.transition_table[S // 2][0][big_model_row(spec, S // 2, 0, fp, fq)[0][0]])
    out["gamma"] = fj(m.discount_rate)
    return out


_GLOBAL_PLANNER = {}


def big_chain(bc):
    """reachability and list inference on a corridor of more than 1000 states (no arrays: n^3 entries)"""
    from msdm.core.mdp.quickmdp import QuickTabularMDP
    from msdm.core.distributions import DictDistribution
    L = bc["L"]
    m = QuickTabularMDP(next_state_dist=lambda s, a: DictDistribution({min(s + 1, L - 1): 0.75, s: 0.25}) if s < L - 1 else DictDistribution({s: 1.0}),
                        reward=-1, actions=lambda s: ("go",) if s % 2 else ("go", "run"), initial_state_dist=DictDistribution({0: 1.0}),
                        is_absorbing=lambda s: s == L - 1, discount_rate=1.0)
    out = {"cut": [len(m.reachable_states(max_states=k)) for k in bc["cutoffs"]]}
    full = m.reachable_states()
    out["full"] = len(full)
    out["full_ok"] = full == set(range(L))
    out["state_list_ok"] = list(m.state_list) == list(range(L))
    out["action_list"] = list(m.action_list)
    return out


if __name__ == "__main__":
    run_cases(one)
