"""C06 implementation runner: every view msdm offers of a tabular MDP defined by tables over
arbitrary hashable labels — reachable_states (with the pop order recorded through the calls to
actions()), state/action lists, arrays, tables, boolean vectors, the from_matrices round trip,
QuickMDP / QuickTabularMDP wrappers, and ValueIteration on original vs rebuilt vs wrapped."""
import os, sys
sys.path.insert(0, os.path.dirname(os.path.abspath(__file__)))
from build import *


def dec(e):
    """JSON label -> hashable Python object"""
    from frozendict import frozendict
    k, v = e
    if k == "i":
        return int(v)
    if k == "s":
        return str(v)
    if k == "t":
        return tuple(dec(x) for x in v)
    if k == "d":
        return frozendict({kk: dec(vv) for kk, vv in v})
    raise ValueError(k)


def err(e):
    return {"error": type(e).__name__ + ": " + str(e)[:200]}


def guarded(f):
    try:
        return f()
    except BaseException as e:
        if isinstance(e, (KeyboardInterrupt, SystemExit)):
            raise
        return err(e)


def arr(x):
    import numpy as np
    x = np.asarray(x)
    if x.dtype == bool:
        return x.tolist()
    if x.ndim == 1:
        return [fj(v) for v in x]
    return [arr(r) for r in x]


def view(mdp, sid, aid, tables=True):
    """all observable views; every attribute guarded separately"""
    out = {}
    out["state_list"] = guarded(lambda: [sid[s] for s in mdp.state_list])
    out["action_list"] = guarded(lambda: [aid[a] for a in mdp.action_list])
    out["state_list_type"] = guarded(lambda: type(mdp.state_list).__name__)
    for name, attr in [("tf", "transition_matrix"), ("rf", "reward_matrix"), ("am", "action_matrix"),
                       ("sarf", "state_action_reward_matrix"), ("s0", "initial_state_vec"),
                       ("abs", "absorbing_state_vec"), ("dead", "dead_end_state_vec"),
                       ("unable", "_unable_to_reach_absorbing"), ("reach_vec", "reachable_state_vec")]:
        out[name] = guarded(lambda: arr(getattr(mdp, attr)))
    out["gamma"] = guarded(lambda: fj(mdp.discount_rate))
    out["writeable"] = guarded(lambda: [bool(getattr(mdp, a).flags.writeable) for a in
                                        ("transition_matrix", "reward_matrix", "action_matrix", "initial_state_vec")])
    if tables:
        def tab3(t):
            sl, al = list(mdp.state_list), list(mdp.action_list)
            return [[[fj(t[s][a][ns]) for ns in sl] for a in al] for s in sl]

        def tab2(t):
            sl, al = list(mdp.state_list), list(mdp.action_list)
            return [[fj(t[s][a]) for a in al] for s in sl]
        out["tf_table"] = guarded(lambda: tab3(mdp.transition_table))
        out["rf_table"] = guarded(lambda: tab3(mdp.reward_table))
        out["sarf_table"] = guarded(lambda: tab2(mdp.state_action_reward_table))
        out["table_lists"] = guarded(lambda: [
            [sid[s] for s in mdp.transition_table.state_list], [aid[a] for a in mdp.transition_table.action_list],
            [sid[s] for s in mdp.reward_table.state_list], [aid[a] for a in mdp.reward_table.action_list]])
    return out


def plan(mdp, sid, aid, vi):
    from msdm.algorithms.valueiteration import ValueIteration
    r = ValueIteration(max_iterations=int(vi["max_iterations"]), max_residual=fl(vi["max_residual"])).plan_on(mdp)
    sl, al = list(mdp.state_list), list(mdp.action_list)
    return {"V": {str(sid[s]): fj(r.state_value[s]) for s in sl},
            "Q": {"%d,%d" % (sid[s], aid[a]): fj(r.action_value[s][a]) for s in sl for a in al},
            "pi": {"%d,%d" % (sid[s], aid[a]): fj(r.policy[s][a]) for s in sl for a in al},
            "initial_value": fj(r.initial_value), "iterations": int(r.iterations), "converged": bool(r.converged)}


def one(case, pl):
    from msdm.core.mdp.tabularmdp import TabularMarkovDecisionProcess
    from msdm.core.mdp.quickmdp import QuickTabularMDP, QuickMDP
    from msdm.core.distributions import DictDistribution
    c = case["mdp"]
    S = [dec(e) for e in case["slabels"]]
    A = [dec(e) for e in case["alabels"]]
    sid = {s: i for i, s in enumerate(S)}
    aid = {a: i for i, a in enumerate(A)}
    assert len(sid) == len(S) and len(aid) == len(A)
    trans = {}
    for k, row in c["trans"].items():
        s, a = map(int, k.split(","))
        trans[(S[s], A[a])] = DictDistribution({S[ns]: fl(p) for ns, p in row})
    rconst = c.get("reward_const")
    rew = {}
    for k, r in c["reward"].items():
        s, a, ns = map(int, k.split(","))
        rew[(S[s], A[a], S[ns])] = fl(r)
    acts = {S[s]: tuple(A[a] for a in al) for s, al in enumerate(c["actions"])}
    absb = {S[s]: bool(x) for s, x in enumerate(c["absorbing"])}
    init = DictDistribution({S[s]: fl(p) for s, p in c["init"]})
    gamma = int(Fraction(c["gamma"])) if case.get("gamma_int") else fl(c["gamma"])
    log = []

    class TableMDP(TabularMarkovDecisionProcess):
        def __init__(self):
            self.discount_rate = gamma

        def next_state_dist(self, s, a):
            return trans[(s, a)]

        def reward(self, s, a, ns):
            return fl(rconst) if rconst is not None else rew.get((s, a, ns), 0.0)

        def actions(self, s):
            log.append(sid[s])
            return acts[s]

        def initial_state_dist(self):
            return init

        def is_absorbing(self, s):
            return absb[s]

    def mk():
        m = TableMDP()
        if case.get("explicit_states") is not None:
            m._state_list = tuple(S[i] for i in case["explicit_states"])
        if case.get("explicit_actions") is not None:
            m._action_list = tuple(A[i] for i in case["explicit_actions"])
        return m

    res = {}
    mdp = mk()
    # reachability first (cached under the same key state_list uses), with pop order
    runs = []
    for k in [None] + list(case.get("cutoffs", [])):
        del log[:]
        try:
            r = mdp.reachable_states() if k is None else mdp.reachable_states(max_states=k)
            runs.append({"max": k, "result": sorted(sid[s] for s in r), "size": len(r), "trace": list(log),
                         "type": type(r).__name__})
        except BaseException as e:
            if isinstance(e, (KeyboardInterrupt, SystemExit)):
                raise
            runs.append(dict(err(e), max=k))
    res["reach"] = runs
    res["orig"] = view(mdp, sid, aid)

    # rebuild from the arrays
    def rebuild():
        m2 = TabularMarkovDecisionProcess.from_matrices(
            state_list=mdp.state_list, action_list=mdp.action_list,
            initial_state_vec=mdp.initial_state_vec, transition_matrix=mdp.transition_matrix,
            action_matrix=mdp.action_matrix, reward_matrix=mdp.reward_matrix,
            absorbing_state_vec=mdp.absorbing_state_vec, discount_rate=mdp.discount_rate)
        return m2
    m2 = guarded(rebuild)
    if isinstance(m2, dict):
        res["rebuilt"] = m2
    else:
        res["rebuilt"] = view(m2, sid, aid)
        res["rebuilt"]["reach"] = guarded(lambda: sorted(sid[s] for s in m2.reachable_states()))
        res["rebuilt"]["class"] = type(m2).__name__
        # the rebuilt functions, read back pointwise on the listed states
        def funcs():
            out = {}
            for s in m2.state_list:
                out[str(sid[s])] = {"actions": [aid[a] for a in m2.actions(s)], "absorbing": bool(m2.is_absorbing(s)),
                                    "next": {str(aid[a]): sorted([sid[ns], fj(p)] for ns, p in m2.next_state_dist(s, a).items())
                                             for a in m2.actions(s)}}
            out["init"] = sorted([sid[s], fj(p)] for s, p in m2.initial_state_dist().items())
            return out
        res["rebuilt"]["funcs"] = guarded(funcs)

    # quick constructors wrapping the five functions (fresh un-instrumented source object)
    src = TableMDP()
    def quick_tab():
        return QuickTabularMDP(next_state_dist=src.next_state_dist, reward=src.reward, actions=src.actions,
                               initial_state_dist=src.initial_state_dist, is_absorbing=src.is_absorbing,
                               discount_rate=src.discount_rate)
    mq = guarded(quick_tab)
    res["quick"] = mq if isinstance(mq, dict) else view(mq, sid, aid, tables=False)
    if not isinstance(mq, dict):
        res["quick"]["reach"] = guarded(lambda: sorted(sid[s] for s in mq.reachable_states()))

    # constant / deterministic variants of the quick constructor
    qv = case.get("qv")
    if qv:
        def quick_var():
            kw = {}
            if qv.get("det"):
                kw["next_state"] = lambda s, a: next(iter(trans[(s, a)].keys()))
            else:
                kw["next_state_dist"] = src.next_state_dist
            kw["reward"] = fl(rconst) if qv.get("const_reward") else src.reward
            kw["actions"] = acts[S[0]] if qv.get("const_actions") else src.actions
            if qv.get("init_state"):
                kw["initial_state"] = next(iter(init.keys()))
            elif qv.get("init_callable"):
                kw["initial_state_dist"] = src.initial_state_dist
            else:
                kw["initial_state_dist"] = init
            return QuickTabularMDP(is_absorbing=src.is_absorbing, discount_rate=gamma, **kw)
        mv = guarded(quick_var)
        res["quick_var"] = mv if isinstance(mv, dict) else view(mv, sid, aid, tables=False)
        if not isinstance(mv, dict):
            res["quick_var"]["reach"] = guarded(lambda: sorted(sid[s] for s in mv.reachable_states()))

    # plain QuickMDP (not tabular): functional interface + reachability only
    def quick_plain():
        m3 = QuickMDP(next_state_dist=src.next_state_dist, reward=src.reward, actions=src.actions,
                      initial_state_dist=init, is_absorbing=src.is_absorbing, discount_rate=src.discount_rate)
        ok = True
        for s in S:
            ok &= tuple(m3.actions(s)) == acts[s] and bool(m3.is_absorbing(s)) == absb[s]
            for a in acts[s]:
                d = m3.next_state_dist(s, a)
                ok &= dict(d.items()) == dict(trans[(s, a)].items())
                for ns in d.keys():
                    ok &= m3.reward(s, a, ns) == src.reward(s, a, ns)
        ok &= dict(m3.initial_state_dist().items()) == dict(init.items())
        return {"funcs_equal": bool(ok), "gamma": fj(m3.discount_rate),
                "reach": sorted(sid[s] for s in m3.reachable_states()),
                "has_state_list": hasattr(m3, "state_list")}
    res["quick_plain"] = guarded(quick_plain)

    # planning on original, rebuilt, wrapped
    vi = case.get("vi")
    if vi:
        res["plan"] = {"orig": guarded(lambda: plan(mdp, sid, aid, vi))}
        if not isinstance(m2, dict):
            res["plan"]["rebuilt"] = guarded(lambda: plan(m2, sid, aid, vi))
        if not isinstance(mq, dict):
            res["plan"]["quick"] = guarded(lambda: plan(mq, sid, aid, vi))
    return res


if __name__ == "__main__":
    run_cases(one)
