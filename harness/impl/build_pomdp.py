"""Builds a msdm TabularPOMDP from a harness/gen_pomdp.py case through the public interface
(a TabularPOMDP subclass defining next_state_dist / reward / actions / initial_state_dist /
is_absorbing / observation_dist), as msdm/tests/test_core_pomdp.py and the msdm domains do.
Imported only by harness/impl/*.py (run under /venv/bin/python with PYTHONPATH=/repo).

ONE class serves every generated POMDP (all numbers live on the instance), so a process that builds
many POMDPs exercises caches kept on the class or leaking between objects with equal labels."""
import os
import sys
sys.path.insert(0, os.path.dirname(os.path.abspath(__file__)))
from build import fl  # noqa: E402

_CLASS = None


def dec_label(l):
    """tagged JSON label -> Python label: ["i", 3] ["s", "x"] ["f", 0.0] ["b", false] ["n"] ["t", [..]]"""
    k = l[0]
    if k == "i":
        return int(l[1])
    if k == "s":
        return str(l[1])
    if k == "f":
        return float(l[1])
    if k == "b":
        return bool(l[1])
    if k == "n":
        return None
    if k == "t":
        return tuple(dec_label(x) for x in l[1])
    raise ValueError(l)


def _the_class():
    global _CLASS
    if _CLASS is None:
        from msdm.core.pomdp.tabularpomdp import TabularPOMDP

        class GeneratedPOMDP(TabularPOMDP):
            def __init__(self, spec):
                self._spec = spec
                self.discount_rate = spec["gamma"]

            def next_state_dist(self, s, a):
                return self._spec["trans"][(s, a)]

            def reward(self, s, a, ns):
                return self._spec["rew"].get((s, a, ns), self._spec["zero"])

            def actions(self, s):
                return self._spec["actions"][s]

            def initial_state_dist(self):
                return self._spec["init"]

            def is_absorbing(self, s):
                return self._spec["absorbing"][s]

            def observation_dist(self, a, ns):
                return self._spec["obs"][(a, ns)]
        _CLASS = GeneratedPOMDP
    return _CLASS


def fingerprint(p):
    """everything the caller handed to the POMDP, as a comparable value (to detect mutation of the caller's objects)"""
    sp = p._spec

    def d(x):
        return (type(x).__name__, [(repr(k), repr(v)) for k, v in x.items()])
    return {"trans": [(repr(k), d(v)) for k, v in sp["trans"].items()],
            "obs": [(repr(k), d(v)) for k, v in sp["obs"].items()],
            "rew": [(repr(k), repr(v)) for k, v in sp["rew"].items()],
            "actions": [(repr(k), type(v).__name__, repr(list(v))) for k, v in sp["actions"].items()],
            "absorbing": repr(sp["absorbing"]), "init": d(sp["init"]),
            "lists": repr((getattr(p, "_state_list", None), getattr(p, "_action_list", None),
                           [type(p).__dict__.get(k) for k in ("state_list", "action_list", "observation_list")]))}


def build_pomdp(case, explicit_lists=False, labels=None, int01=False, dist_types=False, share_objects=False,
                declare=None):
    """labels=None: states, actions and observations are the integer ids of the case; otherwise
    {"S": [...], "A": [...], "O": [...]} tagged labels per id (see dec_label).  The label lists are
    left on the object as _gen_S / _gen_A / _gen_O (id -> label).
    explicit_lists=True pins _state_list/_action_list IN ID ORDER (not sorted label order); otherwise
    msdm derives them by reachability and sorts them.
    int01=True: probabilities / rewards that are whole numbers are passed as Python ints.
    dist_types=True: certain rows become DeterministicDistribution, uniform rows UniformDistribution.
    declare={"O": [ids], "S": [ids] (optional), "A": [ids] (optional)}: the POMDP class DECLARES observation_list
    (and state_list / action_list) itself, as class attributes in the given -- not sorted -- order, the way
    msdm/domains/loadunload.py does; every index-based accessor must then follow the declared order.
    share_objects=True: equal kernel rows are ONE DictDistribution object returned for several (s, a) / (a, ns),
    actions(s) returns a mutable list, the same list object for all states with the same action set, and
    explicit state / action lists are mutable lists (see fingerprint)."""
    from msdm.core.distributions import DictDistribution
    from msdm.core.distributions.dictdistribution import DeterministicDistribution, UniformDistribution
    n, nA, nO = case["n"], case["nA"], case["nO"]
    # never-possible outcomes listed with explicit probability 0 get ids / labels after the real ones
    nSg, nOg = n + len(case.get("state_ghost", [])), nO + len(case.get("obs_ghost", []))
    S = [dec_label(l) for l in labels["S"]] if labels else list(range(nSg))
    A = [dec_label(l) for l in labels["A"]] if labels else list(range(nA))
    O = [dec_label(l) for l in labels["O"]] if labels else list(range(nOg))

    def num(p):
        x = fl(p)
        if int01 and x == int(x):
            return int(x)
        return x

    def dist(row, L):
        pos = [(e, p) for e, p in row if fl(p) != 0]
        if dist_types and len(row) == len(pos):
            if len(pos) == 1:
                return DeterministicDistribution(L[pos[0][0]])
            if len({p for _, p in pos}) == 1:
                return UniformDistribution([L[e] for e, _ in pos])
        dd = DictDistribution({L[e]: num(p) for e, p in row})
        if share_objects:
            key = repr(sorted((repr(k), repr(v)) for k, v in dd.items())) + repr(list(dd))
            return pool.setdefault(key, dd)
        return dd
    pool = {}

    trans = {}
    for k, row in case["trans"].items():
        s, a = map(int, k.split(","))
        trans[(S[s], A[a])] = dist(row, S)
    rew = {}
    for k, r in case["reward"].items():
        s, a, ns = map(int, k.split(","))
        rew[(S[s], A[a], S[ns])] = num(r)
    obs = {}
    for k, row in case["obs"].items():
        a, ns = map(int, k.split(","))
        obs[(A[a], S[ns])] = dist(row, O)
    spec = {
        "trans": trans, "rew": rew, "obs": obs, "zero": 0 if int01 else 0.0,
        "actions": {S[s]: tuple(A[a] for a in acts) for s, acts in enumerate(case["actions"])},
        "absorbing": {S[s]: bool(x) for s, x in enumerate(case["absorbing"])},
        "init": dist(case["init"], S), "gamma": fl(case["gamma"]),
    }
    for g in case.get("state_ghost", []):      # a listed-but-impossible successor is still a legitimate argument
        spec["actions"][S[g]] = tuple(A)
        spec["absorbing"][S[g]] = False
    if share_objects:
        lists = {}
        spec["actions"] = {k: lists.setdefault(v, list(v)) for k, v in spec["actions"].items()}
    cls = _the_class()
    if declare:
        attrs = {"observation_list": [O[i] for i in declare["O"]]}
        if declare.get("S"):
            attrs["state_list"] = [S[i] for i in declare["S"]]
        if declare.get("A"):
            attrs["action_list"] = [A[i] for i in declare["A"]]
        cls = type("DeclaringPOMDP", (cls,), attrs)
    p = cls(spec)
    p._gen_S, p._gen_A, p._gen_O = S, A, O
    if explicit_lists:
        p._state_list = list(S[:n]) if share_objects else tuple(S[:n])
        p._action_list = list(A) if share_objects else tuple(A)
    return p
