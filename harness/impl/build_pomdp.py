"""Builds a msdm TabularPOMDP from a harness/gen_pomdp.py case through the public interface
(a TabularPOMDP subclass defining next_state_dist / reward / actions / initial_state_dist /
is_absorbing / observation_dist), as msdm/tests/test_core_pomdp.py and the msdm domains do.
Imported only by harness/impl/*.py (run under /venv/bin/python with PYTHONPATH=/repo)."""
import os
import sys
sys.path.insert(0, os.path.dirname(os.path.abspath(__file__)))
from build import fl  # noqa: E402


def build_pomdp(case, explicit_lists=False):
    """states, actions and observations are the integer ids of the case.
    explicit_lists=True additionally pins _state_list/_action_list (otherwise msdm derives them by
    reachability; gen_pomdp makes every state reachable, so both give [0..n-1])."""
    from msdm.core.pomdp.tabularpomdp import TabularPOMDP
    from msdm.core.distributions import DictDistribution
    trans = {}
    for k, row in case["trans"].items():
        s, a = map(int, k.split(","))
        trans[(s, a)] = DictDistribution({ns: fl(p) for ns, p in row})
    rew = {}
    for k, r in case["reward"].items():
        s, a, ns = map(int, k.split(","))
        rew[(s, a, ns)] = fl(r)
    obs = {}
    for k, row in case["obs"].items():
        a, ns = map(int, k.split(","))
        obs[(a, ns)] = DictDistribution({o: fl(p) for o, p in row})
    actions = [tuple(a) for a in case["actions"]]
    absorbing = [bool(x) for x in case["absorbing"]]
    init = DictDistribution({s: fl(p) for s, p in case["init"]})
    gamma = fl(case["gamma"])

    class GeneratedPOMDP(TabularPOMDP):
        discount_rate = gamma

        def next_state_dist(self, s, a):
            return trans[(s, a)]

        def reward(self, s, a, ns):
            return rew.get((s, a, ns), 0.0)

        def actions(self, s):
            return actions[s]

        def initial_state_dist(self):
            return init

        def is_absorbing(self, s):
            return absorbing[s]

        def observation_dist(self, a, ns):
            return obs[(a, ns)]

    p = GeneratedPOMDP()
    if explicit_lists:
        p._state_list = tuple(range(case["n"]))
        p._action_list = tuple(range(case["nA"]))
    return p
