"""C19 implementation runner: entropy_regularized_policy_iteration on generated tensors, either
called directly or through the planner wrapper EntropyRegularizedPolicyIteration.plan_on."""
import os, sys
sys.path.insert(0, os.path.dirname(os.path.abspath(__file__)))
from build import *

PLANNERS = {}      # planner objects are kept and reused across the cases of one process


def nested(x):
    return [nested(z) for z in x] if isinstance(x, list) else fl(x)


def tens(x, torch):
    """nested lists of 'n/d' strings -> float64 tensor"""
    return torch.tensor(nested(x), dtype=torch.float64)


def mat(t):
    return [[fj(x) for x in row] for row in t.tolist()]


def lab(x):
    return tuple(lab(y) for y in x) if isinstance(x, list) else x


def full_reward(case):
    Rb, nS, nA = case["R"], case["nS"], case["nA"]
    return [[[fl(Rb[s if len(Rb) > 1 else 0][a if len(Rb[0]) > 1 else 0][n if len(Rb[0][0]) > 1 else 0])
              for n in range(nS)] for a in range(nA)] for s in range(nS)]


def make_mdp(case, R):
    from msdm.core.mdp.quickmdp import QuickTabularMDP
    from msdm.core.distributions import DictDistribution
    nS, nA = case["nS"], case["nA"]
    sl, al = [lab(x) for x in case["state_labels"]], [lab(x) for x in case["action_labels"]]
    si, ai = {l: i for i, l in enumerate(sl)}, {l: i for i, l in enumerate(al)}
    T = nested(case["T"])
    start = case.get("start")
    init = DictDistribution({sl[start]: 1.0}) if start is not None else DictDistribution({l: 1.0 / nS for l in sl})
    g = int(fl(case["gamma"])) if case.get("gamma_style") == "int" else fl(case["gamma"])
    # ONE action list object is returned for every state, and one distribution object per distinct row is
    # returned on every call (caller-owned, persistent objects); shared_state() snapshots them
    shared_actions = list(al)
    avail = case.get("avail")
    per_state = None if avail is None else {sl[s]: [al[a] for a in range(nA) if avail[s][a]] for s in range(nS)}
    dists = {}

    def nsd(s, a):
        row = tuple(T[si[s]][ai[a]])
        if row not in dists:
            dists[row] = DictDistribution({sl[n]: p for n, p in enumerate(row) if p > 0})
        return dists[row]
    mdp = QuickTabularMDP(
        next_state_dist=nsd,
        reward=lambda s, a, ns: R[si[s]][ai[a]][si[ns]],
        actions=(lambda s: shared_actions) if per_state is None else (lambda s: per_state[s]),
        initial_state_dist=init,
        is_absorbing=lambda s: False,
        discount_rate=g)
    mdp._c19_shared = lambda: (list(shared_actions), None if per_state is None else sorted((repr(k), list(map(repr, v))) for k, v in per_state.items()), sorted((repr(k), sorted((repr(x), p) for x, p in d.items())) for k, d in dists.items()),
                               sorted((repr(x), p) for x, p in init.items()))
    return mdp, si, ai


def weight(case, torch):
    import numpy as np
    lam, style = case["lam"], case["lam_style"]
    if style == "float":
        return fl(lam)
    if style == "npfloat":
        return np.float64(fl(lam))
    if style == "int":
        return int(fl(lam))
    if style == "tensor1":
        return torch.tensor([fl(lam)], dtype=torch.float64)
    return torch.tensor([fl(x) for x in lam], dtype=torch.float64)


def tables(res, sl, al, can=None):
    """every entry of the planner's result tables, read by (state, action) LABEL; can(s, a) False = the action
    cannot be taken there: such an entry may legitimately be absent (None)"""
    def get(f, s, a):
        if can is None or can(s, a):
            return fj(f())
        try:
            return fj(f())
        except (KeyError, IndexError, ValueError):
            return None
    return ([[get(lambda: res.policy[s][a], s, a) for a in al] for s in sl],
            [[get(lambda: res.actionvaluefunc[s][a], s, a) for a in al] for s in sl],
            [fj(res.valuefunc[s]) for s in sl])


def extras(res, sl):
    out = {"initial_value": None, "policy_divergence": None}
    try:
        out["initial_value"] = fj(res.initial_value)
    except AttributeError:
        pass
    try:
        out["policy_divergence"] = [fj(res.policy_divergence[s]) for s in sl]
    except (AttributeError, KeyError):
        pass
    return out


def one(case, pl):
    import torch
    from msdm.algorithms.entregpolicyiteration import entropy_regularized_policy_iteration, \
        EntropyRegularizedPolicyIteration
    nS, nA = case["nS"], case["nA"]
    if case["via"] == "planner":
        R = full_reward(case)
        mdp, si, ai = make_mdp(case, R)
        key = (case["iterations"], str(case["lam"]), case["lam_style"], str(case["pi0"]))
        touched = False
        if case.get("decoy"):
            # (a) the MDP's cached views are used before planning, (b) the planner object has already
            # planned on another MDP with the same labels and different numbers
            _ = (mdp.state_list, mdp.action_list, mdp.transition_matrix.sum(), mdp.reward_matrix.sum(), mdp.action_matrix.sum())
            touched = True
        sl, al = list(mdp.state_list), list(mdp.action_list)
        prior = None
        if case["pi0"] is not None:        # prior columns in the planner's action order
            prior = torch.tensor([[fl(case["pi0"][0][ai[a]]) for a in al]], dtype=torch.float64)
        if key not in PLANNERS or not case.get("decoy"):
            PLANNERS[key] = EntropyRegularizedPolicyIteration(iterations=case["iterations"], entropy_weight=weight(case, torch),
                                                              policy_prior=prior)
        planner = PLANNERS[key]
        same, stale = None, None
        prior_before = None if prior is None else prior.clone()
        av = case.get("avail")
        can = None if av is None else (lambda s, a: av[si[s]][ai[a]])
        before = mdp._c19_shared()
        if case.get("decoy"):
            # same planner object: (1) another MDP with the same labels and other numbers, (2) the real MDP,
            # (3) a LARGER MDP over the same labels plus one, then the result of (2) is read for the first time,
            # (4) the real problem constructed again from scratch
            other, _, _ = make_mdp(case, [[[1.0 - x for x in row] for row in m] for m in R])
            planner.plan_on(other)
            res = planner.plan_on(mdp)
            big = dict(case)
            nS2 = nS + 1
            l0 = case["state_labels"][0]
            extra = "zz" if isinstance(l0, str) else ([9, 9] if isinstance(l0, list) else max(case["state_labels"]) + 1)
            # one state more, the SAME labels for the others (a result table aliased between calls would be overwritten)
            big.update({"nS": nS2, "state_labels": list(case["state_labels"]) + [extra], "start": None,
                        "T": [[[("1" if n == (s + a + 1) % nS2 else "0") for n in range(nS2)] for a in range(nA)] for s in range(nS2)]})
            other2, _, _ = make_mdp(big, [[[float((s * 7 + a * 3 + n) % 5) for n in range(nS2)] for a in range(nA)] for s in range(nS2)])
            planner.plan_on(other2)
            pi, q, v = tables(res, sl, al, can)                # first read of the earlier result, after the later call
            mdp2, _, _ = make_mdp(case, R)
            again = tables(planner.plan_on(mdp2), sl, al, can)
            same = again == (pi, q, v)
        else:
            res = planner.plan_on(mdp)
            pi, q, v = tables(res, sl, al, can)
        mutated = before != mdp._c19_shared() or (prior is not None and not torch.equal(prior, prior_before))
        return {"converged": bool(res.converged), "iterations": int(res.iterations),
                "pi": pi, "q": q, "v": v, "states": [si[s] for s in sl], "actions": [ai[a] for a in al],
                "views_touched": touched, "repeat_same": same, "inputs_mutated": bool(mutated), **extras(res, sl)}
    tf = tens(case["T"], torch)
    rf = tens(case["R"], torch)
    if case.get("noncontig"):
        # same numbers, non-contiguous storage (a permuted view of a permuted copy)
        tf = tf.permute(2, 0, 1).contiguous().permute(1, 2, 0)
        rf = rf.permute(2, 1, 0).contiguous().permute(2, 1, 0)
        assert not tf.is_contiguous() or min(tf.shape) == 1
    if case.get("requires_grad"):
        tf.requires_grad = True
    prior = None if case["pi0"] is None else tens(case["pi0"], torch)
    init = None if case.get("init") is None else (prior if case["init"] == "prior" else tens(case["init"], torch))
    g = int(fl(case["gamma"])) if case.get("gamma_style") == "int" else fl(case["gamma"])
    w = weight(case, torch)

    def call():
        return entropy_regularized_policy_iteration(
            transition_matrix=tf, reward_matrix=rf, discount_rate=g, entropy_weight=w,
            n_planning_iters=case["n_iters"], policy_prior=prior, initial_policy=init,
            check_convergence=True, force_nonzero_probabilities=case["force_nonzero"])
    inputs = [x for x in (tf, rf, prior, init, w) if isinstance(x, torch.Tensor)]
    keep = [x.detach().clone() for x in inputs]
    same = None
    if case.get("repeat"):
        r0 = call()
        r = call()
        same = bool(torch.equal(r0.policy, r.policy) and torch.equal(r0.state_values, r.state_values)
                    and torch.equal(r0.action_values, r.action_values))
    else:
        r = call()
    mutated = not all(torch.equal(a, b.detach()) for a, b in zip(keep, inputs))
    return {"converged": bool(r.converged), "iterations": int(r.iterations),
            "pi": mat(r.policy.detach()), "q": mat(r.action_values.detach()),
            "v": [fj(x) for x in r.state_values.detach().tolist()], "repeat_same": same, "inputs_mutated": bool(mutated),
            "dtypes": [str(r.policy.dtype), str(r.action_values.dtype), str(r.state_values.dtype)]}


if __name__ == "__main__":
    run_cases(one)
