"""C19 implementation runner: entropy_regularized_policy_iteration on generated tensors, either
called directly or through the planner wrapper EntropyRegularizedPolicyIteration.plan_on."""
import os, sys
sys.path.insert(0, os.path.dirname(os.path.abspath(__file__)))
from build import *


def tens(x, torch):
    """nested lists of 'n/d' strings -> float64 tensor"""
    def conv(y):
        return [conv(z) for z in y] if isinstance(y, list) else fl(y)
    return torch.tensor(conv(x), dtype=torch.float64)


def mat(t):
    return [[fj(x) for x in row] for row in t.tolist()]


def one(case, pl):
    import torch
    from msdm.algorithms.entregpolicyiteration import entropy_regularized_policy_iteration, \
        EntropyRegularizedPolicyIteration
    nS, nA = case["nS"], case["nA"]
    lam = case["lam"]
    if case["via"] == "planner":
        # same tensors through the public planner (uniform prior over all actions, scalar weight)
        T, R = case["T"], case["R"]
        mcase = {"n": nS, "nA": nA, "actions": [list(range(nA)) for _ in range(nS)],
                 "trans": {"%d,%d" % (s, a): [[n, T[s][a][n]] for n in range(nS)] for s in range(nS) for a in range(nA)},
                 "reward": {"%d,%d,%d" % (s, a, n): R[s][a][n] for s in range(nS) for a in range(nA) for n in range(nS)},
                 "absorbing": [False] * nS, "init": [[s, "1/%d" % nS] for s in range(nS)], "gamma": case["gamma"]}
        mdp = build_mdp(mcase)
        sl, al = list(mdp.state_list), list(mdp.action_list)
        w = fl(lam) if case["lam_style"] == "float" else torch.tensor([fl(lam)], dtype=torch.float64)
        res = EntropyRegularizedPolicyIteration(iterations=case["n_iters"], entropy_weight=w).plan_on(mdp)
        if sl != list(range(nS)) or al != list(range(nA)):
            return {"error": "Harness: state/action lists %r %r are not the index ranges" % (sl, al)}
        return {"converged": bool(res.converged), "iterations": int(res.iterations),
                "pi": [[fj(res.policy[s][a]) for a in al] for s in sl],
                "q": [[fj(res.actionvaluefunc[s][a]) for a in al] for s in sl],
                "v": [fj(res.valuefunc[s]) for s in sl],
                "q_mat_equal_table": bool(all(float(res._qvaluemat[s, a]) == float(res.Q[s][a]) for s in range(nS) for a in range(nA)))}
    tf = tens(case["T"], torch)
    rf = tens(case["R"], torch)
    style = case["lam_style"]
    if style == "float":
        w = fl(lam)
    elif style == "int":
        w = int(lam)
    elif style == "tensor1":
        w = torch.tensor([fl(lam)], dtype=torch.float64)
    else:
        w = torch.tensor([fl(x) for x in lam], dtype=torch.float64)
    prior = None if case["pi0"] is None else tens(case["pi0"], torch)
    r = entropy_regularized_policy_iteration(
        transition_matrix=tf, reward_matrix=rf, discount_rate=fl(case["gamma"]), entropy_weight=w,
        n_planning_iters=case["n_iters"], policy_prior=prior, initial_policy=None,
        check_convergence=True, force_nonzero_probabilities=case["force_nonzero"])
    return {"converged": bool(r.converged), "iterations": int(r.iterations),
            "pi": mat(r.policy.detach()), "q": mat(r.action_values.detach()),
            "v": [fj(x) for x in r.state_values.detach().tolist()],
            "dtypes": [str(r.policy.dtype), str(r.action_values.dtype), str(r.state_values.dtype)]}


if __name__ == "__main__":
    run_cases(one)
