"""Implementation-side helpers (imported only by harness/impl/*.py, which run under
/venv/bin/python with PYTHONPATH=/repo).  Builds msdm objects from JSON cases through
the PUBLIC constructors and serialises results with every float as an exact rational."""
import json
import math
import sys
import warnings
from fractions import Fraction

warnings.filterwarnings("ignore")


def fj(x):
    """float -> exact JSON encoding"""
    if x is None:
        return None
    try:
        x = float(x)
    except Exception:
        return repr(x)
    if math.isnan(x):
        return "nan"
    if math.isinf(x):
        return "inf" if x > 0 else "-inf"
    n, d = x.as_integer_ratio()
    return [n, d]


def fl(s):
    return float(Fraction(s))


def read_payload():
    return json.loads(sys.stdin.read())


def write_result(obj):
    sys.stdout.write("\n" + json.dumps(obj) + "\n")
    sys.stdout.flush()


def build_mdp(case, cls=None, explicit_lists=False):
    """QuickTabularMDP over integer states/actions from a gen_mdp case"""
    from msdm.core.mdp.quickmdp import QuickTabularMDP
    from msdm.core.distributions import DictDistribution
    trans = {}
    for k, row in case["trans"].items():
        s, a = map(int, k.split(","))
        trans[(s, a)] = DictDistribution({ns: fl(p) for ns, p in row})
    rew = {}
    for k, r in case["reward"].items():
        s, a, ns = map(int, k.split(","))
        rew[(s, a, ns)] = fl(r)
    actions = [tuple(a) for a in case["actions"]]
    absorbing = list(case["absorbing"])
    init = DictDistribution({s: fl(p) for s, p in case["init"]})
    mdp = QuickTabularMDP(
        next_state_dist=lambda s, a: trans[(s, a)],
        reward=lambda s, a, ns: rew.get((s, a, ns), 0.0),
        actions=lambda s: actions[s],
        initial_state_dist=init,
        is_absorbing=lambda s: absorbing[s],
        discount_rate=fl(case["gamma"]),
    )
    if explicit_lists:
        mdp._state_list = tuple(range(case["n"]))
        mdp._action_list = tuple(range(case["nA"]))
    return mdp


def table_to_list(tbl, state_list, action_list=None):
    if action_list is None:
        return [fj(tbl[s]) for s in state_list]
    return [[fj(tbl[s][a]) for a in action_list] for s in state_list]


def run_cases(fn):
    """standard main: read payload, apply fn(case, payload) to each case catching
    exceptions (reported as {'error': ...}), write results"""
    import traceback
    pl = read_payload()
    out = []
    for c in pl["cases"]:
        try:
            out.append(fn(c, pl))
        except BaseException as e:  # msdm raises BaseException subclasses in places
            if isinstance(e, (KeyboardInterrupt, SystemExit)):
                raise
            out.append({"error": type(e).__name__ + ": " + str(e)[:500],
                        "trace": traceback.format_exc()[-1500:]})
    write_result({"results": out})
