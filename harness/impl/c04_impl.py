"""C04 implementation runner: msdm.algorithms.lrtdp.LRTDP on generated proper MDPs.

Nothing in /repo is subclassed or edited: the planner INSTANCE gets logging wrappers around
its bound methods _bellman_update / _check_solved / _tear_down_plan_on (attached once; they
survive across plan_on calls), and an LRTDPEventListener counts trials.  The log is the
operation sequence of the abstract machine of coq/model/LRTDP.v:
   ["U", s, newV]            V[s] := max_a Q(s,a)            (every _bellman_update)
   ["A", s]                  absorbing successor marked solved in a trial
   ["C", s, flag, closed]    one _check_solved(s) call; closed in DFS order
                             (flag true: the states it labelled; flag false: the states it
                             re-updated, whose "U" entries follow the "C" entry)
States are the generator's integers 0..n-1, actions its integer ids.

A case is either a single problem ({"mdp": ...}) or a CHAIN ({"chain": [mdpA, mdpB, mdpA, ...]}):
ONE planner object plans on the problems in turn (same state/action labels, different
probabilities/rewards); the result is {"chain": [result per step]}.  Log state is reset per call.
"""
import os, sys
sys.path.insert(0, os.path.dirname(os.path.abspath(__file__)))
from build import *


def one(case, pl):
    from msdm.algorithms.lrtdp import LRTDP, LRTDPEventListener
    mdps = case["chain"] if "chain" in case else [case["mdp"]]
    hv = [fl(x) for x in case["heuristic"]]
    L = {}                       # per-plan_on log state (reset before every call)

    class Rec(LRTDPEventListener):
        def end_of_lrtdp_trial(self, localvars):
            L["counters"]["trials"] += 1

        def end_of_lrtdp_timestep(self, localvars):
            L["counters"]["steps"] += 1

    planner = LRTDP(heuristic=lambda s: hv[s], bellman_error_margin=fl(case["margin"]),
                    iterations=int(case["iterations"]), randomize_action_order=bool(case["randomize"]),
                    event_listener_class=Rec, seed=int(case["seed"]))
    maxops = int(case.get("max_log", 4000))

    def emit(op):
        if len(L["ops"]) < maxops:
            L["ops"].append(op)
        else:
            L["overflow"] = True

    def sync_absorbing():
        # states marked solved by the trial loop itself (absorbing successors)
        for s, v in list(planner.res.solved.items()):
            if v and s not in L["known"]:
                L["known"].add(s)
                emit(["A", s])

    orig_update = planner._bellman_update
    orig_check = planner._check_solved
    orig_teardown = planner._tear_down_plan_on

    def upd(m, s):
        sync_absorbing()
        orig_update(m, s)
        emit(["U", s, fj(planner.res.V[s])])

    def chk(m, s):
        sync_absorbing()
        ops = L["ops"]
        before = list(planner.res.solved.keys())
        mark = len(ops)
        emit(["C", s, None, None])
        flag = orig_check(m, s)
        if flag:
            closed = [k for k in planner.res.solved.keys() if k not in before]
            for k in closed:
                L["known"].add(k)
        else:
            closed = [o[1] for o in ops[mark + 1:] if o[0] == "U"][::-1]
        if mark < len(ops):
            ops[mark] = ["C", s, bool(flag), closed]
        return flag

    def teardown(m, heuristic):
        sync_absorbing()
        res = planner.res
        # greedy action recomputed from the FINAL table for the states the planner labelled
        # (only states with a recorded action order: no extra random draws)
        L["greedy"] = {s: planner.policy(m, s) for s in range(L["n"])
                       if res.solved[s] and s in res.action_orders}
        return orig_teardown(m, heuristic)

    planner._bellman_update = upd
    planner._check_solved = chk
    planner._tear_down_plan_on = teardown

    outs = []
    for mc in mdps:
        mdp = build_mdp(mc)
        n = mc["n"]
        L.clear()
        L.update({"ops": [], "known": set(), "overflow": False, "greedy": {}, "n": n,
                  "counters": {"trials": 0, "steps": 0}})
        res = planner.plan_on(mdp)
        keys = [s for s in range(n) if s in res.V]
        returned = []
        for s in range(n):
            d = [(a, pr) for a, pr in res.policy.action_dist(s).items() if pr != 0]
            returned.append(d[0][0] if len(d) == 1 else None)
        sa = getattr(res, "solved_action", None)
        outs.append({
            "n": n,
            "touched": [s in res.V for s in range(n)],
            "V": [fj(res.V[s]) for s in range(n)],            # default = heuristic for untouched states
            "solved": [bool(res.solved[s]) for s in range(n)],
            "action_orders": {str(s): list(v) for s, v in res.action_orders.items()},
            "greedy": {str(s): a for s, a in L["greedy"].items()},           # recomputed from the FINAL table
            "returned_action": returned,                                     # what res.policy plays (None: not deterministic)
            "solved_action": None if sa is None else {str(s): a for s, a in sa.items()},
            "Q": {str(s): {str(a): fj(res.Q[s][a]) for a in mdp.actions(s)} for s in keys},
            "policy": [[[a, fj(p)] for a, p in res.policy.action_dist(s).items()] for s in range(n)],
            "initial_value": fj(res.initial_value),
            "converged_attr": (str(res.converged) if hasattr(res, "converged") else "missing"),
            "trials": L["counters"]["trials"], "steps": L["counters"]["steps"],
            "ops": L["ops"], "ops_overflow": L["overflow"],
        })
    if "chain" in case:
        return {"chain": outs}
    return outs[0]


if __name__ == "__main__":
    run_cases(one)
