"""C04 implementation runner: msdm.algorithms.lrtdp.LRTDP on generated proper MDPs.

Nothing in /repo is subclassed or edited: the planner INSTANCE gets logging wrappers around
its bound methods _bellman_update / _check_solved / _tear_down_plan_on (attached once; they
survive across plan_on calls), and an LRTDPEventListener counts trials.  The log is the
operation sequence of the abstract machine of coq/model/LRTDP.v:
   ["U", s, newV]            V[s] := max_a Q(s,a)            (every _bellman_update)
   ["A", s]                  absorbing successor marked solved in a trial
   ["C", s, flag, closed]    one _check_solved(s) call; closed in DFS order
                             (flag true: the states it labelled; flag false: the states it
                             re-updated, whose "U" entries follow the "C" entry)
States are the generator's integers 0..n-1, actions its integer ids.

A case is either a single problem ({"mdp": ...}) or a CHAIN ({"chain": [mdpA, mdpB, mdpA, ...]}):
ONE planner object plans on the problems in turn (same state/action labels, different
probabilities/rewards); the result is {"chain": [result per step]}.  Log state is reset per call.
Equal chain entries reuse the SAME MDP object (optionally with its cached tabular views touched first).

Input representations (case["repr"], all optional): state/action LABELS (ints, strings whose sorted
order differs from the index order, tuples, falsy values "" () 0, None as an action and a state label), next-state distributions as
DictDistribution / deterministic / uniform objects, action containers tuple / list / frozenset / set /
dict keys view / generator (persistent
per-state objects) or ONE shared list object for all states (QuickTabularMDP(actions=[...])), initial
distribution as object / callable / initial_state=, discount and margin as int (discount also np.float64), heuristic returning
ints; planner options seed=None, no event listener, max_trial_length, tiny iteration caps.
Everything is reported back in the generator's integer ids.
"""
import os, sys
sys.path.insert(0, os.path.dirname(os.path.abspath(__file__)))
from build import *


def labels(scheme, n, nA):
    if scheme == "str":            # sorted order is the reverse of the index order
        return [chr(122 - i) for i in range(n)], ["c", "b", "a"][:nA] if nA <= 3 else ["a%d" % (9 - a) for a in range(nA)]
    if scheme == "tuple":
        return [(i % 2, -i) for i in range(n)], [("a", -a) for a in range(nA)]
    if scheme == "falsy":          # "", (), 0 as state labels; "", 0, () as action labels
        return (["", (), 0] + ["s%d" % i for i in range(3, n)])[:n], (["", 0, ()] + ["a%d" % a for a in range(3, nA)])[:nA]
    if scheme == "none":           # None as a label: the first action ("wait") and the second state
        return (["s0", None] + ["s%d" % i for i in range(2, n)])[:n], ([None, "push", "clear"] + ["a%d" % a for a in range(3, nA)])[:nA]
    return list(range(n)), list(range(nA))


def build_labeled(mc, rp, randomize=True):
    """QuickTabularMDP from a gen_mdp case through the public constructor, in the requested representation"""
    from msdm.core.mdp.quickmdp import QuickTabularMDP
    from msdm.core.distributions import DictDistribution
    from fractions import Fraction
    n, nA = mc["n"], mc["nA"]
    sl, al = labels(rp.get("labels", "int"), n, nA)
    objs = rp.get("dist_objects", False)
    trans = {}
    shared_rows = {}
    for k, row in mc["trans"].items():
        s, a = map(int, k.split(","))
        ps = [Fraction(p) for _, p in row]
        if objs and len(row) == 1 and ps[0] == 1:
            d = DictDistribution.deterministic(sl[row[0][0]])
        elif objs and len(row) > 1 and all(p == ps[0] for p in ps) and float(1 / len(row)) == float(ps[0]):
            d = DictDistribution.uniform([sl[ns] for ns, _ in row])
        else:
            d = DictDistribution({sl[ns]: fl(p) for ns, p in row})
        if rp.get("dist_shared"):          # equal rows hand out ONE distribution object
            key = repr(list(d.items()))        # same entries in the same ORDER (support order is observable)
            d = shared_rows.setdefault(key, d)
        trans[(sl[s], al[a])] = d
    rew = {}
    for k, r in mc["reward"].items():
        s, a, ns = map(int, k.split(","))
        rew[(sl[s], al[a], sl[ns])] = fl(r)
    # container type of mdp.actions(s): tuple / list / frozenset / set / dict keys view (persistent per-state
    # objects), or a fresh generator per call (only with randomize_action_order: the planner keeps the
    # object it got as the state's action order when it does not shuffle, and a generator can be read once)
    form = rp.get("actions_form") or ("tuple" if rp.get("actions_tuple", True) else "list")
    if form == "generator" and not randomize:
        form = "frozenset"
    mk = {"tuple": tuple, "list": list, "frozenset": frozenset, "set": set,
          "dict_keys": lambda it: dict.fromkeys(it).keys(), "generator": tuple}[form]
    actions = {sl[s]: mk(al[a] for a in mc["actions"][s]) for s in range(n)}   # persistent per-state objects
    shared = None
    if rp.get("actions_shared") and all(mc["actions"][s] == mc["actions"][0] for s in range(n)):
        shared = [al[a] for a in mc["actions"][0]]     # ONE list object handed out for every state
    absorbing = {sl[s]: bool(mc["absorbing"][s]) for s in range(n)}
    init = DictDistribution({sl[s]: fl(p) for s, p in mc["init"]})
    g = Fraction(mc["gamma"])
    kw = {}
    irep = rp.get("init", "object")
    if irep == "initial_state" and len(mc["init"]) == 1 and sl[mc["init"][0][0]] is not None:
        kw["initial_state"] = sl[mc["init"][0][0]]
    elif irep == "callable":
        kw["initial_state_dist"] = lambda: init
    else:
        kw["initial_state_dist"] = init
    mdp = QuickTabularMDP(
        next_state_dist=lambda s, a: trans[(s, a)],
        reward=lambda s, a, ns: rew.get((s, a, ns), (0 if rp.get("int_numbers") else 0.0)),
        actions=(shared if shared is not None else
                 ((lambda s: (a for a in actions[s])) if form == "generator" else (lambda s: actions[s]))),
        is_absorbing=lambda s: absorbing[s],
        discount_rate=(int(g) if rp.get("int_numbers") and g.denominator == 1 else
                       (__import__("numpy").float64(float(g)) if rp.get("np_discount") else float(g))),
        **kw)
    return mdp, sl, al


def one(case, pl):
    from msdm.algorithms.lrtdp import LRTDP, LRTDPEventListener
    from fractions import Fraction
    mdps = case["chain"] if "chain" in case else [case["mdp"]]
    rp = case.get("repr", {})
    hv = [fl(x) for x in case["heuristic"]]
    if rp.get("int_numbers"):
        hv = [int(x) if float(x).is_integer() else x for x in hv]
    sl0, al0 = labels(rp.get("labels", "int"), max(m["n"] for m in mdps), max(m["nA"] for m in mdps))
    sidx = {lab: i for i, lab in enumerate(sl0)}
    hidx = {lab: hv[i] for i, lab in enumerate(sl0)}
    L = {}                       # per-plan_on log state (reset before every call)

    class Rec(LRTDPEventListener):
        def end_of_lrtdp_trial(self, localvars):
            L["counters"]["trials"] += 1

        def end_of_lrtdp_timestep(self, localvars):
            L["counters"]["steps"] += 1

    def new_planner():
        mg = Fraction(case["margin"])
        kwargs = {}
        if rp.get("max_trial_length") is not None:
            kwargs["max_trial_length"] = int(rp["max_trial_length"])
        planner = LRTDP(heuristic=lambda s: hidx[s],
                        bellman_error_margin=(int(mg) if rp.get("int_numbers") and mg.denominator == 1 else float(mg)),
                        iterations=int(case["iterations"]), randomize_action_order=bool(case["randomize"]),
                        event_listener_class=(None if rp.get("no_listener") else Rec),
                        seed=(None if rp.get("seed_none") else int(case["seed"])), **kwargs)
        maxops = int(case.get("max_log", 4000))

        def emit(op):
            if len(L["ops"]) < maxops:
                L["ops"].append(op)
            else:
                L["overflow"] = True

        def sync_absorbing():
            # states marked solved by the trial loop itself (absorbing successors)
            for s, v in list(planner.res.solved.items()):
                if v and s not in L["known"]:
                    L["known"].add(s)
                    emit(["A", sidx[s]])

        orig_update = planner._bellman_update
        orig_check = planner._check_solved
        orig_teardown = planner._tear_down_plan_on

        def upd(m, s):
            sync_absorbing()
            if not L.get("inchk"):
                L["tsteps"] = L.get("tsteps", 0) + 1       # a trial time step (works without a listener)
            orig_update(m, s)
            emit(["U", sidx[s], fj(planner.res.V[s])])

        def chk(m, s):
            sync_absorbing()
            ops = L["ops"]
            before = list(planner.res.solved.keys())
            mark = len(ops)
            emit(["C", sidx[s], None, None])
            L["inchk"] = True
            try:
                flag = orig_check(m, s)
            finally:
                L["inchk"] = False
            if flag:
                closed = [k for k in planner.res.solved.keys() if k not in before]
                for k in closed:
                    L["known"].add(k)
                closed = [sidx[k] for k in closed]
            else:
                closed = [o[1] for o in ops[mark + 1:] if o[0] == "U"][::-1]
            if mark < len(ops):
                ops[mark] = ["C", sidx[s], bool(flag), closed]
            return flag

        def teardown(m, heuristic):
            sync_absorbing()
            res = planner.res
            # greedy action recomputed from the FINAL table for the states the planner labelled
            # (only states with a recorded action order: no extra random draws)
            L["greedy"] = {s: planner.policy(m, s) for s in L["sl"]
                           if res.solved[s] and s in res.action_orders}
            return orig_teardown(m, heuristic)

        orig_trial = planner.lrtdp_trial

        def trial(m, s):
            L["ntrials"] += 1
            return orig_trial(m, s)

        planner._bellman_update = upd
        planner._check_solved = chk
        planner._tear_down_plan_on = teardown
        planner.lrtdp_trial = trial
        return planner

    planner = new_planner()

    outs = []
    built = []                   # equal chain entries reuse the SAME MDP object
    held = []                    # (result object, labels, ...) of every step, re-queried after the LAST call
    chain = "chain" in case
    for step, mc in enumerate(mdps):
        if chain and rp.get("fresh_planner_last") and step == len(mdps) - 1:
            planner = new_planner()      # a second object of the class in the same process, after the first was used
        prev = next((b for b in built if b[0] == mc), None)
        if prev is not None:
            mdp, sl, al = prev[1:]
        else:
            mdp, sl, al = build_labeled(mc, rp, bool(case["randomize"]))
            built.append((mc, mdp, sl, al))
            if rp.get("touch_views"):          # a base object whose cached tabular views were used already
                _ = (mdp.state_list, mdp.action_list, mdp.transition_matrix, mdp.absorbing_state_vec)
        n, nA = mc["n"], mc["nA"]
        aidx = {lab: a for a, lab in enumerate(al)}
        L.clear()
        L.update({"ops": [], "known": set(), "overflow": False, "greedy": {}, "n": n, "sl": sl, "ntrials": 0,
                  "counters": {"trials": 0, "steps": 0}})
        # the problem object must come back unchanged: snapshot what the planner can reach
        snap = lambda: {"actions": [list(mdp.actions(x)) for x in sl],
                        "init": list(mdp.initial_state_dist().items()),
                        "trans": [[list(mdp.next_state_dist(x, a).items()) for a in mdp.actions(x)] for x in sl]}
        before_plan = snap()
        res = planner.plan_on(mdp)
        after_plan = snap()
        mutated = [k for k in before_plan if repr(before_plan[k]) != repr(after_plan[k])]
        keys = [i for i in range(n) if sl[i] in res.V]
        def ask_policy(states, res=res, sl=sl, aidx=aidx):
            return {i: [[aidx[a], fj(p)] for a, p in res.policy.action_dist(sl[i]).items()] for i in states}
        # in a chain only every other state is queried now; all states are (re-)queried after the last call
        early = ask_policy(range(0, n, 2) if chain else range(n))
        held.append((res, sl, n, ask_policy, early))
        sa = getattr(res, "solved_action", None)
        outs.append({
            "n": n,
            "touched": [sl[i] in res.V for i in range(n)],
            "V": [fj(res.V[sl[i]]) for i in range(n)],            # default = heuristic for untouched states
            "solved": [bool(res.solved[sl[i]]) for i in range(n)],
            "action_orders": {str(sidx[s]): [aidx[a] for a in v] for s, v in res.action_orders.items()},
            "greedy": {str(sidx[s]): aidx[a] for s, a in L["greedy"].items()},   # recomputed from the FINAL table
            "solved_action": None if sa is None else {str(sidx[s]): aidx[a] for s, a in sa.items()},
            "Q": {str(i): {str(aidx[a]): fj(res.Q[sl[i]][a]) for a in mdp.actions(sl[i])} for i in keys},
            "initial_value": fj(res.initial_value),
            "converged_attr": (str(res.converged) if hasattr(res, "converged") else "missing"),
            "trials": L["ntrials"], "steps": L.get("tsteps", 0),
            "ops": L["ops"], "ops_overflow": L["overflow"], "mutated": mutated,
        })
    for out, (res, sl, n, ask_policy, early) in zip(outs, held):
        late = ask_policy(range(n)) if chain else early
        out["policy"] = [late[i] for i in range(n)]
        nz = [[x for x in late[i] if x[1] != [0, 1]] for i in range(n)]
        out["returned_action"] = [(z[0][0] if len(z) == 1 else None) for z in nz]   # what res.policy plays (None: not deterministic)
        # results of an EARLIER call re-read after the later calls: must not have moved
        stale = [i for i in early if early[i] != late[i]]
        stale += [i for i in range(n) if fj(res.V[sl[i]]) != out["V"][i] or bool(res.solved[sl[i]]) != out["solved"][i]]
        out["stale"] = sorted(set(stale))
    if "chain" in case:
        return {"chain": outs}
    return outs[0]


if __name__ == "__main__":
    run_cases(one)
