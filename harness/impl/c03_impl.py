"""C03 implementation runner: LAOStar on generated MDPs with a recording event listener.

Per case: {"plans": [{"mdp": gen_mdp case}, ...] planned on IN TURN BY ONE LAOStar OBJECT,
           "h": [[num, den], ...] heuristic value per state id (exact doubles),
           "seed": int, "rao": bool, "rno": bool, "default_args": bool}
Result per plan: convergence flag, initial value, every node of the explicit graph (value, optimal action,
expanded), the solution graph's states, the returned policy queried at EVERY state id, and one record
per main-loop iteration (expanded state, ancestor set Z, snapshot of all nodes after the revision)."""
import os, sys
sys.path.insert(0, os.path.dirname(os.path.abspath(__file__)))
from build import *


def snapshot(graph):
    return [[s, fj(n.value), n.optimal_action, bool(n.expanded), int(n.visitorder), int(n.expandedorder)]
            for s, n in graph.states_to_nodes.items()]


def plan_result(res, n, with_trace):
    pol = []
    for s in range(n):
        try:
            d = res.policy.action_dist(s)
            pol.append([[a, fj(p)] for a, p in d.items()])
        except BaseException as e:
            if isinstance(e, (KeyboardInterrupt, SystemExit)):
                raise
            pol.append({"error": type(e).__name__ + ": " + str(e)[:200]})
    out = {
        "converged": bool(res.converged),
        "iterations": int(res.iterations),
        "initial_value": fj(res.initial_value),
        "initial_states": list(res.explicit_graph.initial_states),
        "value_map": [[s, fj(v)] for s, v in res.state_value_map.items()],
        "solution_states": list(res.solution_graph.states_to_nodes.keys()),
        "tips": list(res.solution_graph.nonterminal_tip_states),
        "policy": pol,
    }
    if with_trace:
        out["nodes"] = snapshot(res.explicit_graph)
        out["trace"] = res.event_listener.steps
    else:
        out["n_nodes"] = len(res.explicit_graph.states_to_nodes)
    return out


def one(case, pl):
    """ONE LAOStar object; it plans on case["plans"][0], then [1], ... (same state/action labels)"""
    from msdm.algorithms.laostar import LAOStar, LAOStarEventListener
    from fractions import Fraction
    import traceback
    hv = [float(Fraction(int(x[0]), int(x[1]))) for x in case["h"]]

    class Rec(LAOStarEventListener):
        def __init__(self):
            self.steps = []

        def main_lao_star_loop(self, lv):
            self.steps.append({"expand": list(lv["expand_states"]),
                               "Z": sorted(lv["ancestors"].keys()),
                               "nodes": snapshot(lv["explicit_graph"])})

    if case.get("default_args"):
        # default constructor arguments (iteration budget, flags, no listener); only heuristic and seed
        lao = LAOStar(heuristic=lambda s: hv[s], seed=case["seed"])
    else:
        lao = LAOStar(heuristic=lambda s: hv[s], seed=case["seed"],
                      randomize_action_order=case["rao"], randomize_nextstate_order=case["rno"],
                      event_listener_class=Rec)
    outs = []
    for plan in case["plans"]:
        try:
            mdp = build_mdp(plan["mdp"])
            res = lao.plan_on(mdp)
            outs.append(plan_result(res, plan["mdp"]["n"], not case.get("default_args")))
        except BaseException as e:
            if isinstance(e, (KeyboardInterrupt, SystemExit)):
                raise
            outs.append({"error": type(e).__name__ + ": " + str(e)[:500], "trace_back": traceback.format_exc()[-1500:]})
    return {"plans": outs}


if __name__ == "__main__":
    run_cases(one)
