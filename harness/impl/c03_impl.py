"""C03 implementation runner: LAOStar on generated MDPs with a recording event listener.

Per case: {"plans": [{"mdp": gen_mdp case}, ...] planned on IN TURN BY ONE LAOStar OBJECT,
           "h": [[num, den], ...] heuristic value per state id (exact doubles),
           "seed": int, "rao": bool, "rno": bool, "default_args": bool}
Result per plan: convergence flag, initial value, every node of the explicit graph (value, optimal action,
expanded), the solution graph's states, the returned policy queried at EVERY state id, and one record
per main-loop iteration (expanded state, ancestor set Z, snapshot of all nodes after the revision)."""
import os, sys, json
sys.path.insert(0, os.path.dirname(os.path.abspath(__file__)))
from build import *


FALSY = {"int0": 0, "float0": 0.0, "empty_str": "", "empty_tuple": (), "false": False}


def state_label(rep, s, n):
    k = rep.get("labels", "int")
    if k == "int":
        return s
    if k == "perm":
        return 1000 - 7 * s                      # ints, order reversed, no 0
    if k == "str":
        return "q%d" % (n - s)                   # sorted order differs from index order
    if k == "tuple":
        return (s % 2, s // 2)
    if k.startswith("none:"):
        # one state (index j mod n) is labelled None itself, the others strings / tuples (seeded C03-21)
        if s == int(k.split(":")[1]) % n:
            return None
        return ("t", s) if s % 2 else "u%d" % s
    # falsy:<which>: state 0 carries a falsy label, the others strings / tuples (mixed types)
    if s == 0:
        return FALSY[k.split(":")[1]]
    return ("t", s) if s % 2 else "u%d" % s


def action_label(rep, a, nA=1):
    k = rep.get("alabels", "int")
    if k.startswith("none:"):
        # the action with id j mod nA is labelled None (a "wait" / no-op action), the others strings (seeded C03-21):
        # `x is not None` / dict.get(..) tests on a stored action cannot tell it from "no entry"
        return None if a == int(k.split(":")[1]) % nA else "b%d" % a
    if k == "int":
        return a
    if k == "str":
        return "act%d" % (9 - a)                 # reversed lexicographic order
    if a == 0:
        return FALSY[k.split(":")[1]]
    return "b%d" % a


def build_rep(m, rep):
    """msdm MDP from a gen_mdp case through the PUBLIC constructors, in the representation `rep`
    (label types, distribution classes, list/tuple action containers, tabular or plain QuickMDP or
    TabularMarkovDecisionProcess.from_matrices with float / integer arrays, initial_state vs initial_state_dist,
    int vs float discount, is_absorbing returning bool / np.bool_ / int / np.int64); returns the MDP and the label maps"""
    from msdm.core.mdp.quickmdp import QuickTabularMDP, QuickMDP
    from msdm.core.distributions import DictDistribution
    from msdm.core.distributions.dictdistribution import DeterministicDistribution
    n = m["n"]
    sl = [state_label(rep, s, n) for s in range(n)]
    al = [action_label(rep, a, m["nA"]) for a in range(m["nA"])]
    assert len(set(map(lambda x: (type(x).__name__, x), sl))) == n and len({(type(x).__name__, x) for x in al}) == m["nA"]
    mixed = rep.get("dist", "dict") == "mixed"
    import numpy as np
    from fractions import Fraction

    def num(x, reward=False):
        q = Fraction(x)
        if rep.get("int_numbers") and q.denominator == 1 and abs(q) < 2**53:
            return int(q)                                   # integer-typed input where floats are usual
        if reward and rep.get("float32_rewards") and Fraction(float(np.float32(float(q)))) == q:
            return np.float32(float(q))
        return float(q)
    trans, share = {}, {}
    for k, row in m["trans"].items():
        s, a = map(int, k.split(","))
        ps = [num(p) for ns, p in row]
        if mixed and len(row) == 1:
            d = DeterministicDistribution(sl[row[0][0]])
        elif mixed and len(row) > 1 and len(set(row_p for ns, row_p in row)) == 1:
            d = DictDistribution.uniform([sl[ns] for ns, p in row])
        else:
            d = DictDistribution({sl[ns]: p for (ns, _), p in zip(row, ps)})
        if rep.get("share"):
            # ONE distribution object for all (s, a) with the same row (and it is returned on every call)
            d = share.setdefault(json.dumps(row), d)
        trans[(s, a)] = d
    rew = {}
    for k, r in m["reward"].items():
        s, a, ns = map(int, k.split(","))
        rew[(s, a, ns)] = num(r, reward=True)
    sidx = {}
    for i, x in enumerate(sl):
        sidx[(type(x).__name__, x)] = i
    aidx = {(type(x).__name__, x): i for i, x in enumerate(al)}
    si = lambda x: sidx[(type(x).__name__, x)]
    ai = lambda x: aidx[(type(x).__name__, x)]
    as_list = rep.get("actions_as", "tuple") == "list"
    acts = [([al[a] for a in row] if as_list else tuple(al[a] for a in row)) for row in m["actions"]]
    if rep.get("share"):
        pool = {}
        acts = [pool.setdefault(json.dumps(row), x) for row, x in zip(m["actions"], acts)]   # one list object for equal action sets
    absorbing = list(m["absorbing"])
    g = fl(m["gamma"])
    if rep.get("gamma_int") and g == 1.0:
        g = 1
    kw = {}
    pos = [(s, p) for s, p in m["init"]]
    if rep.get("init_as") == "state" and len(pos) == 1:
        kw["initial_state"] = sl[pos[0][0]]
        if kw["initial_state"] is None:
            kw = {}
    if not kw:
        kw["initial_state_dist"] = DictDistribution({sl[s]: num(p) for s, p in m["init"]})
    # what is_absorbing RETURNS: a bool, or a truthy / falsy 0/1 number (indicator vectors, wrapper classes)
    ab_conv = {"bool": bool, "int": int, "np.int64": lambda x: np.int64(int(x)),
               "np.bool_": np.bool_}[rep.get("absorbing_as", "bool")]
    arrays = None
    if rep.get("cls") == "from_matrices":
        # the public array constructor TabularMarkovDecisionProcess.from_matrices; its is_absorbing returns the raw
        # entry of absorbing_state_vec (np.bool_ for a boolean vector, np.int64 0/1 for an integer indicator vector)
        from msdm.core.mdp.tabularmdp import TabularMarkovDecisionProcess
        nA = m["nA"]
        Tm, Rm, Am = np.zeros((n, nA, n)), np.zeros((n, nA, n)), np.zeros((n, nA))
        for k, row in m["trans"].items():
            s, a = map(int, k.split(","))
            Am[s, a] = 1
            for ns, p in row:
                Tm[s, a, ns] += float(Fraction(p))
        for (s, a, ns), r in rew.items():
            Rm[s, a, ns] = float(r)
        if rep.get("matrices_int"):
            # a user's hand-made integer tables
            Am = Am.astype(np.int64)
            if np.all(Rm == np.round(Rm)) and np.all(np.abs(Rm) < 2.0**53):
                Rm = Rm.astype(np.int64)
        ab_int = rep.get("absorbing_as", "bool") in ("int", "np.int64")
        abv = np.array([int(x) for x in absorbing], dtype=np.int64) if ab_int else np.array([bool(x) for x in absorbing])
        iv = np.zeros(n)
        for s, p in m["init"]:
            iv[s] += float(Fraction(p))
        arrays = [Tm, Rm, Am, abv, iv]
        mdp = TabularMarkovDecisionProcess.from_matrices(
            state_list=list(sl), action_list=list(al), initial_state_vec=iv, transition_matrix=Tm, action_matrix=Am,
            reward_matrix=Rm, absorbing_state_vec=abv, discount_rate=g)
        cls = QuickTabularMDP
    else:
        cls = QuickMDP if rep.get("cls") == "quick" else QuickTabularMDP
        mdp = cls(next_state_dist=lambda s, a: trans[(si(s), ai(a))],
                  reward=lambda s, a, ns: rew.get((si(s), ai(a), si(ns)), 0.0),
                  actions=lambda s: acts[si(s)],
                  is_absorbing=lambda s: ab_conv(absorbing[si(s)]),
                  discount_rate=g, **kw)
    if rep.get("touch") and cls is QuickTabularMDP:
        # a base object whose cached views were already used before planning
        try:
            _ = mdp.state_list, mdp.action_list, mdp.transition_matrix, mdp.reward_matrix
        except BaseException as e:
            if isinstance(e, (KeyboardInterrupt, SystemExit)):
                raise
    def frozen():
        """snapshot of every object handed to msdm (to detect mutation of the caller's objects)"""
        if arrays is not None:
            return repr([(x.dtype.str, x.shape, x.tobytes()) for x in arrays])
        return repr(([(k, type(d).__name__, sorted(((type(x).__name__, repr(x)), repr(p)) for x, p in d.items()))
                      for k, d in sorted(trans.items())],
                     [(type(x).__name__, list(map(repr, x))) for x in acts],
                     sorted((k, repr(v)) for k, v in rew.items()), list(absorbing),
                     sorted(((type(x).__name__, repr(x)), repr(p)) for x, p in kw.get("initial_state_dist", {}).items())))
    return mdp, sl, al, si, ai, frozen


def query_policy(res, sl, ai, only=None):
    pol = []
    for i, x in enumerate(sl):
        if only is not None and i not in only:
            pol.append(None)
            continue
        try:
            d = res.policy.action_dist(x)
            row = []
            for a, p in d.items():
                try:
                    row.append([ai(a), fj(p)])
                except KeyError:
                    row.append([repr(a), fj(p)])       # an action label the MDP does not have
            pol.append(row)
        except BaseException as e:
            if isinstance(e, (KeyboardInterrupt, SystemExit)):
                raise
            pol.append({"error": type(e).__name__ + ": " + str(e)[:200]})
    return pol


def snapshot(graph, si, ai):
    out = []
    for s, n in graph.states_to_nodes.items():
        try:
            a = ai(n.optimal_action)
        except KeyError:
            a = repr(n.optimal_action)
        out.append([si(s), fj(n.value), a, bool(n.expanded), int(n.visitorder), int(n.expandedorder)])
    return out


def make_heuristic(kind, hv, same_const, cur):
    """the heuristic argument in every form the unchanged LAOStar accepts: a callable (lambda, functools.partial,
    object with __call__, bound method) or - constant bound only - a non-callable number of any scalar type
    (int, float, bool, Fraction, numpy integer / floating scalars, 0-d array).  Types whose value cannot be
    represented fall back to float.  Returns (heuristic, name of the form actually used)."""
    import functools
    import numpy as np
    from fractions import Fraction
    look = lambda s: cur["hv"][cur["si"](s)]        # ONE callable; it reads the table of the problem at hand
    if kind == "partial":
        return functools.partial(lambda table, s: table["hv"][table["si"](s)], cur), "functools.partial"
    if kind == "callable_object":
        class H:
            def __call__(self, s):
                return look(s)
        return H(), "callable_object"
    if kind == "bound_method":
        class Tab:
            def value(self, s):
                return look(s)
        return Tab().value, "bound_method"
    if kind == "callable" or not same_const:
        return look, "lambda"
    c = hv[0]
    integral = c == int(c) and abs(c) < 2**31
    if kind == "int" and integral:
        return int(c), "int"
    if kind == "bool" and c in (0.0, 1.0):
        return bool(c), "bool"
    if kind == "Fraction":
        return Fraction(c), "Fraction"
    if kind == "np.int64" and integral:
        return np.int64(int(c)), "np.int64"
    if kind == "np.int32" and integral:
        return np.int32(int(c)), "np.int32"
    if kind == "np.uint8" and integral and 0 <= c < 256:
        return np.uint8(int(c)), "np.uint8"
    if kind == "np.bool_" and c in (0.0, 1.0):
        return np.bool_(bool(c)), "np.bool_"
    if kind == "np.float64":
        return np.float64(c), "np.float64"
    if kind == "array0d":
        return np.array(c), "array0d"
    if kind == "np.float32" and float(np.float32(c)) == c:
        return np.float32(c), "np.float32"
    return float(c), "float"


def plan_result(res, sl, si, ai, with_trace):
    out = {
        "converged": bool(res.converged),
        "iterations": int(res.iterations),
        "initial_value": fj(res.initial_value),
        "initial_states": [si(s) for s in res.explicit_graph.initial_states],
        "value_map": [[si(s), fj(v)] for s, v in res.state_value_map.items()],
        "solution_states": [si(s) for s in res.solution_graph.states_to_nodes.keys()],
        "tips": [si(s) for s in res.solution_graph.nonterminal_tip_states],
        # right after planning the policy is queried on the even-numbered states only; after the planner has
        # moved on it is queried everywhere (so the odd-numbered states are touched for the first time then)
        "policy_early": query_policy(res, sl, ai, only=set(range(0, len(sl), 2))),
    }
    if with_trace:
        out["nodes"] = snapshot(res.explicit_graph, si, ai)
        out["trace"] = [{"expand": [si(x) for x in st["expand"]], "Z": sorted(si(x) for x in st["Z"]),
                         "nodes": st["nodes"]} for st in res.event_listener.steps]
    else:
        out["n_nodes"] = len(res.explicit_graph.states_to_nodes)
    return out


def one(case, pl):
    """ONE LAOStar object; it plans on case["plans"][0], then [1], ... (same state/action labels).
    Everything is reported by state / action INDEX, whatever labels the representation uses."""
    from msdm.algorithms.laostar import LAOStar, LAOStarEventListener
    from fractions import Fraction
    import traceback
    rep = case.get("rep", {})
    tables = [[float(Fraction(int(x[0]), int(x[1]))) for x in plan.get("h", case["h"])] for plan in case["plans"]]
    hv = tables[0]
    same_const = len({v for t in tables for v in t}) == 1
    cur = {"hv": hv}

    class Rec(LAOStarEventListener):
        def __init__(self):
            self.steps = []

        def main_lao_star_loop(self, lv):
            self.steps.append({"expand": list(lv["expand_states"]),
                               "Z": list(lv["ancestors"].keys()),
                               "nodes": snapshot(lv["explicit_graph"], cur["si"], cur["ai"])})

    heur, h_type = make_heuristic(rep.get("h_as", "callable"), hv, same_const, cur)

    def make(**extra):
        if case.get("default_args"):
            # default constructor arguments (iteration budget, flags, no listener); only heuristic and seed
            return LAOStar(heuristic=heur, seed=case["seed"], **extra)
        return LAOStar(heuristic=heur, seed=case["seed"],
                       randomize_action_order=case["rao"], randomize_nextstate_order=case["rno"],
                       event_listener_class=Rec, **extra)
    lao = make()
    outs, kept, built = [], [], {}
    for pi_, plan in enumerate(case["plans"]):
        try:
            cur["hv"] = tables[pi_]
            key = json.dumps(plan["mdp"], sort_keys=True)
            if rep.get("mdp_reuse") and key in built:
                b = built[key]                      # the very same MDP object is planned on again
            else:
                b = build_rep(plan["mdp"], rep)
                built[key] = b
            mdp, sl, al, si, ai, frozen = b
            cur["si"], cur["ai"] = si, ai
            before = frozen()
            res = lao.plan_on(mdp)
            budget = None
            mode = case.get("budget_mode")
            if mode and res.iterations >= (1 if mode == "exact" else 2):
                # a fresh planner whose main-loop budget is exactly the number of expansions needed (the
                # loop runs out without passing through the `break`), or one short of it (must then
                # report converged = False: the warning branch of plan_on)
                budget = int(res.iterations) - (0 if mode == "exact" else 1)
                res = make(max_lao_star_iterations=budget).plan_on(mdp)
            o = plan_result(res, sl, si, ai, not case.get("default_args"))
            o["inputs_mutated"] = frozen() != before
            o["h_type"] = h_type
            o["budget"] = budget
            o["budget_mode"] = case.get("budget_mode") if budget is not None else None
            outs.append(o)
            kept.append((res, sl, si, ai, tables[pi_], frozen, before))
        except BaseException as e:
            if isinstance(e, (KeyboardInterrupt, SystemExit)):
                raise
            outs.append({"error": type(e).__name__ + ": " + str(e)[:500], "trace_back": traceback.format_exc()[-1500:]})
            kept.append(None)
    # the returned policies are queried AGAIN after the planner object has moved on to other MDPs
    for o, k in zip(outs, kept):
        if k is None:
            continue
        res, sl, si, ai, tb, frozen, before = k
        cur["si"], cur["ai"], cur["hv"] = si, ai, tb
        o["policy"] = query_policy(res, sl, ai)
        o["policy_stable"] = all(e is None or e == l for e, l in zip(o["policy_early"], o["policy"]))
        o["inputs_mutated"] = o["inputs_mutated"] or frozen() != before
        if len(sl) > 200:
            del o["policy_early"]
    return {"plans": outs}


if __name__ == "__main__":
    run_cases(one)
