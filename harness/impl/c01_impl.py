"""C01 implementation runner: ValueIteration (vectorized, dict) and PolicyIteration on generated MDPs."""
import os, sys
from fractions import Fraction
sys.path.insert(0, os.path.dirname(os.path.abspath(__file__)))
from build import *


_PLANNERS = {}
_PREV = None     # previous case's result objects and what they said
_LAST = {}   # planner objects are shared by all cases of a process with the same settings (object reuse)


def negated(case, explicit_lists=False):
    """the same MDP with state s labelled -s-1 and action a labelled -a-1 (sorted lists in reverse order)"""
    from msdm.core.mdp.quickmdp import QuickTabularMDP
    from msdm.core.distributions import DictDistribution
    S = lambda s: -s - 1
    trans, rew = {}, {}
    for k, row in case["trans"].items():
        s, a = map(int, k.split(","))
        trans[(S(s), S(a))] = DictDistribution({S(ns): fl(p) for ns, p in row})
    for k, r in case["reward"].items():
        s, a, ns = map(int, k.split(","))
        rew[(S(s), S(a), S(ns))] = fl(r)
    actions = {S(s): tuple(S(a) for a in acts) for s, acts in enumerate(case["actions"])}
    absorbing = {S(s): bool(x) for s, x in enumerate(case["absorbing"])}
    mdp = QuickTabularMDP(
        next_state_dist=lambda s, a: trans[(s, a)],
        reward=lambda s, a, ns: rew.get((s, a, ns), 0.0),
        actions=lambda s: actions[s],
        initial_state_dist=DictDistribution({S(s): fl(p) for s, p in case["init"]}),
        is_absorbing=lambda s: absorbing[s],
        discount_rate=fl(case["gamma"]),
    )
    if explicit_lists:
        mdp._state_list = tuple(sorted(S(s) for s in range(case["n"])))
        mdp._action_list = tuple(sorted(S(a) for a in range(case["nA"])))
    return mdp


def one(case, pl):
    from msdm.algorithms.valueiteration import ValueIteration
    from msdm.algorithms.policyiteration import PolicyIteration
    mdp = build_mdp(case["mdp"], explicit_lists=case.get("explicit_lists", False))
    order = case.get("action_order", "sorted")
    if order != "sorted":
        # actions(s) presented in an order different from the sorted action list
        import random as _r
        base_actions = mdp._actions
        perm_rng = _r.Random(case.get("action_order_seed", 0))
        cache = {}
        def permuted(s):
            if s not in cache:
                a = list(base_actions(s))
                if order == "desc":
                    a = a[::-1]
                else:
                    perm_rng.shuffle(a)
                cache[s] = tuple(a)
            return cache[s]
        mdp._actions = permuted
    if case.get("via_from_matrices"):
        # the array constructor, optionally with integer-typed reward / absorbing arrays (a user's hand-made tables)
        import numpy as np
        from msdm.core.mdp.tabularmdp import TabularMarkovDecisionProcess
        R = np.array(mdp.reward_matrix)
        if case["via_from_matrices"].get("int_rewards") and np.all(R == np.round(R)):
            R = R.astype(np.int64)
        ab = np.array(mdp.absorbing_state_vec)
        if case["via_from_matrices"].get("int_absorbing"):
            ab = ab.astype(np.int64)
        mdp = TabularMarkovDecisionProcess.from_matrices(
            state_list=list(mdp.state_list), action_list=list(mdp.action_list),
            initial_state_vec=np.array(mdp.initial_state_vec), transition_matrix=np.array(mdp.transition_matrix),
            action_matrix=np.array(mdp.action_matrix), reward_matrix=R, absorbing_state_vec=ab,
            discount_rate=mdp.discount_rate)
    if case.get("actions_shared_list") and len({tuple(a) for a in case["mdp"]["actions"]}) == 1:
        shared = list(case["mdp"]["actions"][0])      # ONE list object handed out for every state
        mdp._actions = lambda s, _l=shared: _l
    if case.get("int_gamma") and Fraction(case["mdp"]["gamma"]) == 1:
        mdp.discount_rate = 1                         # an int, as a user writing discount_rate=1 passes it
    snap = lambda: repr([(s, list(mdp.actions(s))) for s in mdp.state_list])
    before = snap()
    sl, al = list(mdp.state_list), list(mdp.action_list)
    res = {"state_list": sl, "action_list": al,
           "absorbing_vec": [bool(x) for x in mdp.absorbing_state_vec],
           # private attribute: cross-checked against the model when present, not required to exist
           "unable_vec": [bool(x) for x in mdp._unable_to_reach_absorbing] if hasattr(mdp, "_unable_to_reach_absorbing") else None,
           "planners": {}}
    uv = float("-inf") if case["undefined_value"] == "-inf" else fl(case["undefined_value"])
    eps, mi = fl(case["max_residual"]), int(case["max_iterations"])
    planners = {
        "vi_vec": lambda: ValueIteration(max_iterations=mi, max_residual=eps, undefined_value=uv),
        "vi_dict": lambda: ValueIteration(max_iterations=mi, max_residual=eps, undefined_value=uv, _version="dict"),
        "pi": lambda: PolicyIteration(max_iterations=mi, undefined_value=uv),
    }
    for name, mk in planners.items():
        try:
            key = (name, case["max_residual"], case["max_iterations"], case["undefined_value"])
            if key not in _PLANNERS:
                _PLANNERS[key] = mk()
            r = _PLANNERS[key].plan_on(mdp)
            _LAST[name] = r
            # the dict version's tables only span the actions it stored: an action outside a
            # table's action domain is "unavailable everywhere" (-inf) / probability 0
            qal, pal = list(r.action_value.action_list), list(r.policy.action_list)
            res["planners"][name] = {
                "V": [fj(r.state_value[s]) for s in sl],
                "Q": [[fj(r.action_value[s][a]) if a in qal else "-inf" for a in al] for s in sl],
                "pi": [[fj(r.policy[s][a]) if a in pal else [0, 1] for a in al] for s in sl],
                "initial_value": fj(r.initial_value),
                "converged": bool(r.converged), "iterations": int(r.iterations)}
        except BaseException as e:
            if isinstance(e, (KeyboardInterrupt, SystemExit)):
                raise
            res["planners"][name] = {"error": type(e).__name__ + ": " + str(e)[:300]}
    if snap() != before:
        res["planners"]["vi_vec"] = {"error": "CallerObjectMutated: actions(s) of the problem changed during planning"}
    # results of the PREVIOUS case of this process, read again after this case's planning (same planner objects):
    # they must still say what they said then
    global _PREV
    if _PREV is not None:
        for name, (robj, psl, pal, enc) in _PREV.items():
            try:
                now = {"V": [fj(robj.state_value[s]) for s in psl],
                       "pi": [[fj(robj.policy[s][a]) if a in list(robj.policy.action_list) else [0, 1] for a in pal] for s in psl]}
            except BaseException as e:
                now = {"error": type(e).__name__}
            if now != enc:
                res["planners"][name] = {"error": "StaleResultChanged: the result of an earlier plan_on call reads differently after a later call on the same planner"}
    _PREV = {}
    for name in ("vi_vec", "vi_dict", "pi"):
        key = (name, case["max_residual"], case["max_iterations"], case["undefined_value"])
        r0 = _LAST.get(name)
        if r0 is not None and "error" not in res["planners"].get(name, {}):
            _PREV[name] = (r0, sl, al, {"V": res["planners"][name]["V"], "pi": res["planners"][name]["pi"]})
    if case.get("batch"):
        # the batch entry point of policy iteration: this MDP planned together with variants of itself (same
        # state/action sets, rewards scaled, other discount rates) at a chosen position of the batch
        try:
            b = case["batch"]
            mdps = []
            for v in b["variants"]:
                if v is None:
                    mdps.append(mdp)
                else:
                    mv = dict(case["mdp"])
                    mv["reward"] = {k: str(Fraction(x) * Fraction(v["scale"])) for k, x in case["mdp"]["reward"].items()}
                    mv["gamma"] = v["gamma"]
                    mvo = (negated(mv, explicit_lists=case.get("explicit_lists", False)) if v.get("negated_labels") else
                           build_mdp(mv, explicit_lists=case.get("explicit_lists", False)))
                    if v.get("int_gamma") and Fraction(v["gamma"]) == 1:
                        mvo.discount_rate = 1
                    mdps.append(mvo)
            key = ("pi", case["max_residual"], case["max_iterations"], case["undefined_value"])
            if key not in _PLANNERS:
                _PLANNERS[key] = planners["pi"]()
            rs = _PLANNERS[key].batch_plan_on(mdps)
            if len(rs) != len(mdps):
                raise AssertionError("batch_plan_on returned %d results for %d problems" % (len(rs), len(mdps)))
            r = rs[b["variants"].index(None)]
            if list(r.state_value.state_list) != sl:
                raise AssertionError("batch result carries another problem's state list")
            res["planners"]["pi_batch"] = {
                "V": [fj(r.state_value[s]) for s in sl],
                "Q": [[fj(r.action_value[s][a]) for a in al] for s in sl],
                "pi": [[fj(r.policy[s][a]) for a in al] for s in sl],
                "initial_value": fj(r.initial_value),
                "converged": bool(r.converged), "iterations": int(r.iterations)}
        except BaseException as e:
            if isinstance(e, (KeyboardInterrupt, SystemExit)):
                raise
            res["planners"]["pi_batch"] = {"error": type(e).__name__ + ": " + str(e)[:300]}
    return res


if __name__ == "__main__":
    run_cases(one)
