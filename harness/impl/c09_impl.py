"""C09 implementation runner: finite-state-controller evaluation, the controller object, and the two
controller learners (bounded policy iteration, gradient ascent) on generated tabular POMDPs.

case["kind"]:
  "eval": stochastic_fsc_policy_evaluation_exact on (pomdp, controller); the probability the
          StochasticFiniteStateController object gives to every action/observation history up to
          length hist_len (through initial_agentstate / action_dist / next_agentstate, exactly what
          run_on calls); a few run_on trajectories (episode convention)
  "bpi":  FSCBoundedPolicyIteration.train_on with the evaluator name inside the module wrapped to
          record every evaluated controller and value table, and improve_node_fn wrapped to record
          every LP answer
  "ga":   FSCGradientAscent.train_on
"""
import os, sys
sys.path.insert(0, os.path.dirname(os.path.abspath(__file__)))
from build import *
import itertools
import random


def _lab(x):
    """JSON label -> hashable msdm label (lists become tuples)"""
    return tuple(_lab(y) for y in x) if isinstance(x, list) else x


def build_pomdp(c):
    """c: generated case (dense arrays over generator indices, optional labels for states / actions /
    observations), or a bundled domain ("domain": tiger / heavenorhell)"""
    from msdm.core.pomdp import TabularPOMDP
    from msdm.core.distributions import DictDistribution
    if "domain" in c:
        if c["domain"] == "tiger":
            from msdm.domains.tiger import Tiger
            return Tiger(coherence=fl(c["coherence"]), discount_rate=fl(c["gamma"]))
        if c["domain"] == "heavenorhell":
            from msdm.domains.heavenorhell import HeavenOrHell
            return HeavenOrHell(coherence=fl(c["coherence"]), discount_rate=fl(c["gamma"]), grid=c["grid"])
        raise ValueError("unknown domain")
    nS, nA, nO = c["nS"], c["nA"], c["nO"]
    T = [[[fl(x) for x in row] for row in sa] for sa in c["T"]]
    Rw = [[[fl(x) for x in row] for row in sa] for sa in c["Rw"]]
    Ob = [[[fl(x) for x in row] for row in at] for at in c["Ob"]]
    s0 = [fl(x) for x in c["s0"]]
    absorbing = list(c["absorbing"])
    gamma = fl(c["gamma"])
    if c.get("gamma_int") and gamma == int(gamma):
        gamma = int(gamma)          # discount passed as a Python int (0)
    labs = c.get("labels") or {}
    ls = [_lab(x) for x in labs.get("s", list(range(nS)))]
    la = [_lab(x) for x in labs.get("a", list(range(nA)))]
    lo = [_lab(x) for x in labs.get("o", list(range(nO)))]
    si = {x: i for i, x in enumerate(ls)}
    ai = {x: i for i, x in enumerate(la)}
    assert len(si) == nS and len(ai) == nA and len(set(lo)) == nO

    if c.get("int_rewards"):      # integer-typed rewards where the value is integral
        Rw = [[[int(x) if x == int(x) else x for x in row] for row in sa] for sa in Rw]
    shared = bool(c.get("shared_objects"))
    la_shared = list(la)          # ONE mutable list object handed out by actions(s) for every state
    dist_cache = {}               # ONE distribution object per (s, a) / (a, ns) / initial, handed out on every call

    def cached(key, mk):
        if not shared:
            return mk()
        if key not in dist_cache:
            dist_cache[key] = mk()
        return dist_cache[key]

    class GenPOMDP(TabularPOMDP):
        discount_rate = gamma

        def initial_state_dist(self):
            return cached("init", lambda: DictDistribution({ls[s]: p for s, p in enumerate(s0) if p > 0}))

        def actions(self, s):
            return la_shared if shared else tuple(la)

        def next_state_dist(self, s, a):
            return cached(("T", s, a), lambda: DictDistribution({ls[t]: p for t, p in enumerate(T[si[s]][ai[a]]) if p > 0}))

        def reward(self, s, a, ns):
            return Rw[si[s]][ai[a]][si[ns]]

        def is_absorbing(self, s):
            return absorbing[si[s]]

        def observation_dist(self, a, ns):
            return cached(("O", a, ns), lambda: DictDistribution({lo[o]: p for o, p in enumerate(Ob[ai[a]][si[ns]]) if p > 0}))

    pomdp = GenPOMDP()

    def caller_objects_intact():
        """the caller's shared objects still hold what they held when they were handed out"""
        if la_shared != list(la):
            return "actions list"
        for key, d in dist_cache.items():
            if key == "init":
                want = {ls[s]: p for s, p in enumerate(s0) if p > 0}
            elif key[0] == "T":
                want = {ls[t]: p for t, p in enumerate(T[si[key[1]]][ai[key[2]]]) if p > 0}
            else:
                want = {lo[o]: p for o, p in enumerate(Ob[ai[key[1]]][si[key[2]]]) if p > 0}
            if dict(d.items()) != want:
                return "distribution object " + repr(key)
        return None
    pomdp._caller_objects_intact = caller_objects_intact
    if c.get("explicit_lists"):
        # explicit lists (in generator order, which need not be the sorted order of the labels):
        # states unreachable from the initial distribution stay in the model
        pomdp._state_list = tuple(ls)
        pomdp._action_list = tuple(la)
    pomdp._gen_index = ({x: i for i, x in enumerate(ls)}, {x: i for i, x in enumerate(la)}, {x: i for i, x in enumerate(lo)})
    return pomdp


def prime_with_other_discount(pomdp, c):
    """class: the SAME POMDP object used again after one of its parameters was changed.  The object is first
    evaluated (float64 and float32) under another discount rate, then `pomdp.discount_rate` is reassigned to the
    case's discount; everything the case measures afterwards must follow the CURRENT value"""
    if not c.get("gamma_first"):
        return
    import numpy as np, torch
    from msdm.algorithms.fscgradientascent import stochastic_fsc_policy_evaluation_exact
    final = pomdp.discount_rate
    pomdp.discount_rate = fl(c["gamma_first"])
    nA, nS, nO = pomdp.observation_matrix.shape
    for dt in (torch.float64, torch.float32):
        stochastic_fsc_policy_evaluation_exact(pomdp, torch.full((1, nA), 1.0 / nA, dtype=dt), torch.ones((1, nA, nO, 1), dtype=dt),
                                               fsc_initial_state=torch.ones(1, dtype=dt), dtype=dt)
    pomdp.discount_rate = final


def lists(pomdp):
    out = {"shape": list(pomdp.observation_matrix.shape)}
    gi = getattr(pomdp, "_gen_index", None)
    if gi is not None:
        out["state_list"] = [gi[0][s] for s in pomdp.state_list]
        out["action_list"] = [gi[1][a] for a in pomdp.action_list]
        out["observation_list"] = [gi[2][o] for o in pomdp.observation_list]
    else:
        # bundled domain: the model is built from the matrices msdm exposes (position space)
        out["matrices"] = {"T": fjn(pomdp.transition_matrix), "Rw": fjn(pomdp.reward_matrix),
                           "Ob": fjn(pomdp.observation_matrix),
                           "absorbing": [bool(pomdp.is_absorbing(s)) for s in pomdp.state_list],
                           "s0": fjn(pomdp.initial_state_vec)}
    return out


def traj_out(pomdp, tr, s0_label):
    """run_on trajectory in position space (indices into msdm's lists)"""
    sl, al, ol = list(pomdp.state_list), list(pomdp.action_list), list(pomdp.observation_list)
    steps_out = []
    for st in tr:
        steps_out.append({"s": sl.index(st.state), "a": al.index(st.action) if st.action is not None else None,
                          "ns": sl.index(st.nextstate) if st.nextstate is not None else None,
                          "r": fj(st.reward) if st.reward is not None else None,
                          # a value that is not in the observation list (None, ...) on a step that was taken is reported as such
                          "o": (ol.index(st.observation) if st.observation in ol else
                                (None if st.action is None else {"outside_observation_list": repr(st.observation)})),
                          "ag": fjn(_np(st.agentstate)),
                          "nag": fjn(_np(st.nextagentstate)) if st.nextagentstate is not None else None})
    return {"s0": sl.index(s0_label) if s0_label is not None else None, "steps": steps_out}


def _np(x):
    """controller tables, agent states and value tables may be torch tensors (with or without grad) or arrays"""
    import numpy as np
    return np.asarray(x.detach().double() if hasattr(x, "detach") else x, dtype=float)


def do_runs(pomdp, ctrl, c, nodes):
    """real executions: initial state given / sampled, initial agent state default / given, step caps 0, 1, n"""
    import numpy as np
    trajs = []
    sl = list(pomdp.state_list)
    caps = [int(c.get("max_steps", 6)), 0, 1, int(c.get("max_steps", 6))]
    for k in range(int(c.get("runs", 3))):
        rng = random.Random(1000 * int(c.get("run_seed", 0)) + k)
        cap = caps[k % len(caps)]
        kw = {}
        s0 = sl[(k + int(c.get("run_seed", 0))) % len(sl)]
        if k == 3:
            s0 = None                      # initial state sampled by run_on itself
        else:
            kw["initial_state"] = s0
        ag0 = None
        if k == 2:
            # explicit initial agent state (last node, one-hot), in whatever form the controller's own
            # initial_agentstate() has (tensor or array)
            proto = ctrl.initial_agentstate()
            ag0 = np.zeros(nodes); ag0[nodes - 1] = 1.0
            if hasattr(proto, "detach"):
                import torch
                kw["initial_agentstate"] = torch.tensor(ag0, dtype=proto.dtype)
            else:
                kw["initial_agentstate"] = ag0
        tr = ctrl.run_on(pomdp, max_steps=cap, rng=rng, **kw)
        o = traj_out(pomdp, tr, s0)
        o["max_steps"] = cap
        o["ag0"] = fjn(ag0) if ag0 is not None else None
        trajs.append(o)
    if c.get("long_run"):
        # an episode far beyond 1000 steps (unless it is absorbed earlier)
        cap = int(c["long_run"])
        s0 = sl[0]
        tr = ctrl.run_on(pomdp, initial_state=s0, max_steps=cap, rng=random.Random(int(c.get("run_seed", 0))))
        o = traj_out(pomdp, tr, s0)
        o["max_steps"] = cap
        o["ag0"] = None
        trajs.append(o)
    return trajs


def arr(x):
    import numpy as np
    return np.array([[fl(v) for v in row] for row in x]) if x and isinstance(x[0], list) else np.array([fl(v) for v in x])


def nd(x):
    """nested float array from nested list of 'n/d' strings"""
    import numpy as np
    def rec(y):
        return [rec(z) for z in y] if isinstance(y, list) else fl(y)
    return np.array(rec(x), dtype=float)


def fjn(a):
    """nested exact encoding of a numpy/torch array"""
    import numpy as np
    a = _np(a)
    def rec(y):
        return [rec(z) for z in y] if isinstance(y, list) else fj(y)
    return rec(a.tolist())


def hist_prob(ctrl, h):
    """probability the controller object gives to the actions of history h (driven as run_on drives it): the EXACT
    product of the doubles action_dist returns, as [numerator, denominator]"""
    from fractions import Fraction
    ag = ctrl.initial_agentstate()
    pr = Fraction(1)
    for (a, o) in h:
        pr *= Fraction(float(ctrl.action_dist(ag).prob(a)))
        ag = ctrl.next_agentstate(ag, a, o)
    return [pr.numerator, pr.denominator]


def run_eval(c):
    import numpy as np, torch
    from msdm.algorithms.fscgradientascent import stochastic_fsc_policy_evaluation_exact
    from msdm.core.pomdp.finitestatecontroller import StochasticFiniteStateController
    pomdp = build_pomdp(c["pomdp"])
    out = lists(pomdp)
    prime_with_other_discount(pomdp, c)
    f = c["fsc"]
    pi, om, ini = nd(f["pi"]), nd(f["om"]), nd(f["init"])
    snap = (pi.copy(), om.copy(), ini.copy())
    mutated = []
    try:
        # the evaluator's accepted input forms: node transitions 4-d p(n'|n,a,o) or 3-d p(n'|n,o);
        # with or without fsc_initial_state; dtype
        dt = getattr(torch, c.get("eval_dtype", "float64"))
        om_in = nd(f["om3"]) if c.get("om_form") == "3d" else om
        tpi, tom, tini = torch.tensor(pi, dtype=dt), torch.tensor(om_in, dtype=dt), torch.tensor(ini, dtype=dt)
        tsnap = (tpi.clone(), tom.clone(), tini.clone())
        r = stochastic_fsc_policy_evaluation_exact(pomdp, tpi, tom, fsc_initial_state=tini, dtype=dt)
        r0 = stochastic_fsc_policy_evaluation_exact(pomdp, tpi, tom, dtype=dt)
        if not (torch.equal(tpi, tsnap[0]) and torch.equal(tom, tsnap[1]) and torch.equal(tini, tsnap[2])):
            mutated.append("evaluator changed the strategy tensors it was given")
        out["eval"] = {"V": fjn(_np(r.state_controller_value)),
                       "state_value": fjn(_np(r.state_value)),
                       "expected_value": fj(float(r.expected_value)),
                       "V_noinit": fjn(_np(r0.state_controller_value)),
                       "noinit_has_value": hasattr(r0, "expected_value") or ("expected_value" in getattr(r0, "__dict__", {})),
                       "om_shape": list(tom.shape)}
    except BaseException as e:
        if isinstance(e, (KeyboardInterrupt, SystemExit)):
            raise
        out["eval"] = {"error": type(e).__name__ + ": " + str(e)[:300]}
    # the controller object, driven exactly as run_on drives it
    try:
        ctrl = StochasticFiniteStateController(pomdp, pi, om, ini)
        al, ol = list(pomdp.action_list), list(pomdp.observation_list)
        steps = [(a, o) for a in al for o in ol]
        hist = {}
        for L in range(1, int(c.get("hist_len", 3)) + 1):
            probs = []
            for h in itertools.product(steps, repeat=L):
                probs.append(hist_prob(ctrl, h))
            hist[str(L)] = probs
        out["hist"] = hist
    except BaseException as e:
        if isinstance(e, (KeyboardInterrupt, SystemExit)):
            raise
        out["hist"] = {"error": type(e).__name__ + ": " + str(e)[:300]}
    # the same controller built from torch tensors (the form gradient ascent returns)
    try:
        ctrl_t = StochasticFiniteStateController(pomdp, torch.tensor(pi), torch.tensor(om), torch.tensor(ini))
        out["hist_torch2"] = [hist_prob(ctrl_t, h) for h in itertools.product(steps, repeat=2)]
        if c.get("int_object") and all(float(x) in (0.0, 1.0) for x in np.concatenate([pi.ravel(), om.ravel(), ini.ravel()])):
            # integer-typed tables (a deterministic controller written with 0/1 ints)
            ctrl_i = StochasticFiniteStateController(pomdp, pi.astype(np.int64), om.astype(np.int64), ini.astype(np.int64))
            out["hist_int2"] = [hist_prob(ctrl_i, h) for h in itertools.product(steps, repeat=2)]
    except BaseException as e:
        if isinstance(e, (KeyboardInterrupt, SystemExit)):
            raise
        out["hist_torch2"] = {"error": type(e).__name__ + ": " + str(e)[:300]}
    # a few real executions (episode convention of run_on)
    try:
        out["runs"] = do_runs(pomdp, ctrl, c, len(pi))
    except BaseException as e:
        if isinstance(e, (KeyboardInterrupt, SystemExit)):
            raise
        import traceback
        out["runs"] = {"error": type(e).__name__ + ": " + str(e)[:300], "trace": traceback.format_exc()[-800:]}
    if not (np.array_equal(pi, snap[0]) and np.array_equal(om, snap[1]) and np.array_equal(ini, snap[2])):
        mutated.append("controller object changed the strategy arrays it was given")
    why = getattr(pomdp, "_caller_objects_intact", lambda: None)()
    if why:
        mutated.append("POMDP definition object changed: " + why)
    out["mutated"] = mutated
    if c.get("fsc_edit"):
        # the SAME object after its strategy tables were edited in place (its own attributes; whether they alias the
        # caller's arrays or are copies does not matter): histories must follow the tables it holds now
        try:
            f2 = c["fsc_edit"]
            try:
                ctrl.action_strategy[...] = _asform(ctrl.action_strategy, nd(f2["pi"]))
                ctrl.observation_strategy[...] = _asform(ctrl.observation_strategy, nd(f2["om"]))
                ctrl.initial_state_dist[...] = _asform(ctrl.initial_state_dist, nd(f2["init"]))
            except (ValueError, TypeError, RuntimeError) as e:
                out["edit"] = {"error": "tables not editable in place: " + type(e).__name__}      # read-only tables: nothing to judge
            else:
                h2 = {}
                for L in (1, 2):
                    h2[str(L)] = [hist_prob(ctrl, h) for h in itertools.product(steps, repeat=L)]
                out["edit"] = {"done": True, "hist": h2, "pi": fjn(ctrl.action_strategy), "om": fjn(ctrl.observation_strategy),
                               "init": fjn(ctrl.initial_state_dist)}
        except BaseException as e:
            if isinstance(e, (KeyboardInterrupt, SystemExit)):
                raise
            out["edit"] = {"raised": type(e).__name__ + ": " + str(e)[:300]}
    return out


def _asform(target, arr):
    """arr in the container form of target (tensor or array)"""
    if hasattr(target, "detach"):
        import torch
        return torch.tensor(arr, dtype=target.dtype)
    return arr


def run_bpi(c):
    import functools
    import numpy as np, torch
    import msdm.algorithms.fscboundedpolicyiteration as B
    pomdp = build_pomdp(c["pomdp"])
    out = lists(pomdp)
    prime_with_other_discount(pomdp, c)
    evals, lps = [], []
    orig_eval = B.stochastic_fsc_policy_evaluation_exact

    def rec_eval(pm, fa, fs, **kw):
        r = orig_eval(pm, fa, fs, **kw)
        evals.append({"pi": fjn(_np(fa)), "om": fjn(_np(fs)), "V": fjn(_np(r.state_controller_value))})
        return r

    # every public node-improvement routine / LP back end
    form = c.get("improve_fn", "matrix")
    if form == "matrix":
        base_fn = B.improve_node_matrix_constraint
    elif form == "matrix_cvxpy_lp":
        base_fn = functools.partial(B.improve_node_matrix_constraint, solver=B.Solvers.cvxpy_lp,
                                    solver_kwargs={"solver": c.get("cvxpy_solver", "CLARABEL")})
    elif form == "cvxpy":
        base_fn = functools.partial(B.improve_node_cvxpy, solver=c.get("cvxpy_solver", "CLARABEL"))
    else:
        raise ValueError("improve_fn " + form)

    def rec_lp(pm, V, node, **kw):
        r = base_fn(pm, V, node, **kw)
        lps.append({"node": int(node), "epsilon": fj(np.asarray(r.epsilon, dtype=float).reshape(-1)[0]), "improved": bool(r.improved),
                    "V_in": fjn(V), "pi_row": fjn(r.action_strategy), "om_row": fjn(r.observation_strategy)})
        return r

    B.stochastic_fsc_policy_evaluation_exact = rec_eval
    try:
        ckw = {"convergence_diff": fl(c["convergence_diff"])} if c.get("convergence_diff") else {}
        learner = B.FSCBoundedPolicyIteration(controller_state_count=int(c["nodes"]), iterations=int(c["iterations"]),
                                              seed=int(c["seed"]), improve_node_fn=rec_lp, **ckw)
        if c.get("pomdp_prev"):
            # object reuse: the same learner first trained on another POMDP (same labels, other numbers, possibly other sizes)
            first = learner.train_on(build_pomdp(c["pomdp_prev"]))
            first_snap = [np.array(_np(x)) for x in (first.policy.action_strategy, first.policy.observation_strategy,
                                                     first.policy.initial_state_dist, first.state_controller_value)]
            first_val = float(first.value)
            del evals[:]
            del lps[:]
        if c.get("prefix"):
            # the run with iterations=k is a prefix of the run with iterations=k+1 (same seed): every
            # intermediate stopping point is a result the learner can return, in particular one that
            # stops right after an escape-node step (no node improvement, hence no re-evaluation, follows)
            pre = []
            for k in range(int(c["iterations"])):
                try:
                    rk = B.FSCBoundedPolicyIteration(controller_state_count=int(c["nodes"]), iterations=k,
                                                     seed=int(c["seed"]), improve_node_fn=base_fn, **ckw).train_on(pomdp)
                    pre.append({"pi": fjn(rk.policy.action_strategy), "om": fjn(rk.policy.observation_strategy),
                                "init": fjn(rk.policy.initial_state_dist), "value": fj(rk.value),
                                "V": fjn(rk.state_controller_value), "converged": bool(rk.converged)})
                except BaseException as e:
                    if isinstance(e, (KeyboardInterrupt, SystemExit)):
                        raise
                    pre.append({"error": type(e).__name__ + ": " + str(e)[:300]})
            out["prefix_results"] = pre
            del evals[:]
            del lps[:]
        res = learner.train_on(pomdp)
        pol = res.policy
        out["result"] = {"pi": fjn(pol.action_strategy), "om": fjn(pol.observation_strategy),
                         "init": fjn(pol.initial_state_dist), "value": fj(res.value),
                         "V": fjn(res.state_controller_value), "converged": bool(res.converged)}
        if c.get("pomdp_prev"):
            # the FIRST call's result re-read after the second call
            now = [np.array(_np(x)) for x in (first.policy.action_strategy, first.policy.observation_strategy,
                                              first.policy.initial_state_dist, first.state_controller_value)]
            out["first_result_changed"] = not (all(np.array_equal(a, b) for a, b in zip(first_snap, now)) and float(first.value) == first_val)
        try:
            out["runs"] = do_runs(pomdp, pol, c, len(pol.action_strategy))
        except BaseException as e:
            if isinstance(e, (KeyboardInterrupt, SystemExit)):
                raise
            out["runs"] = {"error": type(e).__name__ + ": " + str(e)[:300]}
    except BaseException as e:
        if isinstance(e, (KeyboardInterrupt, SystemExit)):
            raise
        import traceback
        out["result"] = {"error": type(e).__name__ + ": " + str(e)[:300], "trace": traceback.format_exc()[-1200:]}
    finally:
        B.stochastic_fsc_policy_evaluation_exact = orig_eval
    out["evals"] = evals
    out["lps"] = lps
    why = getattr(pomdp, "_caller_objects_intact", lambda: None)()
    out["mutated"] = ["POMDP definition object changed: " + why] if why else []
    return out


def run_ga(c):
    import numpy as np, torch
    from msdm.algorithms.fscgradientascent import FSCGradientAscent
    pomdp = build_pomdp(c["pomdp"])
    out = lists(pomdp)
    prime_with_other_discount(pomdp, c)
    dtype = getattr(torch, c.get("dtype", "float64"))
    try:
        kw = {}
        if c.get("optimizer"):
            kw["optimizer"] = getattr(torch.optim, c["optimizer"])
        if c.get("log_iteration_progress"):
            kw["log_iteration_progress"] = int(c["log_iteration_progress"])
        learner = FSCGradientAscent(controller_state_count=int(c["nodes"]), iterations=int(c["iterations"]),
                                    learning_rate=fl(c.get("learning_rate", "1/10")), seed=int(c["seed"]),
                                    dtype=dtype, **kw)
        first = None
        if c.get("pomdp_prev"):
            first = learner.train_on(build_pomdp(c["pomdp_prev"]))     # object reuse
            first_snap = [np.array(_np(x)) for x in (first.policy.action_strategy, first.policy.observation_strategy,
                                                     first.policy.initial_state_dist, first.value.state_controller_value)]
        res = learner.train_on(pomdp)
        if first is not None:
            now = [np.array(_np(x)) for x in (first.policy.action_strategy, first.policy.observation_strategy,
                                              first.policy.initial_state_dist, first.value.state_controller_value)]
            out["first_result_changed"] = not all(np.array_equal(a, b) for a, b in zip(first_snap, now))
        pol = res.policy
        np_ = _np
        out["result"] = {"pi": fjn(np_(pol.action_strategy)), "om": fjn(np_(pol.observation_strategy)),
                         "init": fjn(np_(pol.initial_state_dist)),
                         "value": fj(float(res.value.expected_value)),
                         "V": fjn(np_(res.value.state_controller_value))}
        try:
            out["runs"] = do_runs(pomdp, pol, c, int(pol.action_strategy.shape[0]))
        except BaseException as e:
            if isinstance(e, (KeyboardInterrupt, SystemExit)):
                raise
            out["runs"] = {"error": type(e).__name__ + ": " + str(e)[:300]}
    except BaseException as e:
        if isinstance(e, (KeyboardInterrupt, SystemExit)):
            raise
        import traceback
        out["result"] = {"error": type(e).__name__ + ": " + str(e)[:300], "trace": traceback.format_exc()[-1200:]}
    why = getattr(pomdp, "_caller_objects_intact", lambda: None)()
    out["mutated"] = ["POMDP definition object changed: " + why] if why else []
    return out


def one(case, pl):
    k = case["kind"]
    if k == "eval":
        return run_eval(case)
    if k == "bpi":
        return run_bpi(case)
    if k == "ga":
        return run_ga(case)
    raise ValueError("unknown kind " + str(k))


if __name__ == "__main__":
    run_cases(one)
