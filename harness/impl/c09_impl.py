"""C09 implementation runner: finite-state-controller evaluation, the controller object, and the two
controller learners (bounded policy iteration, gradient ascent) on generated tabular POMDPs.

case["kind"]:
  "eval": stochastic_fsc_policy_evaluation_exact on (pomdp, controller); the probability the
          StochasticFiniteStateController object gives to every action/observation history up to
          length hist_len (through initial_agentstate / action_dist / next_agentstate, exactly what
          run_on calls); a few run_on trajectories (episode convention)
  "bpi":  FSCBoundedPolicyIteration.train_on with the evaluator name inside the module wrapped to
          record every evaluated controller and value table, and improve_node_fn wrapped to record
          every LP answer
  "ga":   FSCGradientAscent.train_on
"""
import os, sys
sys.path.insert(0, os.path.dirname(os.path.abspath(__file__)))
from build import *
import itertools
import random


def build_pomdp(c):
    from msdm.core.pomdp import TabularPOMDP
    from msdm.core.distributions import DictDistribution
    nS, nA, nO = c["nS"], c["nA"], c["nO"]
    T = [[[fl(x) for x in row] for row in sa] for sa in c["T"]]
    Rw = [[[fl(x) for x in row] for row in sa] for sa in c["Rw"]]
    Ob = [[[fl(x) for x in row] for row in at] for at in c["Ob"]]
    s0 = [fl(x) for x in c["s0"]]
    absorbing = list(c["absorbing"])
    gamma = fl(c["gamma"])

    class GenPOMDP(TabularPOMDP):
        discount_rate = gamma

        def initial_state_dist(self):
            return DictDistribution({s: p for s, p in enumerate(s0) if p > 0})

        def actions(self, s):
            return tuple(range(nA))

        def next_state_dist(self, s, a):
            return DictDistribution({t: p for t, p in enumerate(T[s][a]) if p > 0})

        def reward(self, s, a, ns):
            return Rw[s][a][ns]

        def is_absorbing(self, s):
            return absorbing[s]

        def observation_dist(self, a, ns):
            return DictDistribution({o: p for o, p in enumerate(Ob[a][ns]) if p > 0})

    pomdp = GenPOMDP()
    if c.get("explicit_lists"):
        # explicit lists: states unreachable from the initial distribution stay in the model
        pomdp._state_list = tuple(range(nS))
        pomdp._action_list = tuple(range(nA))
    return pomdp


def lists(pomdp):
    return {"state_list": list(pomdp.state_list), "action_list": list(pomdp.action_list),
            "observation_list": list(pomdp.observation_list),
            "shape": list(pomdp.observation_matrix.shape)}


def arr(x):
    import numpy as np
    return np.array([[fl(v) for v in row] for row in x]) if x and isinstance(x[0], list) else np.array([fl(v) for v in x])


def nd(x):
    """nested float array from nested list of 'n/d' strings"""
    import numpy as np
    def rec(y):
        return [rec(z) for z in y] if isinstance(y, list) else fl(y)
    return np.array(rec(x), dtype=float)


def fjn(a):
    """nested exact encoding of a numpy/torch array"""
    import numpy as np
    a = np.asarray(a, dtype=float)
    def rec(y):
        return [rec(z) for z in y] if isinstance(y, list) else fj(y)
    return rec(a.tolist())


def run_eval(c):
    import numpy as np, torch
    from msdm.algorithms.fscgradientascent import stochastic_fsc_policy_evaluation_exact
    from msdm.core.pomdp.finitestatecontroller import StochasticFiniteStateController
    pomdp = build_pomdp(c["pomdp"])
    out = lists(pomdp)
    f = c["fsc"]
    pi, om, ini = nd(f["pi"]), nd(f["om"]), nd(f["init"])
    try:
        # the evaluator's accepted input forms: node transitions 4-d p(n'|n,a,o) or 3-d p(n'|n,o);
        # with or without fsc_initial_state; dtype
        dt = getattr(torch, c.get("eval_dtype", "float64"))
        om_in = nd(f["om3"]) if c.get("om_form") == "3d" else om
        tpi, tom, tini = torch.tensor(pi, dtype=dt), torch.tensor(om_in, dtype=dt), torch.tensor(ini, dtype=dt)
        r = stochastic_fsc_policy_evaluation_exact(pomdp, tpi, tom, fsc_initial_state=tini, dtype=dt)
        r0 = stochastic_fsc_policy_evaluation_exact(pomdp, tpi, tom, dtype=dt)
        out["eval"] = {"V": fjn(r.state_controller_value.double().numpy()),
                       "state_value": fjn(r.state_value.double().numpy()),
                       "expected_value": fj(r.expected_value.item()),
                       "V_noinit": fjn(r0.state_controller_value.double().numpy()),
                       "noinit_has_value": hasattr(r0, "expected_value") or ("expected_value" in getattr(r0, "__dict__", {})),
                       "om_shape": list(tom.shape)}
    except BaseException as e:
        if isinstance(e, (KeyboardInterrupt, SystemExit)):
            raise
        out["eval"] = {"error": type(e).__name__ + ": " + str(e)[:300]}
    # the controller object, driven exactly as run_on drives it
    try:
        ctrl = StochasticFiniteStateController(pomdp, pi, om, ini)
        al, ol = list(pomdp.action_list), list(pomdp.observation_list)
        steps = [(a, o) for a in al for o in ol]
        hist = {}
        for L in range(1, int(c.get("hist_len", 3)) + 1):
            probs = []
            for h in itertools.product(steps, repeat=L):
                ag = ctrl.initial_agentstate()
                pr = 1.0
                for (a, o) in h:
                    pr = pr * float(ctrl.action_dist(ag).prob(a))
                    ag = ctrl.next_agentstate(ag, a, o)
                probs.append(fj(pr))
            hist[str(L)] = probs
        out["hist"] = hist
    except BaseException as e:
        if isinstance(e, (KeyboardInterrupt, SystemExit)):
            raise
        out["hist"] = {"error": type(e).__name__ + ": " + str(e)[:300]}
    # a few real executions (episode convention of run_on)
    try:
        trajs = []
        sl = list(pomdp.state_list)
        for k in range(int(c.get("runs", 3))):
            rng = random.Random(1000 * int(c.get("run_seed", 0)) + k)
            s0 = sl[k % len(sl)]
            tr = ctrl.run_on(pomdp, initial_state=s0, max_steps=int(c.get("max_steps", 6)), rng=rng)
            steps_out = []
            for st in tr:
                steps_out.append({"s": st.state, "a": st.action, "ns": st.nextstate,
                                  "r": fj(st.reward) if st.reward is not None else None, "o": st.observation,
                                  "ag": fjn(st.agentstate),
                                  "nag": fjn(st.nextagentstate) if st.nextagentstate is not None else None})
            trajs.append({"s0": s0, "steps": steps_out})
        out["runs"] = trajs
    except BaseException as e:
        if isinstance(e, (KeyboardInterrupt, SystemExit)):
            raise
        out["runs"] = {"error": type(e).__name__ + ": " + str(e)[:300]}
    return out


def run_bpi(c):
    import numpy as np, torch
    import msdm.algorithms.fscboundedpolicyiteration as B
    pomdp = build_pomdp(c["pomdp"])
    out = lists(pomdp)
    evals, lps = [], []
    orig_eval = B.stochastic_fsc_policy_evaluation_exact

    def rec_eval(pm, fa, fs, **kw):
        r = orig_eval(pm, fa, fs, **kw)
        evals.append({"pi": fjn(fa.detach().numpy()), "om": fjn(fs.detach().numpy()),
                      "V": fjn(r.state_controller_value.detach().numpy())})
        return r

    base_fn = getattr(B, c.get("improve_fn", "improve_node_matrix_constraint"))

    def rec_lp(pm, V, node, **kw):
        r = base_fn(pm, V, node, **kw)
        lps.append({"node": int(node), "epsilon": fj(r.epsilon), "improved": bool(r.improved),
                    "V_in": fjn(V), "pi_row": fjn(r.action_strategy), "om_row": fjn(r.observation_strategy)})
        return r

    B.stochastic_fsc_policy_evaluation_exact = rec_eval
    try:
        learner = B.FSCBoundedPolicyIteration(controller_state_count=int(c["nodes"]), iterations=int(c["iterations"]),
                                              seed=int(c["seed"]), improve_node_fn=rec_lp)
        res = learner.train_on(pomdp)
        pol = res.policy
        out["result"] = {"pi": fjn(pol.action_strategy), "om": fjn(pol.observation_strategy),
                         "init": fjn(pol.initial_state_dist), "value": fj(res.value),
                         "V": fjn(res.state_controller_value), "converged": bool(res.converged)}
    except BaseException as e:
        if isinstance(e, (KeyboardInterrupt, SystemExit)):
            raise
        import traceback
        out["result"] = {"error": type(e).__name__ + ": " + str(e)[:300], "trace": traceback.format_exc()[-1200:]}
    finally:
        B.stochastic_fsc_policy_evaluation_exact = orig_eval
    out["evals"] = evals
    out["lps"] = lps
    return out


def run_ga(c):
    import numpy as np, torch
    from msdm.algorithms.fscgradientascent import FSCGradientAscent
    pomdp = build_pomdp(c["pomdp"])
    out = lists(pomdp)
    dtype = getattr(torch, c.get("dtype", "float64"))
    try:
        res = FSCGradientAscent(controller_state_count=int(c["nodes"]), iterations=int(c["iterations"]),
                                learning_rate=fl(c.get("learning_rate", "1/10")), seed=int(c["seed"]),
                                dtype=dtype).train_on(pomdp)
        pol = res.policy
        def np_(t):
            return t.detach().double().numpy()
        out["result"] = {"pi": fjn(np_(pol.action_strategy)), "om": fjn(np_(pol.observation_strategy)),
                         "init": fjn(np_(pol.initial_state_dist)),
                         "value": fj(res.value.expected_value.item()),
                         "V": fjn(np_(res.value.state_controller_value))}
    except BaseException as e:
        if isinstance(e, (KeyboardInterrupt, SystemExit)):
            raise
        import traceback
        out["result"] = {"error": type(e).__name__ + ": " + str(e)[:300], "trace": traceback.format_exc()[-1200:]}
    return out


def one(case, pl):
    k = case["kind"]
    if k == "eval":
        return run_eval(case)
    if k == "bpi":
        return run_bpi(case)
    if k == "ga":
        return run_ga(case)
    raise ValueError("unknown kind " + str(k))


if __name__ == "__main__":
    run_cases(one)
