"""C14 implementation runner: Policy.run_on / evaluate_on / calc_returns and POMDPPolicy.run_on under a
scripted generator.

The generator handed to msdm is a `random.Random` subclass whose `random()` replays a recorded list of
floats (k / 2^21) and which logs every request (`choices`, `choice`, ...) with the number of raw draws it
used.  `choices`/`choice` themselves are CPython's own code running on the replayed floats.  A second
scripted generator is installed over the module-level functions of `random` (the process-global
generator) for the duration of a call, so a draw that by-passes the `rng` argument is seen and replayable.
"""
import os, sys
sys.path.insert(0, os.path.dirname(os.path.abspath(__file__)))
from build import *
import random
from fractions import Fraction

DEN = 2 ** 21
GLOBAL_NAMES = ["random", "choices", "choice", "shuffle", "sample", "randint", "randrange", "uniform",
                "getrandbits", "gauss", "normalvariate", "triangular", "betavariate", "expovariate",
                "randbytes"]


class StreamExhausted(Exception):
    pass


class StepGuard(Exception):
    pass


class Scripted(random.Random):
    def __init__(self, stream, name):
        # n -> n / 2^21 (exact: n < 2^21);  [num, k] -> num / 2^k (tiny values such as 2^-61, exact)
        self._u = [(n[0] / float(2 ** n[1])) if isinstance(n, list) else n / DEN for n in stream]
        self._pos = 0
        self.name = name
        self.requests = []
        super().__init__(0)

    def seed(self, *a, **k):
        pass

    def random(self):
        if self._pos >= len(self._u):
            raise StreamExhausted(self.name)
        u = self._u[self._pos]
        self._pos += 1
        return u

    def getrandbits(self, k):
        # seed material for child generators (e.g. one privately seeded generator per simulation): deterministic per case,
        # logged, and NOT part of the replayed random() stream -- roll-outs that run on such children cannot be mirrored
        # draw by draw; they are judged on the recorded roll-outs themselves
        if not hasattr(self, "_bits"):
            import zlib
            self._bits = random.Random(zlib.crc32(repr((self.name, self._u[:64])).encode()))
        self.requests.append(["getrandbits", int(k), 0])
        return self._bits.getrandbits(k)

    def _logged(self, name, n, fn):
        start = self._pos
        r = fn()
        self.requests.append([name, n, self._pos - start])
        return r

    def choices(self, population, weights=None, *, cum_weights=None, k=1):
        return self._logged("choices", len(population),
                            lambda: random.Random.choices(self, population, weights, cum_weights=cum_weights, k=k))

    def choice(self, seq):
        return self._logged("choice", len(seq), lambda: random.Random.choice(self, seq))

    def shuffle(self, x):
        return self._logged("shuffle", len(x), lambda: random.Random.shuffle(self, x))

    def sample(self, population, k, **kw):
        return self._logged("sample", len(population), lambda: random.Random.sample(self, population, k, **kw))

    def summary(self):
        inreq = sum(r[2] for r in self.requests)
        return {"draws": self._pos, "requests": self.requests, "draws_outside_requests": self._pos - inreq}


# Scripted defines random() and getrandbits(): make sure integers come from random()
Scripted._randbelow = random.Random._randbelow_without_getrandbits


class GlobalPatch:
    def __init__(self, g):
        self.g = g

    def __enter__(self):
        self.saved = {n: getattr(random, n) for n in GLOBAL_NAMES if hasattr(random, n)}
        for n in self.saved:
            setattr(random, n, getattr(self.g, n))
        return self

    def __exit__(self, *a):
        for n, f in self.saved.items():
            setattr(random, n, f)


def dec_label(x):
    if isinstance(x, dict) and "tuple" in x:
        return tuple(dec_label(y) for y in x["tuple"])
    return x


class Labels:
    """id <-> label maps (ids are what the model uses; labels are what msdm sees)"""
    def __init__(self, case):
        lab = (case.get("opts") or {}).get("labels")
        n, nA = case["mdp"]["n"], case["mdp"]["nA"]
        self.S = [dec_label(x) for x in lab["states"]] if lab else list(range(n))
        self.A = [dec_label(x) for x in lab["actions"]] if lab else list(range(nA))
        self.Sid = {l: i for i, l in enumerate(self.S)}
        self.Aid = {l: i for i, l in enumerate(self.A)}
        assert len(self.Sid) == n and len(self.Aid) == nA

    def s(self, i):
        return None if i is None else self.S[i]

    def sid(self, l):
        return None if l is None else self.Sid[l]

    def aid(self, l):
        return None if l is None else self.Aid[l]


def mk_dist(d, lab=None):
    from msdm.core.distributions import DictDistribution
    from msdm.core.distributions.dictdistribution import UniformDistribution, DeterministicDistribution
    L = (lambda x: lab[x]) if lab is not None else (lambda x: x)
    if d["t"] == "dict":
        return DictDistribution({L(x): fl(p) for x, p in d["items"]})
    if d["t"] == "unif":
        return UniformDistribution(tuple(L(x) for x in d["items"]) if d.get("tuple") else [L(x) for x in d["items"]])
    if d["t"] == "det":
        return DeterministicDistribution(L(d["x"]))
    raise ValueError(d)


def num(case, s):
    """the number msdm is given for the rational s: a double; with opts.int_types integral values are Python ints"""
    f = Fraction(s)
    if (case.get("opts") or {}).get("int_types") and f.denominator == 1:
        return int(f)
    return float(f)


def snapshot(mdp, pol):
    """a printable copy of every caller-owned object a roll-out could touch (to detect mutation of the caller's inputs)"""
    import numpy as np
    parts = []
    for name in ("trans", "rew", "actions", "absorbing", "init"):
        o = getattr(mdp, "_c14_" + name, None)
        if isinstance(o, dict):
            parts.append(repr([(repr(k), repr(list(v.items())) if hasattr(v, "items") else repr(v)) for k, v in o.items()]))
        elif o is not None:
            parts.append(repr(list(o.items())) if hasattr(o, "items") else repr(o))
    for name in ("P", "R", "AM", "ini", "absvec"):
        o = getattr(mdp, "_c14_" + name, None)
        if o is not None:
            parts.append(o.tobytes().hex() + str(o.dtype))
    t = getattr(pol, "_c14_tbl", None)
    if t is not None:
        parts.append(repr([(repr(k), type(v).__name__, repr(list(v.items()))) for k, v in t.items()]))
    d = getattr(pol, "_c14_data", None)
    if d is not None:
        parts.append(d.tobytes().hex() + str(d.dtype))
    import hashlib
    return hashlib.sha1("|".join(parts).encode()).hexdigest()


def build_mdp14(case, m=None, lab=None):
    """the MDP of a C14 case through one of the public constructors, with the case's labels:
    repr 'quick' = QuickTabularMDP from functions/DictDistributions (zero entries kept, given order),
    repr 'matrices' = TabularMarkovDecisionProcess.from_matrices (dense arrays)"""
    import numpy as np
    from msdm.core.mdp.quickmdp import QuickTabularMDP
    from msdm.core.mdp.tabularmdp import TabularMarkovDecisionProcess
    from msdm.core.distributions import DictDistribution
    opts = case.get("opts") or {}
    m = m or case["mdp"]
    lab = lab or Labels(case)
    n, nA = m["n"], m["nA"]
    gamma = fl(m["gamma"])
    if opts.get("gamma_int"):
        gamma = int(Fraction(m["gamma"]))
    fl_ = lambda x: num(case, x)
    if opts.get("repr") == "matrices":
        dt = np.float32 if opts.get("float32") else (np.int64 if opts.get("int_arrays") else float)
        P = np.zeros((n, nA, n), dtype=dt); R = np.zeros((n, nA, n), dtype=np.float32 if opts.get("float32") else float)
        AM = np.zeros((n, nA), dtype=np.int64 if opts.get("int_types") else float)
        listed = m.get("listed", m["actions"])     # what actions(s) lists (may be fewer than the model defines, or none)
        for k, row in m["trans"].items():
            s, a = map(int, k.split(","))
            if a in listed[s]:
                AM[s, a] = 1
            for ns, p in row:
                P[s, a, ns] = fl(p)
        for k, r in m["reward"].items():
            s, a, ns = map(int, k.split(","))
            if P[s, a, ns] != 0:
                R[s, a, ns] = fl(r)
        ini = np.zeros(n, dtype=np.float32 if opts.get("float32") else float)
        for s, p in m["init"]:
            ini[s] = fl(p)
        mdp = TabularMarkovDecisionProcess.from_matrices(
            state_list=tuple(lab.S), action_list=tuple(lab.A), initial_state_vec=ini, transition_matrix=P,
            action_matrix=AM, reward_matrix=R, absorbing_state_vec=np.array(m["absorbing"], dtype=bool),
            discount_rate=gamma)
        mdp._c14_P, mdp._c14_R, mdp._c14_AM, mdp._c14_ini = P, R, AM, ini
    else:
        trans = {}
        shared = {}
        for k, row in m["trans"].items():
            s, a = map(int, k.split(","))
            key = tuple((ns, p) for ns, p in row)
            if key not in shared:            # ONE distribution object for all (s, a) with the same row
                shared[key] = DictDistribution({lab.S[ns]: fl_(p) for ns, p in row})
            trans[(lab.S[s], lab.A[a])] = shared[key]
        rew = {}
        for k, r in m["reward"].items():
            s, a, ns = map(int, k.split(","))
            rew[(lab.S[s], lab.A[a], lab.S[ns])] = fl_(r)
        # ONE list object returned by actions(s) for all states with the same action set
        alists = {}
        actions = {lab.S[s]: alists.setdefault(tuple(acts), [lab.A[a] for a in acts]) for s, acts in enumerate(m.get("listed", m["actions"]))}
        absorbing = {lab.S[s]: bool(x) for s, x in enumerate(m["absorbing"])}
        init = DictDistribution({lab.S[s]: fl_(p) for s, p in m["init"]})
        zero = 0 if opts.get("int_types") else 0.0
        mdp = QuickTabularMDP(
            next_state_dist=lambda s, a: trans[(s, a)],
            reward=lambda s, a, ns: rew.get((s, a, ns), zero),
            actions=lambda s: actions[s],
            initial_state_dist=init,
            is_absorbing=lambda s: absorbing[s],
            discount_rate=gamma)
        mdp._c14_trans, mdp._c14_rew, mdp._c14_actions, mdp._c14_absorbing, mdp._c14_init = trans, rew, actions, absorbing, init
    if (m is not case["mdp"] or "listed" in m) and opts.get("repr") != "matrices":
        # second MDP of a case (absorbing flags may differ from the generator's self-looping absorbing states): explicit lists,
        # so that the cached matrix views do not depend on reachability analysis
        mdp._state_list, mdp._action_list = tuple(lab.S), tuple(lab.A)
    if opts.get("touch"):
        # the object has been USED before the roll-out: cached views are filled
        mdp.state_list, mdp.action_list, mdp.transition_matrix, mdp.reward_matrix
        mdp.absorbing_state_vec, mdp.initial_state_vec, mdp.reachable_states()
    return mdp


def mk_policy(case, mdp):
    from msdm.core.mdp.policy import FunctionalPolicy
    from msdm.core.mdp.tabularpolicy import TabularPolicy
    import numpy as np
    p = case["policy"]
    lab = Labels(case)
    opts = case.get("opts") or {}
    if p["kind"] == "functional":
        tbl = {lab.S[s]: mk_dist(d, lab.A) for s, d in enumerate(p["dists"])}
        pol = FunctionalPolicy(lambda s: tbl[s])
        pol._c14_tbl = tbl
        return pol
    if p["kind"] == "tabular":
        n, nA = case["mdp"]["n"], case["mdp"]["nA"]
        dt = np.float32 if opts.get("float32") else (np.int64 if opts.get("int_arrays") else float)
        data = np.array([[fl(x) for x in row] for row in p["matrix"]], dtype=dt).reshape((n, nA))
        pol = TabularPolicy.from_state_action_lists(state_list=tuple(lab.S), action_list=tuple(lab.A), data=data)
        pol.__dict__["_c14_data"] = data
        return pol
    raise ValueError(p["kind"])


def guard_absorbing(mdp, limit):
    """count is_absorbing calls (one per loop iteration of run_on); stop runaway draw-free loops"""
    orig = mdp._is_absorbing
    cnt = [0]

    def f(s):
        cnt[0] += 1
        if cnt[0] > limit:
            raise StepGuard()
        return orig(s)
    mdp._is_absorbing = f
    return cnt, orig


def cap_of(case):
    return int(2 ** 30) if case["cap"] == "large" else int(case["cap"])


def container_probe(res, lab):
    """the remaining SimulationResult / Step entry points (msdm/core/mdp/policy.py:123-178), as booleans"""
    import warnings
    steps = list(res.steps)
    ok = {}
    ok["getitem_int"] = res[0] is steps[0] and res[-1] is steps[-1]
    ok["getitem_slice"] = res[:-1] == steps[:-1] and res[1:] == steps[1:]
    ok["getitem_col"] = res[:, "state"] == [st["state"] for st in steps] and res[[slice(None, -1), "action"]] == [st["action"] for st in steps[:-1]]
    ok["getitem_cols"] = res[:-1, ("state", "reward")] == [{"state": st["state"], "reward": st["reward"]} for st in steps[:-1]]
    try:
        res["state"]
        ok["getitem_invalid_raises"] = False
    except ValueError:
        ok["getitem_invalid_raises"] = True
    try:
        res[0, "state", 1]
        ok["getitem_3d_raises"] = False
    except AssertionError:
        ok["getitem_3d_raises"] = True
    ok["iter"] = [st for st in res] == steps
    ok["eq_self"] = (res == res) is True
    ok["step_attr"] = steps[0].state == steps[0]["state"] and steps[-1].action is None and steps[0].no_such_field is None
    ok["step_repr"] = repr(steps[-1]) == "Step(state=%s)" % (steps[-1]["state"],)
    with warnings.catch_warnings():
        warnings.simplefilter("ignore")
        ok["deprecated_trajs"] = (res.state_traj == tuple(res.state[:-1]) and res.action_traj == tuple(res.action[:-1])
                                  and res.reward_traj == tuple(res.reward[:-1]))
    return ok


def traj_json(res, lab):
    steps = list(res.steps)
    out = []
    for st in steps[:-1]:
        out.append([lab.sid(st["state"]), lab.aid(st["action"]), lab.sid(st["next_state"]), fj(st["reward"]), st.get("timestep")])
    last = steps[-1]
    return {"steps": out, "final": lab.sid(last["state"]), "final_keys": sorted(last.keys()),
            "acc_state": [lab.sid(x) for x in res.state],
            "acc_action": [lab.aid(x) for x in res.action],
            "acc_next_state": [lab.sid(x) for x in res.next_state],
            "acc_reward": [fj(x) for x in res.reward], "len": len(res), "container": container_probe(res, lab)}


def run_once(pol, mdp, lab, case, run):
    """one roll-out; `run` holds s0 / cap / stream / gstream / use_global"""
    guard = guard_absorbing(mdp, int(case.get("step_guard", 400)))
    rng, g = Scripted(run["stream"], "rng"), Scripted(run["gstream"], "global")
    kw = {}
    if run["cap"] != "default":
        kw["max_steps"] = cap_of(run)
    if not run.get("use_global"):
        kw["rng"] = rng            # else: the default generator (module `random`), here the scripted global one
    if run["s0"] is not None or not run.get("omit_s0"):
        kw["initial_state"] = lab.s(run["s0"])
    before = snapshot(mdp, pol)
    try:
        with GlobalPatch(g):
            res = pol.run_on(mdp, **kw)
    except StreamExhausted as e:
        return {"skipped": "stream exhausted (%s)" % e}
    except StepGuard:
        return {"skipped": "step guard"}
    finally:
        mdp._is_absorbing = guard[1]
    out = traj_json(res, lab)
    out["rng"], out["global"] = rng.summary(), g.summary()
    out["inputs_unchanged"] = snapshot(mdp, pol) == before
    out["_res"] = res
    return out


def one_mdp_run(case):
    lab = Labels(case)
    mdp = build_mdp14(case, lab=lab)
    pol = mk_policy(case, mdp)
    out = run_once(pol, mdp, lab, case, case)
    first = out.pop("_res", None)
    sec = case.get("second")
    if sec and "skipped" not in out:
        # the SAME policy object again: on the same MDP object, or on a second MDP with the same labels
        if sec.get("mdp_inplace"):
            # update the objects the MDP / policy hand out IN PLACE (DictDistribution is a dict: item assignment)
            m2 = sec["mdp"]
            for k, row in m2["trans"].items():
                s_, a_ = map(int, k.split(","))
                d = mdp._c14_trans[(lab.S[s_], lab.A[a_])]
                for ns, p in row:
                    d[lab.S[ns]] = num(case, p)
            mdp._c14_rew.clear()
            mdp._c14_rew.update({(lab.S[s_], lab.A[a_], lab.S[ns]): num(case, r)
                                 for (s_, a_, ns), r in ((tuple(map(int, k.split(","))), r) for k, r in m2["reward"].items())})
            for s_, x in enumerate(m2["absorbing"]):
                mdp._c14_absorbing[lab.S[s_]] = bool(x)
            for s_, p in m2["init"]:
                mdp._c14_init[lab.S[s_]] = num(case, p)
            if sec.get("policy"):
                for s_, d in enumerate(sec["policy"]["dists"]):
                    if d["t"] == "dict":
                        obj = pol._c14_tbl[lab.S[s_]]
                        for x, w in d["items"]:
                            obj[lab.A[x]] = fl(w)
            mdp2 = mdp
        else:
            mdp2 = mdp if sec.get("mdp") is None else build_mdp14(case, m=sec["mdp"], lab=lab)
        out["second"] = run_once(pol, mdp2, lab, case, sec)
        out["second"].pop("_res", None)
        # the FIRST result, queried again after the second call
        again = traj_json(first, lab)
        out["first_result_stable"] = all(again[k] == out[k] for k in again)
    if case.get("twice") and "skipped" not in out:
        # the same problem built and run a second time in this process: same outcome
        c2 = {k: v for k, v in case.items() if k not in ("twice", "second")}
        o2 = one_mdp_run(c2)
        out["twice_same"] = all(o2.get(k) == out.get(k) for k in ("steps", "final", "rng", "global", "acc_state", "acc_reward"))
    return out


def one_mdp_eval(case):
    from msdm.core.mdp.policy import Policy     # TabularPolicy overrides evaluate_on with the exact evaluator
    lab = Labels(case)
    mdp = build_mdp14(case, lab=lab)
    pol = mk_policy(case, mdp)
    opts = case.get("opts") or {}
    if opts.get("warmup"):
        # the policy and MDP objects have been used for a roll-out and an evaluation before
        w = guard_absorbing(mdp, 60)
        try:
            with GlobalPatch(Scripted(case["gstream"], "global")):
                pol.run_on(mdp, max_steps=3, rng=Scripted(opts["warmup"], "warm"))
                Policy.evaluate_on(pol, mdp, n_simulations=1, max_steps=2, rng=Scripted(opts["warmup"], "warm"))
        except (StreamExhausted, StepGuard):
            pass
        finally:
            mdp._is_absorbing = w[1]
    guard = guard_absorbing(mdp, int(case.get("step_guard_total", 400)))
    rng, g = Scripted(case["stream"], "rng"), Scripted(case["gstream"], "global")
    recs = []
    orig = pol.run_on

    def rec(*a, **k):
        r = orig(*a, **k)
        recs.append(r)
        return r
    try:
        pol.run_on = rec
    except Exception:
        object.__setattr__(pol, "run_on", rec)
    before = snapshot(mdp, pol)
    try:
        with GlobalPatch(g):
            ev = Policy.evaluate_on(pol, mdp, n_simulations=int(case["n_sims"]), max_steps=cap_of(case), rng=rng)
    except StreamExhausted as e:
        return {"skipped": "stream exhausted (%s)" % e}
    except StepGuard:
        return {"skipped": "step guard"}
    finally:
        mdp._is_absorbing = guard[1]
    unchanged = snapshot(mdp, pol) == before

    def tables(ev):
        sl = list(ev.state_value.state_list)
        av_sl, av_al = list(ev.action_value.state_list), list(ev.action_value.action_list)
        occ_sl = list(ev.state_occupancy.state_list)
        return {"state_value": [[lab.sid(s), fj(ev.state_value[s])] for s in sl],
                "action_value": [[lab.sid(s), lab.aid(a), fj(ev.action_value[s][a])] for s in av_sl for a in av_al],
                "occupancy": [[lab.sid(s), fj(ev.state_occupancy[s])] for s in occ_sl],
                "initial_value": fj(ev.initial_value)}
    first_tables = tables(ev)
    if case.get("high_volume"):
        # identical roll-outs are reported once, with their multiplicity
        groups, order = {}, []
        for r in recs:
            key = tuple((repr(st.get("state")), repr(st.get("action")), repr(st.get("next_state")), st.get("reward")) for st in r.steps)
            if key not in groups:
                groups[key] = [r, 0]
                order.append(key)
            groups[key][1] += 1
        rollouts = []
        for key in order:
            j = traj_json(groups[key][0], lab)
            j["mult"] = groups[key][1]
            rollouts.append(j)
    else:
        rollouts = [traj_json(r, lab) for r in recs]
    stable = None
    if opts.get("second_eval"):
        # a second evaluation with the same policy object (other n, cap, stream); then the FIRST result is read again
        w = guard_absorbing(mdp, 80)
        try:
            with GlobalPatch(Scripted(case["gstream"], "global")):
                Policy.evaluate_on(pol, mdp, n_simulations=2, max_steps=3, rng=Scripted(opts["second_eval"], "second"))
        except (StreamExhausted, StepGuard):
            pass
        finally:
            mdp._is_absorbing = w[1]
        stable = tables(ev) == first_tables and [traj_json(r, lab) for r in recs[:len(rollouts)]] == rollouts
    sl = list(ev.state_value.state_list)
    av_sl, av_al = list(ev.action_value.state_list), list(ev.action_value.action_list)
    occ_sl = list(ev.state_occupancy.state_list)

    out = {
        "inputs_unchanged": unchanged, "first_result_stable": stable,
        "state_value": [[lab.sid(s), fj(ev.state_value[s])] for s in sl],
        "action_value": [[lab.sid(s), lab.aid(a), fj(ev.action_value[s][a])] for s in av_sl for a in av_al],
        "occupancy": [[lab.sid(s), fj(ev.state_occupancy[s])] for s in occ_sl],
        "initial_value": fj(ev.initial_value),
        "n_simulations": ev.n_simulations,
        "rollouts": rollouts,
        "rng": rng.summary(), "global": g.summary(),
    }
    return out


def one_returns(case):
    from msdm.core.mdp.policy import Policy
    import numpy as np
    g = fl(case["gamma"])
    if case.get("gamma_int"):
        g = int(Fraction(case["gamma"]))          # discount_rate = 1 / 0 written as an int
    rs = [fl(r) for r in case["rewards"]]
    rets = Policy.calc_returns(rs, g)
    rets_int = Policy.calc_returns([int(Fraction(r)) if Fraction(r).denominator == 1 else fl(r) for r in case["rewards"]], g)
    out = {"returns": [fj(x) for x in rets], "returns_intlist": [fj(x) for x in rets_int]}
    out["inputs_unchanged"] = rs == [fl(r) for r in case["rewards"]]
    if not case.get("long"):
        if all(Fraction(r).denominator in (1, 2, 4) and abs(Fraction(r)) < 2 ** 20 for r in case["rewards"]):
            out["returns_float32"] = [fj(x) for x in Policy.calc_returns(np.array(rs, dtype=np.float32), g)]
        out["returns_tuple"] = [fj(x) for x in Policy.calc_returns(tuple(rs), g)]
        out["returns_ndarray"] = [fj(x) for x in Policy.calc_returns(np.array(rs), np.float64(g))]
    return out


class PLabels:
    """POMDP action / observation labels (states stay ids)"""
    def __init__(self, case):
        lab = case.get("plabels") or {}
        nA = case["mdp"]["nA"]
        self.A = [dec_label(x) for x in lab["actions"]] if lab.get("actions") else list(range(nA))
        self.O = [dec_label(x) for x in lab["obs"]] if lab.get("obs") else list(range(case["nO"]))
        self.Aid = {l: i for i, l in enumerate(self.A)}
        self.Oid = {l: i for i, l in enumerate(self.O)}
        assert len(self.Aid) == nA and len(self.Oid) == len(self.O)


def build_pomdp(case):
    from msdm.core.pomdp.tabularpomdp import TabularPOMDP
    from msdm.core.distributions import DictDistribution
    m = case["mdp"]
    lab = PLabels(case)
    trans = {}
    for k, row in m["trans"].items():
        s, a = map(int, k.split(","))
        trans[(s, lab.A[a])] = DictDistribution({ns: fl(p) for ns, p in row})
    rew = {}
    for k, r in m["reward"].items():
        s, a, ns = map(int, k.split(","))
        rew[(s, lab.A[a], ns)] = fl(r)
    obs = {}
    for k, d in case["obs"].items():
        a, ns = map(int, k.split(","))
        obs[(lab.A[a], ns)] = mk_dist(d, lab.O)
    actions = [tuple(lab.A[x] for x in a) for a in m.get("listed", m["actions"])]
    absorbing = list(m["absorbing"])
    init = DictDistribution({s: fl(p) for s, p in m["init"]})

    class GenPOMDP(TabularPOMDP):
        discount_rate = fl(m["gamma"])

        def next_state_dist(self, s, a):
            return trans[(s, a)]

        def reward(self, s, a, ns):
            return rew.get((s, a, ns), 0.0)

        def actions(self, s):
            return actions[s]

        def initial_state_dist(self):
            return init

        def is_absorbing(self, s):
            return self._is_absorbing(s)

        def observation_dist(self, a, ns):
            return obs[(a, ns)]
    p = GenPOMDP()
    p._is_absorbing = lambda s: absorbing[s]
    p._state_list = tuple(range(m["n"]))
    p._action_list = tuple(lab.A)
    return p


def mk_ppolicy(case, pomdp):
    from msdm.core.pomdp.policy import POMDPPolicy
    import numpy as np
    c = case["ctrl"]
    lab = PLabels(case)
    if c["kind"] == "fsc":
        # msdm's deterministic controller: action_strategy = list of actions (labels), observation_strategy indexed by the
        # POSITION of the observation in pomdp.observation_list (2-d: nodes x obs, 3-d: nodes x actions x obs)
        from msdm.core.pomdp.finitestatecontroller import FiniteStateController
        pos = pomdp.observation_index
        nN, nA, nO = len(c["actions"]), len(lab.A), len(pomdp.observation_list)
        if c["dim"] == 2:
            arr = np.zeros((nN, nO), dtype=int)
            for n in range(nN):
                for o in range(nO):
                    arr[n, pos[lab.O[o]]] = c["strategy"][n][o]
        else:
            arr = np.zeros((nN, nA, nO), dtype=int)
            for n in range(nN):
                for a in range(nA):
                    for o in range(nO):
                        arr[n, a, pos[lab.O[o]]] = c["strategy"][n][a][o]
        acts = [lab.A[a] for a in c["actions"]]
        if c.get("acts_tuple"):
            acts = tuple(acts)
        return FiniteStateController(pomdp, acts, arr, initial_state=c["init"])
    if c["kind"] == "belief":
        # value-based policies: agent states are Beliefs (msdm.core.pomdp.tabularpomdp.Belief)
        from msdm.core.pomdp.policy import ValueBasedTabularPOMDPPolicy
        if c["variant"] == "alpha":
            from msdm.core.pomdp.alphavectorpolicy import AlphaVectorPolicy
            return AlphaVectorPolicy(pomdp, np.array([[fl(x) for x in row] for row in c["alpha"]], dtype=float))

        class Myopic(ValueBasedTabularPOMDPPolicy):
            """expected one-step reward under the belief"""
            def action_value(self, b, a):
                return sum(p * q * self.pomdp.reward(s, a, ns)
                           for s, p in zip(*b) if p > 0
                           for ns, q in self.pomdp.next_state_dist(s, a).items())
        return Myopic(pomdp)
    if c["kind"] == "table":
        act = [mk_dist(d, lab.A) for d in c["act"]]
        nxt = c["next"]

        class TableController(POMDPPolicy):
            def initial_agentstate(self):
                return c["init"]

            def action_dist(self, ag):
                return act[ag]

            def next_agentstate(self, ag, a, o):
                return nxt[ag][lab.Aid[a]][lab.Oid[o]]
        return TableController()
    if c["kind"] == "sfsc":
        from msdm.core.pomdp.finitestatecontroller import StochasticFiniteStateController
        A = np.array([[fl(x) for x in row] for row in c["A"]], dtype=float)
        O = np.array([[[[fl(x) for x in r3] for r3 in r2] for r2 in r1] for r1 in c["O"]], dtype=float)
        ini = np.array([fl(x) for x in c["init"]], dtype=float)
        return StochasticFiniteStateController(pomdp, A, O, ini)
    raise ValueError(c["kind"])


def ag_json(ag):
    import numpy as np
    if isinstance(ag, (int, np.integer)):
        return int(ag)
    return [fj(x) for x in ag]


def one_pomdp_run(case):
    pomdp = build_pomdp(case)
    if case["ctrl"]["kind"] == "fsc":
        lab = PLabels(case)
        try:
            pol = mk_ppolicy(case, pomdp)
        except AssertionError as e:
            import traceback
            return {"fsc_construct_error": "AssertionError: " + str(e)[:200], "trace": traceback.format_exc()[-800:],
                    "observation_list": [lab.Oid[o] for o in pomdp.observation_list]}
        # the action distribution of node n must be the point mass on action_strategy[n]
        got = []
        for n, a in enumerate(case["ctrl"]["actions"]):
            sup = list(pol.action_dist(n).support)
            got.append([repr(x) for x in sup])
            if not (len(sup) == 1 and type(sup[0]) is type(lab.A[a]) and sup[0] == lab.A[a]):
                return {"fsc_action_dist_wrong": {"node": n, "expected_action": repr(lab.A[a]), "support": [repr(x) for x in sup]}}
    else:
        pol = mk_ppolicy(case, pomdp)
    out = pomdp_once(case, pomdp, pol, case)
    if case.get("second") and "skipped" not in out:
        out["second"] = pomdp_once(case, pomdp, pol, case["second"])      # same POMDP and policy objects again
    try:
        pol.evaluate_on(pomdp, n_simulations=1, max_steps=1)
        out["evaluate_on"] = "returned"
    except NotImplementedError:
        out["evaluate_on"] = "NotImplementedError"
    return out


def pomdp_once(c0, pomdp, pol, case):
    import numpy as np
    guard = guard_absorbing(pomdp, int(c0.get("step_guard", 400)))
    rng, g = Scripted(case["stream"], "rng"), Scripted(case["gstream"], "global")
    ag0 = case.get("ag0")
    belief = c0["ctrl"]["kind"] == "belief"
    if ag0 is not None and c0["ctrl"]["kind"] == "sfsc":
        ag0 = np.array([fl(x) for x in ag0], dtype=float)
    if belief:
        from msdm.core.pomdp.tabularpomdp import Belief
        if ag0 == "prior":
            ag0 = pol.initial_agentstate()            # the model prior, passed explicitly
        elif ag0 is not None:
            ag0 = Belief(tuple(pomdp.state_list), tuple(fl(x) for x in ag0))
    try:
        with GlobalPatch(g):
            traj = pol.run_on(pomdp, initial_state=case["s0"], initial_agentstate=ag0,
                              max_steps=cap_of(case), rng=rng)
    except StreamExhausted as e:
        return {"skipped": "stream exhausted (%s)" % e}
    except StepGuard:
        return {"skipped": "step guard"}
    finally:
        pomdp._is_absorbing = guard[1]
    lab = PLabels(c0)
    if belief:
        # agent states are reported as their position in the run (0, 1, 2, ...); what the policy's own functions say
        # about them is evaluated here, on the policy object itself
        want0 = pol.initial_agentstate() if ag0 is None else ag0
        chk = {"first_ag_ok": traj[0].agentstate == want0 and isinstance(traj[0].agentstate, Belief),
               "act_pos": [], "nag_ok": [], "chain_ok": []}
        supports = []
        steps = []
        for t, (st, nx) in enumerate(zip(traj[:-1], traj[1:])):
            d = pol.action_dist(st.agentstate)
            supports.append([lab.Aid[a] for a in d.support])
            chk["act_pos"].append(bool(d.prob(st.action) > 0))
            chk["nag_ok"].append(st.nextagentstate == pol.next_agentstate(st.agentstate, st.action, st.observation))
            chk["chain_ok"].append(nx.agentstate == st.nextagentstate)
            steps.append([int(st.state), t, lab.Aid[st.action], int(st.nextstate), fj(st.reward),
                          lab.Oid[st.observation], t + 1])
        last = traj[-1]
        return {"steps": steps, "final": [int(last.state), len(steps)],
                "final_rest_none": all(x is None for x in last[2:]),
                "supports": supports, "belief_checks": chk,
                "first_belief": [fj(x) for x in traj[0].agentstate.probs],
                "rng": rng.summary(), "global": g.summary()}
    steps = []
    for st in traj[:-1]:
        steps.append([int(st.state), ag_json(st.agentstate), lab.Aid[st.action], int(st.nextstate), fj(st.reward),
                      lab.Oid[st.observation], ag_json(st.nextagentstate)])
    last = traj[-1]
    return {"steps": steps, "final": [int(last.state), ag_json(last.agentstate)],
            "final_rest_none": all(x is None for x in last[2:]),
            "rng": rng.summary(), "global": g.summary()}


def probe_fsc(case):
    """is the deterministic FiniteStateController constructible at all? (reported, not part of the verdict)"""
    import numpy as np
    from msdm.core.pomdp.finitestatecontroller import FiniteStateController
    pomdp = build_pomdp(case)
    nO = len(pomdp.observation_list)
    out = {}
    for name, shape in (("2d", (2, nO)), ("3d", (2, len(pomdp.action_list), nO))):
        try:
            FiniteStateController(pomdp, [0, 0], np.zeros(shape, dtype=int))
            out[name] = "ok"
        except BaseException as e:
            out[name] = type(e).__name__
    return out


def one(case, pl):
    k = case["kind"]
    if k == "mdp_run":
        return one_mdp_run(case)
    if k == "mdp_eval":
        return one_mdp_eval(case)
    if k == "returns":
        return one_returns(case)
    if k == "pomdp_run":
        r = one_pomdp_run(case)
        if case.get("probe_fsc"):
            r["probe_fsc"] = probe_fsc(case)
        return r
    raise ValueError(k)


if __name__ == "__main__":
    run_cases(one)
