"""C14 implementation runner: Policy.run_on / evaluate_on / calc_returns and POMDPPolicy.run_on under a
scripted generator.

The generator handed to msdm is a `random.Random` subclass whose `random()` replays a recorded list of
floats (k / 2^21) and which logs every request (`choices`, `choice`, ...) with the number of raw draws it
used.  `choices`/`choice` themselves are CPython's own code running on the replayed floats.  A second
scripted generator is installed over the module-level functions of `random` (the process-global
generator) for the duration of a call, so a draw that by-passes the `rng` argument is seen and replayable.
"""
import os, sys
sys.path.insert(0, os.path.dirname(os.path.abspath(__file__)))
from build import *
import random
from fractions import Fraction

DEN = 2 ** 21
GLOBAL_NAMES = ["random", "choices", "choice", "shuffle", "sample", "randint", "randrange", "uniform",
                "getrandbits", "gauss", "normalvariate", "triangular", "betavariate", "expovariate",
                "randbytes"]


class StreamExhausted(Exception):
    pass


class StepGuard(Exception):
    pass


class Scripted(random.Random):
    def __init__(self, stream, name):
        self._u = [n / DEN for n in stream]          # exact: n < 2^21
        self._pos = 0
        self.name = name
        self.requests = []
        super().__init__(0)

    def seed(self, *a, **k):
        pass

    def random(self):
        if self._pos >= len(self._u):
            raise StreamExhausted(self.name)
        u = self._u[self._pos]
        self._pos += 1
        return u

    def getrandbits(self, k):
        raise RuntimeError("scripted generator: getrandbits requested")

    def _logged(self, name, n, fn):
        start = self._pos
        r = fn()
        self.requests.append([name, n, self._pos - start])
        return r

    def choices(self, population, weights=None, *, cum_weights=None, k=1):
        return self._logged("choices", len(population),
                            lambda: random.Random.choices(self, population, weights, cum_weights=cum_weights, k=k))

    def choice(self, seq):
        return self._logged("choice", len(seq), lambda: random.Random.choice(self, seq))

    def shuffle(self, x):
        return self._logged("shuffle", len(x), lambda: random.Random.shuffle(self, x))

    def sample(self, population, k, **kw):
        return self._logged("sample", len(population), lambda: random.Random.sample(self, population, k, **kw))

    def summary(self):
        inreq = sum(r[2] for r in self.requests)
        return {"draws": self._pos, "requests": self.requests, "draws_outside_requests": self._pos - inreq}


# Scripted defines random() and getrandbits(): make sure integers come from random()
Scripted._randbelow = random.Random._randbelow_without_getrandbits


class GlobalPatch:
    def __init__(self, g):
        self.g = g

    def __enter__(self):
        self.saved = {n: getattr(random, n) for n in GLOBAL_NAMES if hasattr(random, n)}
        for n in self.saved:
            setattr(random, n, getattr(self.g, n))
        return self

    def __exit__(self, *a):
        for n, f in self.saved.items():
            setattr(random, n, f)


def mk_dist(d):
    from msdm.core.distributions import DictDistribution
    from msdm.core.distributions.dictdistribution import UniformDistribution, DeterministicDistribution
    if d["t"] == "dict":
        return DictDistribution({x: fl(p) for x, p in d["items"]})
    if d["t"] == "unif":
        return UniformDistribution(tuple(d["items"]) if d.get("tuple") else list(d["items"]))
    if d["t"] == "det":
        return DeterministicDistribution(d["x"])
    raise ValueError(d)


def mk_policy(case, mdp):
    from msdm.core.mdp.policy import FunctionalPolicy
    from msdm.core.mdp.tabularpolicy import TabularPolicy
    import numpy as np
    p = case["policy"]
    if p["kind"] == "functional":
        tbl = [mk_dist(d) for d in p["dists"]]
        return FunctionalPolicy(lambda s: tbl[s])
    if p["kind"] == "tabular":
        n, nA = case["mdp"]["n"], case["mdp"]["nA"]
        data = np.array([[fl(x) for x in row] for row in p["matrix"]], dtype=float).reshape((n, nA))
        return TabularPolicy.from_state_action_lists(state_list=tuple(range(n)), action_list=tuple(range(nA)), data=data)
    raise ValueError(p["kind"])


def guard_absorbing(mdp, limit):
    """count is_absorbing calls (one per loop iteration of run_on); stop runaway draw-free loops"""
    orig = mdp._is_absorbing
    cnt = [0]

    def f(s):
        cnt[0] += 1
        if cnt[0] > limit:
            raise StepGuard()
        return orig(s)
    mdp._is_absorbing = f
    return cnt


def cap_of(case):
    return int(2 ** 30) if case["cap"] == "large" else int(case["cap"])


def traj_json(res):
    steps = list(res.steps)
    out = []
    for st in steps[:-1]:
        out.append([int(st["state"]), int(st["action"]), int(st["next_state"]), fj(st["reward"]), st.get("timestep")])
    last = steps[-1]
    return {"steps": out, "final": int(last["state"]), "final_keys": sorted(last.keys()),
            "acc_state": [None if x is None else int(x) for x in res.state],
            "acc_action": [None if x is None else int(x) for x in res.action],
            "acc_next_state": [None if x is None else int(x) for x in res.next_state],
            "acc_reward": [fj(x) for x in res.reward], "len": len(res)}


def one_mdp_run(case):
    mdp = build_mdp(case["mdp"])
    pol = mk_policy(case, mdp)
    guard = guard_absorbing(mdp, int(case.get("step_guard", 400)))
    rng, g = Scripted(case["stream"], "rng"), Scripted(case["gstream"], "global")
    kw = {}
    if case["cap"] != "default":
        kw["max_steps"] = cap_of(case)
    try:
        with GlobalPatch(g):
            res = pol.run_on(mdp, initial_state=case["s0"], rng=rng, **kw)
    except StreamExhausted as e:
        return {"skipped": "stream exhausted (%s)" % e}
    except StepGuard:
        return {"skipped": "step guard"}
    out = traj_json(res)
    out["rng"], out["global"] = rng.summary(), g.summary()
    return out


def one_mdp_eval(case):
    from msdm.core.mdp.policy import Policy     # TabularPolicy overrides evaluate_on with the exact evaluator
    mdp = build_mdp(case["mdp"])
    pol = mk_policy(case, mdp)
    guard = guard_absorbing(mdp, int(case.get("step_guard_total", 400)))
    rng, g = Scripted(case["stream"], "rng"), Scripted(case["gstream"], "global")
    recs = []
    orig = pol.run_on

    def rec(*a, **k):
        r = orig(*a, **k)
        recs.append(r)
        return r
    try:
        pol.run_on = rec
    except Exception:
        object.__setattr__(pol, "run_on", rec)
    try:
        with GlobalPatch(g):
            ev = Policy.evaluate_on(pol, mdp, n_simulations=int(case["n_sims"]), max_steps=cap_of(case), rng=rng)
    except StreamExhausted as e:
        return {"skipped": "stream exhausted (%s)" % e}
    except StepGuard:
        return {"skipped": "step guard"}
    sl = list(ev.state_value.state_list)
    av_sl, av_al = list(ev.action_value.state_list), list(ev.action_value.action_list)
    occ_sl = list(ev.state_occupancy.state_list)

    def key(a):
        return None if a is None else int(a)
    out = {
        "state_value": [[int(s), fj(ev.state_value[s])] for s in sl],
        "action_value": [[int(s), key(a), fj(ev.action_value[s][a])] for s in av_sl for a in av_al],
        "occupancy": [[int(s), fj(ev.state_occupancy[s])] for s in occ_sl],
        "initial_value": fj(ev.initial_value),
        "n_simulations": ev.n_simulations,
        "rollouts": [traj_json(r) for r in recs],
        "rng": rng.summary(), "global": g.summary(),
    }
    return out


def one_returns(case):
    from msdm.core.mdp.policy import Policy
    rets = Policy.calc_returns([fl(r) for r in case["rewards"]], fl(case["gamma"]))
    rets_int = Policy.calc_returns([int(Fraction(r)) if Fraction(r).denominator == 1 else fl(r) for r in case["rewards"]],
                                   fl(case["gamma"]))
    return {"returns": [fj(x) for x in rets], "returns_intlist": [fj(x) for x in rets_int]}


def build_pomdp(case):
    from msdm.core.pomdp.tabularpomdp import TabularPOMDP
    from msdm.core.distributions import DictDistribution
    m = case["mdp"]
    trans = {}
    for k, row in m["trans"].items():
        s, a = map(int, k.split(","))
        trans[(s, a)] = DictDistribution({ns: fl(p) for ns, p in row})
    rew = {}
    for k, r in m["reward"].items():
        s, a, ns = map(int, k.split(","))
        rew[(s, a, ns)] = fl(r)
    obs = {}
    for k, d in case["obs"].items():
        a, ns = map(int, k.split(","))
        obs[(a, ns)] = mk_dist(d)
    actions = [tuple(a) for a in m["actions"]]
    absorbing = list(m["absorbing"])
    init = DictDistribution({s: fl(p) for s, p in m["init"]})

    class GenPOMDP(TabularPOMDP):
        discount_rate = fl(m["gamma"])

        def next_state_dist(self, s, a):
            return trans[(s, a)]

        def reward(self, s, a, ns):
            return rew.get((s, a, ns), 0.0)

        def actions(self, s):
            return actions[s]

        def initial_state_dist(self):
            return init

        def is_absorbing(self, s):
            return self._is_absorbing(s)

        def observation_dist(self, a, ns):
            return obs[(a, ns)]
    p = GenPOMDP()
    p._is_absorbing = lambda s: absorbing[s]
    p._state_list = tuple(range(m["n"]))
    p._action_list = tuple(range(m["nA"]))
    return p


def mk_ppolicy(case, pomdp):
    from msdm.core.pomdp.policy import POMDPPolicy
    import numpy as np
    c = case["ctrl"]
    if c["kind"] == "table":
        act = [mk_dist(d) for d in c["act"]]
        nxt = c["next"]

        class TableController(POMDPPolicy):
            def initial_agentstate(self):
                return c["init"]

            def action_dist(self, ag):
                return act[ag]

            def next_agentstate(self, ag, a, o):
                return nxt[ag][a][o]
        return TableController()
    if c["kind"] == "sfsc":
        from msdm.core.pomdp.finitestatecontroller import StochasticFiniteStateController
        A = np.array([[fl(x) for x in row] for row in c["A"]], dtype=float)
        O = np.array([[[[fl(x) for x in r3] for r3 in r2] for r2 in r1] for r1 in c["O"]], dtype=float)
        ini = np.array([fl(x) for x in c["init"]], dtype=float)
        return StochasticFiniteStateController(pomdp, A, O, ini)
    raise ValueError(c["kind"])


def ag_json(ag):
    import numpy as np
    if isinstance(ag, (int, np.integer)):
        return int(ag)
    return [fj(x) for x in ag]


def one_pomdp_run(case):
    import numpy as np
    pomdp = build_pomdp(case)
    pol = mk_ppolicy(case, pomdp)
    guard = guard_absorbing(pomdp, int(case.get("step_guard", 400)))
    rng, g = Scripted(case["stream"], "rng"), Scripted(case["gstream"], "global")
    ag0 = case.get("ag0")
    if ag0 is not None and case["ctrl"]["kind"] == "sfsc":
        ag0 = np.array([fl(x) for x in ag0], dtype=float)
    try:
        with GlobalPatch(g):
            traj = pol.run_on(pomdp, initial_state=case["s0"], initial_agentstate=ag0,
                              max_steps=cap_of(case), rng=rng)
    except StreamExhausted as e:
        return {"skipped": "stream exhausted (%s)" % e}
    except StepGuard:
        return {"skipped": "step guard"}
    steps = []
    for st in traj[:-1]:
        steps.append([int(st.state), ag_json(st.agentstate), int(st.action), int(st.nextstate), fj(st.reward),
                      int(st.observation), ag_json(st.nextagentstate)])
    last = traj[-1]
    return {"steps": steps, "final": [int(last.state), ag_json(last.agentstate)],
            "final_rest_none": all(x is None for x in last[2:]),
            "rng": rng.summary(), "global": g.summary()}


def probe_fsc(case):
    """is the deterministic FiniteStateController constructible at all? (reported, not part of the verdict)"""
    import numpy as np
    from msdm.core.pomdp.finitestatecontroller import FiniteStateController
    pomdp = build_pomdp(case)
    nO = len(pomdp.observation_list)
    out = {}
    for name, shape in (("2d", (2, nO)), ("3d", (2, len(pomdp.action_list), nO))):
        try:
            FiniteStateController(pomdp, [0, 0], np.zeros(shape, dtype=int))
            out[name] = "ok"
        except BaseException as e:
            out[name] = type(e).__name__
    return out


def one(case, pl):
    k = case["kind"]
    if k == "mdp_run":
        return one_mdp_run(case)
    if k == "mdp_eval":
        return one_mdp_eval(case)
    if k == "returns":
        return one_returns(case)
    if k == "pomdp_run":
        r = one_pomdp_run(case)
        if case.get("probe_fsc"):
            r["probe_fsc"] = probe_fsc(case)
        return r
    raise ValueError(k)


if __name__ == "__main__":
    run_cases(one)
