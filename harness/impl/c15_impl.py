"""C15 implementation runner: augment / PlanToSubgoalOption.sub_task / Option.run_on /
SemiMarkovDecisionProcess on generated base MDPs.

Base MDPs are built as small MDP subclasses so that discount_rate (and the state/action
lists) can be held on the instance, on the class, or on a base class:

  style "table":  B(A(TableMDP(root)))   root = TabularMarkovDecisionProcess | MarkovDecisionProcess
                  methods read self._init/_acts/_trans/_rew/_abs ; discount_rate optionally on the
                  instance, on B, on A ; _state_list/_action_list on the instance, on A, or inferred
  style "quick":  QuickTabularMDP / QuickMDP (discount_rate always set on the instance by __init__)

Input representations (spec["labels"], spec["dist_as"], spec["actions_as"], spec["gamma_as_int"]):
the JSON case speaks of state / action IDS 0..n-1; the msdm objects see LABELS (ints, strings with
"" for id 0, tuples with () for id 0), distributions as DictDistribution or, where the row allows,
DeterministicDistribution / UniformDistribution, action collections as lists or tuples, integral
discounts as Python ints.  Everything reported back is decoded to ids.

Every roll-out an option performs is recorded by wrapping the option policy's run_on, so the
harness can replay the very simulations an outcome distribution was computed from.
"""
import os, sys, random
sys.path.insert(0, os.path.dirname(os.path.abspath(__file__)))
from build import *


# ---------------------------------------------------------------------------
class Labels:
    def __init__(self, spec, n, nA):
        spec = spec or {}
        sk, ak = spec.get("state", "int"), spec.get("action", "int")
        f = {"int": lambda i: i,
             "str": lambda i: "" if i == 0 else "s%d" % i,
             "tuple": lambda i: () if i == 0 else (i,)}
        self.s = [f[sk](i) for i in range(max(n + 2, 16))]          # a little beyond n: list overrides may name extra states
        fa = {"int": lambda j: j, "str": lambda j: "" if j == 0 else "a%d" % j}
        self.a = [fa[ak](j) for j in range(max(nA + 2, 8))]
        self.ds = {x: i for i, x in enumerate(self.s)}
        self.da = {x: j for j, x in enumerate(self.a)}

    def S(self, i): return self.s[i]
    def A(self, j): return self.a[j]
    def dS(self, x): return self.ds[x]
    def dA(self, x): return self.da[x]


LAB = None


def set_labels(base_spec):
    global LAB
    T = base_spec["tables"]
    LAB = Labels(base_spec.get("labels"), T["n"], T["nA"])


def gamma_value(g, as_int):
    x = fl(g)
    if as_int and x == int(x):
        return int(x)
    return x


def mk_dist(pairs, dist_as):
    """pairs: [(label, float)] in row order"""
    from msdm.core.distributions import DictDistribution
    from msdm.core.distributions.dictdistribution import DeterministicDistribution, UniformDistribution
    if dist_as == "auto":
        if len(pairs) == 1 and pairs[0][1] == 1:
            return DeterministicDistribution(pairs[0][0])
        if len(pairs) > 1 and all(p == 1.0 / len(pairs) for _, p in pairs):
            return UniformDistribution([e for e, _ in pairs])
    return DictDistribution(dict(pairs))


SNAPSHOTS = []      # (name, object, frozen content): caller-owned objects that msdm must not mutate


def freeze(obj):
    if isinstance(obj, (list, tuple)):
        return ("seq", type(obj).__name__, tuple(obj))
    if hasattr(obj, "items"):
        return ("dist", type(obj).__name__, tuple((e, p, type(p).__name__) for e, p in obj.items()))
    return ("other", repr(obj))


def watch(name, obj):
    SNAPSHOTS.append((name, obj, freeze(obj)))
    return obj


def mutated_objects():
    out = []
    for name, obj, frozen in SNAPSHOTS:
        try:
            if freeze(obj) != frozen:
                out.append(name)
        except BaseException as e:
            if isinstance(e, (KeyboardInterrupt, SystemExit)):
                raise
            out.append(name + ":unreadable")
    return sorted(set(out))


def num(x, ints):
    """float of an exact rational string; integral values as Python int when the case asks for integer-typed inputs"""
    v = fl(x)
    if ints and v == int(v) and abs(v) < 2 ** 53:
        return int(v)
    return v


def table_funcs(T, actions_as="list", dist_as="dict", ints=False, shared=False, tag="base"):
    n, nA = T["n"], T["nA"]
    S, A = LAB.S, LAB.A
    pool = {}

    def share(key, make):
        """shared=True: ONE object for equal contents (one list for equal action sets, one distribution for equal rows)"""
        if not shared:
            return make()
        if key not in pool:
            pool[key] = make()
        return pool[key]
    trans = {}
    for s in range(n):
        for a in range(nA):
            row = [(S(ns), num(p, ints)) for ns, p in T["trans"][s][a]]
            trans[(S(s), A(a))] = share(("d", tuple(row)), lambda row=row: mk_dist(row, dist_as))
    rew = {(S(s), A(a), S(ns)): num(T["rew"][s][a][ns], ints) for s in range(n) for a in range(nA) for ns in range(n)}
    acts = {}
    for s, x in enumerate(T["actions"]):
        lab = [A(a) for a in x]
        acts[S(s)] = share(("a", tuple(lab)), lambda lab=lab: (list(lab) if actions_as == "list" else tuple(lab)))
    absb = {S(s): bool(x) for s, x in enumerate(T["absorbing"])}
    init = mk_dist([(S(s), num(p, ints)) for s, p in T["init"]], dist_as)
    for k, v in trans.items():
        watch("%s.next_state_dist%r" % (tag, k), v)
    for k, v in acts.items():
        watch("%s.actions(%r)" % (tag, k), v)
    watch(tag + ".initial_state_dist", init)
    return {
        "initial_state_dist": lambda: init,
        "actions": lambda s: acts[s],
        "next_state_dist": lambda s, a: trans[(s, a)],
        "reward": lambda s, a, ns: rew[(s, a, ns)],
        "is_absorbing": lambda s: absb[s],
    }


def touch_base(m, tabular):
    """USE the base object so that its cached_property / method_cache entries get filled"""
    m.reachable_states()
    if not tabular:
        return
    from msdm.algorithms.valueiteration import ValueIteration
    m.state_list, m.action_list
    m.transition_matrix, m.reward_matrix, m.action_matrix, m.state_action_reward_matrix
    m.absorbing_state_vec, m.initial_state_vec, m.reachable_state_vec, m.dead_end_state_vec
    try:
        ValueIteration(max_iterations=20).plan_on(m)
    except BaseException as e:
        if isinstance(e, (KeyboardInterrupt, SystemExit)):
            raise


LAST_BASE = [None, None]


def make_base(spec):
    set_labels(spec)
    m = make_base_fresh(spec)
    LAST_BASE[0], LAST_BASE[1] = m, spec
    if spec.get("touch"):
        touch_base(m, spec["tabular"])
    return m


def make_base_fresh(spec):
    from msdm.core.mdp import MarkovDecisionProcess, TabularMarkovDecisionProcess
    from msdm.core.mdp.quickmdp import QuickMDP, QuickTabularMDP
    F = table_funcs(spec["tables"], spec.get("actions_as", "list"), spec.get("dist_as", "dict"),
                    ints=spec.get("ints", False), shared=spec.get("shared_objects", False))
    tabular = spec["tabular"]
    g = spec["gammas"]          # {"inst": str|None, "cls0": str|None, "cls1": str|None}
    gi = spec.get("gamma_as_int", False)
    lists = spec.get("lists")   # {"where": "inst"|"cls"|"inferred", "state_list": [...], "action_list": [...]} (tabular only)
    sl = tuple(LAB.S(s) for s in lists["state_list"]) if lists else None
    al = tuple(LAB.A(a) for a in lists["action_list"]) if lists else None
    if spec["style"] == "quick":
        cls = QuickTabularMDP if tabular else QuickMDP
        m = cls(next_state_dist=F["next_state_dist"], reward=F["reward"], actions=F["actions"],
                initial_state_dist=F["initial_state_dist"], is_absorbing=F["is_absorbing"],
                discount_rate=gamma_value(g["inst"], gi))
        if tabular and lists["where"] != "inferred":
            m._state_list = sl
            m._action_list = al
        return m
    root = TabularMarkovDecisionProcess if tabular else MarkovDecisionProcess

    class TableMDP(root):
        def __init__(self, F):
            self._init, self._acts, self._trans = F["initial_state_dist"], F["actions"], F["next_state_dist"]
            self._rew, self._abs = F["reward"], F["is_absorbing"]
        def initial_state_dist(self): return self._init()
        def actions(self, s): return self._acts(s)
        def next_state_dist(self, s, a): return self._trans(s, a)
        def reward(self, s, a, ns): return self._rew(s, a, ns)
        def is_absorbing(self, s): return self._abs(s)
    A = type("A", (TableMDP,), {})
    B = type("B", (A,), {})
    if g.get("cls1") is not None:
        A.discount_rate = gamma_value(g["cls1"], gi)
    if g.get("cls0") is not None:
        B.discount_rate = gamma_value(g["cls0"], gi)
    if tabular and lists["where"] == "cls":
        A._state_list = sl
        A._action_list = al
    m = B(F)
    if g.get("inst") is not None:
        m.discount_rate = gamma_value(g["inst"], gi)
    if tabular and lists["where"] == "inst":
        m._state_list = sl
        m._action_list = al
    return m


def attempt(f):
    try:
        return f()
    except BaseException as e:
        if isinstance(e, (KeyboardInterrupt, SystemExit)):
            raise
        return {"error": type(e).__name__}


def dump(o, n, nA):
    S, A, dS, dA = LAB.S, LAB.A, LAB.dS, LAB.dA

    def dist(d):
        return [[dS(e), fj(p)] for e, p in d.items()]
    return {
        "init": attempt(lambda: dist(o.initial_state_dist())),
        "actions": attempt(lambda: [[dA(a) for a in o.actions(S(s))] for s in range(n)]),
        "trans": attempt(lambda: [[dist(o.next_state_dist(S(s), A(a))) for a in range(nA)] for s in range(n)]),
        "rew": attempt(lambda: [[[fj(o.reward(S(s), A(a), S(ns))) for ns in range(n)] for a in range(nA)] for s in range(n)]),
        "abs": attempt(lambda: [bool(o.is_absorbing(S(s))) for s in range(n)]),
        "discount": attempt(lambda: fj(o.discount_rate)),
        "discount_type": attempt(lambda: type(o.discount_rate).__name__),
        "state_list": attempt(lambda: [dS(x) for x in o.state_list]),
        "action_list": attempt(lambda: [dA(x) for x in o.action_list]),
        "inst_keys": sorted(k for k in o.__dict__ if not k.startswith("_cached")),
    }


def ov_funcs(alt, keys):
    F = table_funcs(alt, tag="override")
    kw = {}
    for k in keys:
        if k == "state_list":
            kw[k] = tuple(LAB.S(s) for s in alt[k])
        elif k == "action_list":
            kw[k] = tuple(LAB.A(a) for a in alt[k])
        else:
            kw[k] = F[k]
    return kw


# ---------------------------------------------------------------------------
def case_augment(case):
    from msdm.core.semimdp.option import augment
    base = make_base(case["base"])
    T = case["base"]["tables"]
    n, nA = T["n"], T["nA"]
    out = {"base": dump(base, n, nA), "augs": []}
    kept = []
    for keys in case["subsets"]:
        try:
            aug = augment(base, **ov_funcs(case["alt"], keys))
        except BaseException as e:
            if isinstance(e, (KeyboardInterrupt, SystemExit)):
                raise
            out["augs"].append({"raised": type(e).__name__})
            continue
        out["augs"].append(dump(aug, n, nA))
        kept.append((len(out["augs"]) - 1, aug))
    # results of EARLIER calls re-read after all later calls (class-level / module-level state would show here),
    # and the same base problem constructed a second time in this process
    out["stale_changed"] = [i for i, aug in kept[:2] + kept[len(kept) // 2:len(kept) // 2 + 1] if dump(aug, n, nA) != out["augs"][i]]
    def functional(rep):
        return {k: rep[k] for k in ("init", "actions", "trans", "rew", "abs", "discount", "state_list", "action_list")}
    out["base_dump_changed"] = functional(dump(base, n, nA)) != functional(out["base"])
    out["rebuilt_base_differs"] = functional(dump(make_base_fresh(case["base"]), n, nA)) != functional(out["base"])
    return out


def subgoal_option(base, d, planner=None):
    from msdm.core.semimdp.option import PlanToSubgoalOption
    kw = {}
    if d["maxr"] is not None:
        kw["max_nonterminal_pseudoreward"] = fl(d["maxr"])
    if d.get("name") is not None:
        kw["name"] = d["name"]
    return PlanToSubgoalOption(mdp=base, initial_states=watch("initial_states", [LAB.S(s) for s in d["initial_states"]]),
                               subgoals=watch("subgoals", [LAB.S(s) for s in d["subgoals"]]), planner=planner,
                               include_mdp_absorbing_states=d["include"], **kw)


def case_subtask(case):
    base = make_base(case["base"])
    T = case["base"]["tables"]
    n, nA = T["n"], T["nA"]
    planner = None
    if case.get("plan"):
        from msdm.algorithms.valueiteration import ValueIteration
        planner = ValueIteration(max_iterations=30)
    opt = subgoal_option(base, case, planner)
    try:
        st = opt.sub_task
    except BaseException as e:
        if isinstance(e, (KeyboardInterrupt, SystemExit)):
            raise
        return {"base": dump(base, n, nA), "sub": {"raised": type(e).__name__}}
    out = {"base": dump(base, n, nA), "sub": dump(st, n, nA),
           "is_initial": [bool(opt.is_initial(LAB.S(s))) for s in range(n)],
           "is_terminal": [bool(opt.is_terminal(LAB.S(s))) for s in range(n)],
           "hashable": attempt(lambda: isinstance(hash(opt), int))}
    if case.get("plan"):
        # planning_result / policy of the option itself (policy is cached on the option: ask twice)
        def opt_plan():
            r = opt.planning_result
            p1, p2 = opt.policy, opt.policy
            sl, al = list(st.state_list), list(st.action_list)
            return {"V": [fj(r.state_value[s]) for s in sl], "pi": [[fj(p1[s][a]) for a in al] for s in sl],
                    "iterations": int(r.iterations), "policy_cached": p1 is p2}
        out["plan"] = attempt(opt_plan)
        ref = attempt(lambda: plan_summary(fresh_equivalent(st, n, nA)))
        if isinstance(ref, dict) and "error" not in ref:
            ref["policy_cached"] = True
        out["plan_fresh_equivalent"] = ref
    return out


def views(o):
    return {
        "tf": attempt(lambda: [[[fj(x) for x in r] for r in row] for row in o.transition_matrix.tolist()]),
        "rf": attempt(lambda: [[[fj(x) for x in r] for r in row] for row in o.reward_matrix.tolist()]),
        "am": attempt(lambda: [[bool(x) for x in row] for row in o.action_matrix.tolist()]),
        "absvec": attempt(lambda: [bool(x) for x in o.absorbing_state_vec.tolist()]),
        "s0": attempt(lambda: [fj(x) for x in o.initial_state_vec.tolist()]),
        "reach": attempt(lambda: sorted(LAB.dS(x) for x in o.reachable_states())),
    }


def fresh_equivalent(o, n, nA):
    """a brand-new tabular MDP with the functional behaviour, lists and discount of o"""
    from msdm.core.mdp import TabularMarkovDecisionProcess
    from msdm.core.distributions import DictDistribution
    S, A = LAB.S, LAB.A
    init = DictDistribution(dict(o.initial_state_dist().items()))
    acts = {S(s): list(o.actions(S(s))) for s in range(n)}
    trans = {(S(s), A(a)): DictDistribution(dict(o.next_state_dist(S(s), A(a)).items())) for s in range(n) for a in range(nA)}
    rew = {(S(s), A(a), S(ns)): o.reward(S(s), A(a), S(ns)) for s in range(n) for a in range(nA) for ns in range(n)}
    absb = {S(s): bool(o.is_absorbing(S(s))) for s in range(n)}

    class Ref(TabularMarkovDecisionProcess):
        discount_rate = o.discount_rate
        _state_list = tuple(o.state_list)
        _action_list = tuple(o.action_list)
        def initial_state_dist(self): return init
        def actions(self, s): return acts[s]
        def next_state_dist(self, s, a): return trans[(s, a)]
        def reward(self, s, a, ns): return rew[(s, a, ns)]
        def is_absorbing(self, s): return absb[s]
    return Ref()


def plan_summary(o):
    from msdm.algorithms.valueiteration import ValueIteration
    r = ValueIteration(max_iterations=30).plan_on(o)
    sl, al = list(o.state_list), list(o.action_list)
    return {"V": [fj(r.state_value[s]) for s in sl],
            "pi": [[fj(r.policy[s][a]) for a in al] for s in sl],
            "iterations": int(r.iterations)}


def derived_report(d, n, nA):
    out = dump(d, n, nA)
    out["views"] = views(d)
    out["plan"] = attempt(lambda: plan_summary(d))
    out["plan_fresh_equivalent"] = attempt(lambda: plan_summary(fresh_equivalent(d, n, nA)))
    return out


def case_used(case):
    """multi-step scenario: the base object is USED first, then derived MDPs are built from it
    (also derived from derived ones)"""
    from msdm.core.semimdp.option import augment
    base = make_base(case["base"])          # spec has touch = True
    T = case["base"]["tables"]
    n, nA = T["n"], T["nA"]
    out = {"base": dump(base, n, nA), "base_views": views(base), "derived": []}
    kept = []
    for d in case["derive"]:
        try:
            if d["how"] == "augment":
                o = augment(base, **ov_funcs(case["alt"], d["keys"]))
            elif d["how"] == "augment2":
                o1 = augment(base, **ov_funcs(case["alt"], d["keys1"]))
                touch_base(o1, True)                      # the intermediate MDP is used as well
                o = augment(o1, **ov_funcs(case["alt"], d["keys"]))
            elif d["how"] == "sub_task_of_derived":
                o1 = augment(base, **ov_funcs(case["alt"], d["keys1"]))
                touch_base(o1, True)
                o = subgoal_option(o1, d).sub_task
            else:
                o = subgoal_option(base, d).sub_task
            out["derived"].append(derived_report(o, n, nA))
            kept.append((len(out["derived"]) - 1, o))
        except BaseException as e:
            if isinstance(e, (KeyboardInterrupt, SystemExit)):
                raise
            out["derived"].append({"raised": type(e).__name__ + ": " + str(e)[:200]})
    def functional(rep):
        return {k: rep[k] for k in ("init", "actions", "trans", "rew", "abs", "discount", "state_list", "action_list")}
    out["stale_changed"] = [i for i, o in kept if functional(dump(o, n, nA)) != functional(out["derived"][i]) or views(o) != out["derived"][i]["views"]]
    out["base_dump_changed"] = dump(base, n, nA) != out["base"] or views(base) != out["base_views"]
    return out


# ---------------------------------------------------------------------------
def make_option(ospec, log, dist_as="dict"):
    from msdm.core.semimdp.option import Option
    from msdm.core.mdp.policy import FunctionalPolicy
    pol = {LAB.S(s): mk_dist([(LAB.A(a), fl(p)) for a, p in row], dist_as) for s, row in enumerate(ospec["policy"])}
    initial = {LAB.S(s): bool(x) for s, x in enumerate(ospec["initial"])}
    terminal = {LAB.S(s): bool(x) for s, x in enumerate(ospec["terminal"])}

    class RecPolicy(FunctionalPolicy):
        def run_on(self, *a, **k):
            res = super().run_on(*a, **k)
            log.append(res)
            return res

    class SimpleOption(Option):
        def __init__(self):
            self.policy = RecPolicy(lambda s: pol[s])
            self.name = "opt"
            self.max_steps = int(ospec["max_steps"])
        def is_initial(self, s):
            return initial[s]
        def is_terminal(self, s):
            return terminal[s]
    return SimpleOption()


def sim_json(res):
    steps = list(res.steps)
    full, last = steps[:-1], steps[-1]
    return {"states": [LAB.dS(st["state"]) for st in full], "actions": [LAB.dA(st["action"]) for st in full],
            "next": [LAB.dS(st["next_state"]) for st in full], "rewards": [fj(st["reward"]) for st in full],
            "timesteps": [st["timestep"] for st in full],
            "final": LAB.dS(last["state"]), "final_keys": sorted(last.keys()), "len": len(res)}


def base_lists_of(base, spec):
    if not spec["tabular"]:
        return None
    return attempt(lambda: [[LAB.dS(x) for x in base.state_list], [LAB.dA(x) for x in base.action_list]])


def make_planned_option(ospec, base0, log, n):
    """PlanToSubgoalOption on the first base with a ValueIteration policy; its roll-outs are recorded"""
    from msdm.core.semimdp.option import PlanToSubgoalOption
    from msdm.algorithms.valueiteration import ValueIteration
    opt = PlanToSubgoalOption(mdp=base0, initial_states=[LAB.S(s) for s in range(n)],
                              subgoals=[LAB.S(s) for s in range(n) if ospec["terminal"][s]],
                              planner=ValueIteration(max_iterations=30), max_steps=int(ospec["max_steps"]))
    pol = opt.policy
    orig = pol.run_on

    def run_on(*a, **k):
        res = orig(*a, **k)
        log.append(res)
        return res
    pol.run_on = run_on
    return opt


def case_run(case):
    specs = [case["base"]] + list(case.get("more_bases") or [])
    bases = [make_base(sp) for sp in specs]
    out = {"runs": [], "base_lists_all": [base_lists_of(b, sp) for b, sp in zip(bases, specs)]}
    if case.get("derive_first"):
        # the option runs on an MDP that is itself DERIVED (and used): Option.run_on augments it again
        from msdm.core.semimdp.option import augment
        bases[0] = augment(bases[0], **ov_funcs(case["derive_first"]["alt"], case["derive_first"]["keys"]))
        if case["base"]["tabular"]:
            touch_base(bases[0], True)
    # ONE option object for all runs of the case: its step limit is changed between runs, and it is executed on
    # every base MDP of the case in turn (case["visits"])
    log = []
    o = dict(case["option"]); o["max_steps"] = case["natural_cap"]
    if case.get("planned"):
        opt = make_planned_option(o, bases[0], log, specs[0]["tables"]["n"])
    else:
        opt = make_option(o, log, case["base"].get("dist_as", "dict"))
    out["natural_steps"] = []
    kept = []
    for vi, bidx in enumerate(case.get("visits", [0])):
        base = bases[bidx]
        s0 = LAB.S(case.get("s0s", [case["s0"]])[bidx])
        opt.max_steps = case["natural_cap"]
        del log[:]
        nat = None
        try:
            r = opt.run_on(base, s0, rng=random.Random(case["seed"]))
            nat = len(r) - 1
        except BaseException as e:
            if isinstance(e, (KeyboardInterrupt, SystemExit)):
                raise
        out["natural_steps"].append(nat)
        if vi == 0:
            limits = list(case["ms_abs"])
            if nat is not None:
                limits += [nat + d for d in case["ms_rel"] if nat + d >= 0]
        else:
            limits = [case["natural_cap"]] + ([nat + 2, nat + 1] if nat is not None else [3])
        for ms in limits:
            del log[:]
            opt.max_steps = ms
            rec = {"max_steps": ms, "raised": None, "bidx": bidx, "visit": vi}
            try:
                r = opt.run_on(base, s0, rng=random.Random(case["seed"]))
                rec["returned"] = sim_json(r)
                kept.append((len(out["runs"]), r))
            except BaseException as e:
                if isinstance(e, (KeyboardInterrupt, SystemExit)):
                    raise
                rec["raised"] = type(e).__name__
                rec["message_has_max_steps"] = "reached max steps" in str(e)
            rec["inner"] = [sim_json(x) for x in log]
            out["runs"].append(rec)
    out["stale_changed"] = [i for i, r in kept if sim_json(r) != out["runs"][i]["returned"]]
    return out


# ---------------------------------------------------------------------------
def okey_json(k):
    ns, t, r = k
    return [LAB.dS(ns), t, fj(r)]


def case_smdp(case):
    from msdm.core.semimdp.semimdp import SemiMarkovDecisionProcess
    from msdm.core.semimdp.option import Option
    specs = [case["base"]] + list(case.get("more_bases") or [])
    bases = [make_base(sp) for sp in specs]
    base = bases[0]
    random.seed(case["global_seed"])
    log = []
    opts = watch("options", [make_option(o, log, case["base"].get("dist_as", "dict")) for o in case["options"]])
    kept = []
    # one semi-MDP per base MDP, all sharing the SAME option objects
    smdps = [SemiMarkovDecisionProcess(mdp=b, options=opts, n_option_simulations=case["n"],
                                       include_mdp_actions=case["include"], seed=case["seed"]) for b in bases]
    smdp = smdps[0]

    def enc_action(a):
        if isinstance(a, Option):
            return ["opt", [i for i, o in enumerate(opts) if o is a][0]]
        return ["prim", LAB.dA(a)]
    out = {"actions": attempt(lambda: [enc_action(a) for a in smdp.actions(LAB.S(case["s"]))]), "queries": [],
           "base_lists_all": [base_lists_of(b, sp) for b, sp in zip(bases, specs)],
           "base_discounts": [fj(b.discount_rate) for b in bases]}
    seeds_seen = []
    for kind, idx, sid, bidx in case["queries"]:
        smdp = smdps[bidx]
        s = LAB.S(sid)
        a = opts[idx] if kind == "opt" else LAB.A(idx)
        q = {}
        for name, fn, enc in (
            ("nstr", smdp.next_state_transit_time_reward_dist, lambda d: [[okey_json(k), fj(p)] for k, p in d.items()]),
            ("nst", smdp.next_state_transit_time_dist, lambda d: [[[LAB.dS(k[0]), k[1]], fj(p)] for k, p in d.items()]),
            ("ns", smdp.next_state_dist, lambda d: [[LAB.dS(k), fj(p)] for k, p in d.items()]),
            ("ecr", smdp.expected_cumulative_reward, lambda x: fj(x)),
        ):
            del log[:]
            rec = {}
            try:
                val = fn(s, a)
                rec["value"] = enc(val)
                if name != "ecr":
                    kept.append((len(out["queries"]), name, enc, val))
            except BaseException as e:
                if isinstance(e, (KeyboardInterrupt, SystemExit)):
                    raise
                rec["raised"] = type(e).__name__
            rec["sims"] = [sim_json(x) for x in log]
            q[name] = rec
            if bidx == 0:
                seeds_seen.append(smdp.seed)
        out["queries"].append(q)
    out["stale_changed"] = [[i, name] for i, name, enc, val in kept if enc(val) != out["queries"][i][name]["value"]]
    out["seed_after"] = smdps[0].seed
    out["seed_constant_after_first_option_query"] = len({x for x in seeds_seen if x is not None}) <= 1
    out["base_discount"] = fj(base.discount_rate)
    return out


def one(case, pl):
    del SNAPSHOTS[:]
    out = {"augment": case_augment, "subtask": case_subtask, "run": case_run, "smdp": case_smdp,
           "used": case_used}[case["kind"]](case)
    out["mutated"] = mutated_objects()
    base, spec = LAST_BASE
    if "base_lists_all" in out:
        out["base_lists"] = out["base_lists_all"][0]
    elif spec["tabular"]:
        out["base_lists"] = attempt(lambda: [[LAB.dS(x) for x in base.state_list], [LAB.dA(x) for x in base.action_list]])
    return out


if __name__ == "__main__":
    run_cases(one)
