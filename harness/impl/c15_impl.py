"""C15 implementation runner: augment / PlanToSubgoalOption.sub_task / Option.run_on /
SemiMarkovDecisionProcess on generated base MDPs.

Base MDPs are built as small MDP subclasses so that discount_rate (and the state/action
lists) can be held on the instance, on the class, or on a base class:

  style "table":  B(A(TableMDP(root)))   root = TabularMarkovDecisionProcess | MarkovDecisionProcess
                  methods read self._init/_acts/_trans/_rew/_abs ; discount_rate optionally on the
                  instance, on B, on A ; _state_list/_action_list on the instance or on A
  style "quick":  QuickTabularMDP / QuickMDP (discount_rate always set on the instance by __init__)

Every roll-out an option performs is recorded by wrapping the option policy's run_on, so the
harness can replay the very simulations an outcome distribution was computed from.
"""
import os, sys, random
sys.path.insert(0, os.path.dirname(os.path.abspath(__file__)))
from build import *


# ---------------------------------------------------------------------------
def table_funcs(T, actions_as="list"):
    from msdm.core.distributions import DictDistribution
    n, nA = T["n"], T["nA"]
    trans = {(s, a): DictDistribution({ns: fl(p) for ns, p in T["trans"][s][a]}) for s in range(n) for a in range(nA)}
    rew = {(s, a, ns): fl(T["rew"][s][a][ns]) for s in range(n) for a in range(nA) for ns in range(n)}
    acts = [list(x) if actions_as == "list" else tuple(x) for x in T["actions"]]
    absb = [bool(x) for x in T["absorbing"]]
    init = DictDistribution({s: fl(p) for s, p in T["init"]})
    return {
        "initial_state_dist": lambda: init,
        "actions": lambda s: acts[s],
        "next_state_dist": lambda s, a: trans[(s, a)],
        "reward": lambda s, a, ns: rew[(s, a, ns)],
        "is_absorbing": lambda s: absb[s],
    }


def touch_base(m, tabular):
    """USE the base object so that its cached_property / method_cache entries get filled"""
    m.reachable_states()
    if not tabular:
        return
    from msdm.algorithms.valueiteration import ValueIteration
    m.state_list, m.action_list
    m.transition_matrix, m.reward_matrix, m.action_matrix, m.state_action_reward_matrix
    m.absorbing_state_vec, m.initial_state_vec, m.reachable_state_vec, m.dead_end_state_vec
    try:
        ValueIteration(max_iterations=20).plan_on(m)
    except BaseException as e:
        if isinstance(e, (KeyboardInterrupt, SystemExit)):
            raise


def make_base(spec):
    m = make_base_fresh(spec)
    if spec.get("touch"):
        touch_base(m, spec["tabular"])
    return m


def make_base_fresh(spec):
    from msdm.core.mdp import MarkovDecisionProcess, TabularMarkovDecisionProcess
    from msdm.core.mdp.quickmdp import QuickMDP, QuickTabularMDP
    F = table_funcs(spec["tables"], spec.get("actions_as", "list"))
    tabular = spec["tabular"]
    g = spec["gammas"]          # {"inst": str|None, "cls0": str|None, "cls1": str|None}
    lists = spec.get("lists")   # {"where": "inst"|"cls", "state_list": [...], "action_list": [...]} (tabular only)
    if spec["style"] == "quick":
        cls = QuickTabularMDP if tabular else QuickMDP
        m = cls(next_state_dist=F["next_state_dist"], reward=F["reward"], actions=F["actions"],
                initial_state_dist=F["initial_state_dist"], is_absorbing=F["is_absorbing"],
                discount_rate=fl(g["inst"]))
        if tabular:
            m._state_list = tuple(lists["state_list"])
            m._action_list = tuple(lists["action_list"])
        return m
    root = TabularMarkovDecisionProcess if tabular else MarkovDecisionProcess

    class TableMDP(root):
        def __init__(self, F):
            self._init, self._acts, self._trans = F["initial_state_dist"], F["actions"], F["next_state_dist"]
            self._rew, self._abs = F["reward"], F["is_absorbing"]
        def initial_state_dist(self): return self._init()
        def actions(self, s): return self._acts(s)
        def next_state_dist(self, s, a): return self._trans(s, a)
        def reward(self, s, a, ns): return self._rew(s, a, ns)
        def is_absorbing(self, s): return self._abs(s)
    A = type("A", (TableMDP,), {})
    B = type("B", (A,), {})
    if g.get("cls1") is not None:
        A.discount_rate = fl(g["cls1"])
    if g.get("cls0") is not None:
        B.discount_rate = fl(g["cls0"])
    if tabular and lists["where"] == "cls":
        A._state_list = tuple(lists["state_list"])
        A._action_list = tuple(lists["action_list"])
    m = B(F)
    if g.get("inst") is not None:
        m.discount_rate = fl(g["inst"])
    if tabular and lists["where"] == "inst":
        m._state_list = tuple(lists["state_list"])
        m._action_list = tuple(lists["action_list"])
    return m


def attempt(f):
    try:
        return f()
    except BaseException as e:
        if isinstance(e, (KeyboardInterrupt, SystemExit)):
            raise
        return {"error": type(e).__name__}


def dump(o, n, nA):
    def dist(d):
        return [[e, fj(p)] for e, p in d.items()]
    return {
        "init": attempt(lambda: dist(o.initial_state_dist())),
        "actions": attempt(lambda: [list(o.actions(s)) for s in range(n)]),
        "trans": attempt(lambda: [[dist(o.next_state_dist(s, a)) for a in range(nA)] for s in range(n)]),
        "rew": attempt(lambda: [[[fj(o.reward(s, a, ns)) for ns in range(n)] for a in range(nA)] for s in range(n)]),
        "abs": attempt(lambda: [bool(o.is_absorbing(s)) for s in range(n)]),
        "discount": attempt(lambda: fj(o.discount_rate)),
        "state_list": attempt(lambda: [int(x) for x in o.state_list]),
        "action_list": attempt(lambda: [int(x) for x in o.action_list]),
        "inst_keys": sorted(k for k in o.__dict__ if not k.startswith("_cached")),
    }


def ov_funcs(alt, keys):
    F = table_funcs(alt)
    kw = {}
    for k in keys:
        if k in ("state_list", "action_list"):
            kw[k] = tuple(alt[k])
        else:
            kw[k] = F[k]
    return kw


# ---------------------------------------------------------------------------
def case_augment(case):
    from msdm.core.semimdp.option import augment
    base = make_base(case["base"])
    T = case["base"]["tables"]
    n, nA = T["n"], T["nA"]
    out = {"base": dump(base, n, nA), "augs": []}
    for keys in case["subsets"]:
        try:
            aug = augment(base, **ov_funcs(case["alt"], keys))
        except BaseException as e:
            if isinstance(e, (KeyboardInterrupt, SystemExit)):
                raise
            out["augs"].append({"raised": type(e).__name__})
            continue
        out["augs"].append(dump(aug, n, nA))
    return out


def case_subtask(case):
    from msdm.core.semimdp.option import PlanToSubgoalOption
    base = make_base(case["base"])
    T = case["base"]["tables"]
    n, nA = T["n"], T["nA"]
    kw = {}
    if case["maxr"] is not None:
        kw["max_nonterminal_pseudoreward"] = fl(case["maxr"])
    opt = PlanToSubgoalOption(mdp=base, initial_states=list(case["initial_states"]), subgoals=list(case["subgoals"]),
                              planner=None, include_mdp_absorbing_states=case["include"], **kw)
    try:
        st = opt.sub_task
    except BaseException as e:
        if isinstance(e, (KeyboardInterrupt, SystemExit)):
            raise
        return {"base": dump(base, n, nA), "sub": {"raised": type(e).__name__}}
    return {"base": dump(base, n, nA), "sub": dump(st, n, nA),
            "is_initial": [bool(opt.is_initial(s)) for s in range(n)],
            "is_terminal": [bool(opt.is_terminal(s)) for s in range(n)]}


def views(o):
    import numpy as np
    return {
        "tf": attempt(lambda: [[[fj(x) for x in r] for r in row] for row in o.transition_matrix.tolist()]),
        "rf": attempt(lambda: [[[fj(x) for x in r] for r in row] for row in o.reward_matrix.tolist()]),
        "am": attempt(lambda: [[bool(x) for x in row] for row in o.action_matrix.tolist()]),
        "absvec": attempt(lambda: [bool(x) for x in o.absorbing_state_vec.tolist()]),
        "s0": attempt(lambda: [fj(x) for x in o.initial_state_vec.tolist()]),
        "reach": attempt(lambda: sorted(int(x) for x in o.reachable_states())),
    }


def fresh_equivalent(o, n, nA):
    """a brand-new tabular MDP with the functional behaviour, lists and discount of o"""
    from msdm.core.mdp import TabularMarkovDecisionProcess
    from msdm.core.distributions import DictDistribution
    init = DictDistribution(dict(o.initial_state_dist().items()))
    acts = [list(o.actions(s)) for s in range(n)]
    trans = {(s, a): DictDistribution(dict(o.next_state_dist(s, a).items())) for s in range(n) for a in range(nA)}
    rew = {(s, a, ns): o.reward(s, a, ns) for s in range(n) for a in range(nA) for ns in range(n)}
    absb = [bool(o.is_absorbing(s)) for s in range(n)]

    class Ref(TabularMarkovDecisionProcess):
        discount_rate = o.discount_rate
        _state_list = tuple(o.state_list)
        _action_list = tuple(o.action_list)
        def initial_state_dist(self): return init
        def actions(self, s): return acts[s]
        def next_state_dist(self, s, a): return trans[(s, a)]
        def reward(self, s, a, ns): return rew[(s, a, ns)]
        def is_absorbing(self, s): return absb[s]
    return Ref()


def plan_summary(o):
    from msdm.algorithms.valueiteration import ValueIteration
    r = ValueIteration(max_iterations=30).plan_on(o)
    sl, al = list(o.state_list), list(o.action_list)
    return {"V": [fj(r.state_value[s]) for s in sl],
            "pi": [[fj(r.policy[s][a]) for a in al] for s in sl],
            "iterations": int(r.iterations)}


def derived_report(d, n, nA):
    out = dump(d, n, nA)
    out["views"] = views(d)
    out["plan"] = attempt(lambda: plan_summary(d))
    out["plan_fresh_equivalent"] = attempt(lambda: plan_summary(fresh_equivalent(d, n, nA)))
    return out


def case_used(case):
    """multi-step scenario: the base object is USED first, then derived MDPs are built from it"""
    from msdm.core.semimdp.option import augment, PlanToSubgoalOption
    base = make_base(case["base"])          # spec has touch = True
    T = case["base"]["tables"]
    n, nA = T["n"], T["nA"]
    out = {"base": dump(base, n, nA), "base_views": views(base), "derived": []}
    for d in case["derive"]:
        try:
            if d["how"] == "augment":
                o = augment(base, **ov_funcs(case["alt"], d["keys"]))
            else:
                kw = {}
                if d["maxr"] is not None:
                    kw["max_nonterminal_pseudoreward"] = fl(d["maxr"])
                o = PlanToSubgoalOption(mdp=base, initial_states=list(d["initial_states"]), subgoals=list(d["subgoals"]),
                                        planner=None, include_mdp_absorbing_states=d["include"], **kw).sub_task
            out["derived"].append(derived_report(o, n, nA))
        except BaseException as e:
            if isinstance(e, (KeyboardInterrupt, SystemExit)):
                raise
            out["derived"].append({"raised": type(e).__name__ + ": " + str(e)[:200]})
    return out


# ---------------------------------------------------------------------------
def make_option(ospec, log):
    from msdm.core.semimdp.option import Option
    from msdm.core.mdp.policy import FunctionalPolicy
    from msdm.core.distributions import DictDistribution
    pol = [DictDistribution({a: fl(p) for a, p in row}) for row in ospec["policy"]]

    class RecPolicy(FunctionalPolicy):
        def run_on(self, *a, **k):
            res = super().run_on(*a, **k)
            log.append(res)
            return res

    class SimpleOption(Option):
        def __init__(self):
            self.policy = RecPolicy(lambda s: pol[s])
            self.name = "opt"
            self.max_steps = int(ospec["max_steps"])
        def is_initial(self, s):
            return bool(ospec["initial"][s])
        def is_terminal(self, s):
            return bool(ospec["terminal"][s])
    return SimpleOption()


def sim_json(res):
    steps = list(res.steps)
    full, last = steps[:-1], steps[-1]
    return {"states": [st["state"] for st in full], "actions": [st["action"] for st in full],
            "next": [st["next_state"] for st in full], "rewards": [fj(st["reward"]) for st in full],
            "timesteps": [st["timestep"] for st in full],
            "final": last["state"], "final_keys": sorted(last.keys()), "len": len(res)}


def case_run(case):
    base = make_base(case["base"])
    out = {"runs": []}
    # natural length under a generous limit
    log = []
    o = dict(case["option"]); o["max_steps"] = case["natural_cap"]
    opt = make_option(o, log)
    nat = None
    try:
        r = opt.run_on(base, case["s0"], rng=random.Random(case["seed"]))
        nat = len(r) - 1
    except BaseException as e:
        if isinstance(e, (KeyboardInterrupt, SystemExit)):
            raise
    out["natural_steps"] = nat
    limits = list(case["ms_abs"])
    if nat is not None:
        limits += [nat + d for d in case["ms_rel"] if nat + d >= 0]
    for ms in limits:
        log = []
        o = dict(case["option"]); o["max_steps"] = ms
        opt = make_option(o, log)
        rec = {"max_steps": ms, "raised": None}
        try:
            r = opt.run_on(base, case["s0"], rng=random.Random(case["seed"]))
            rec["returned"] = sim_json(r)
        except BaseException as e:
            if isinstance(e, (KeyboardInterrupt, SystemExit)):
                raise
            rec["raised"] = type(e).__name__
            rec["message_has_max_steps"] = "reached max steps" in str(e)
        rec["inner"] = [sim_json(x) for x in log]
        out["runs"].append(rec)
    return out


# ---------------------------------------------------------------------------
def okey_json(k):
    ns, t, r = k
    return [ns, t, fj(r)]


def case_smdp(case):
    from msdm.core.semimdp.semimdp import SemiMarkovDecisionProcess
    from msdm.core.semimdp.option import Option
    base = make_base(case["base"])
    random.seed(case["global_seed"])
    log = []
    opts = [make_option(o, log) for o in case["options"]]
    smdp = SemiMarkovDecisionProcess(mdp=base, options=opts, n_option_simulations=case["n"],
                                     include_mdp_actions=case["include"], seed=case["seed"])
    s = case["s"]

    def enc_action(a):
        if isinstance(a, Option):
            return ["opt", [i for i, o in enumerate(opts) if o is a][0]]
        return ["prim", int(a)]
    out = {"actions": attempt(lambda: [enc_action(a) for a in smdp.actions(s)]), "queries": []}
    for kind, idx in case["queries"]:
        a = opts[idx] if kind == "opt" else idx
        q = {}
        for name, fn, enc in (
            ("nstr", smdp.next_state_transit_time_reward_dist, lambda d: [[okey_json(k), fj(p)] for k, p in d.items()]),
            ("nst", smdp.next_state_transit_time_dist, lambda d: [[list(k), fj(p)] for k, p in d.items()]),
            ("ns", smdp.next_state_dist, lambda d: [[k, fj(p)] for k, p in d.items()]),
            ("ecr", smdp.expected_cumulative_reward, lambda x: fj(x)),
        ):
            del log[:]
            rec = {}
            try:
                rec["value"] = enc(fn(s, a))
            except BaseException as e:
                if isinstance(e, (KeyboardInterrupt, SystemExit)):
                    raise
                rec["raised"] = type(e).__name__
            rec["sims"] = [sim_json(x) for x in log]
            q[name] = rec
        out["queries"].append(q)
    out["seed_after"] = smdp.seed
    out["base_discount"] = fj(base.discount_rate)
    return out


def one(case, pl):
    return {"augment": case_augment, "subtask": case_subtask, "run": case_run, "smdp": case_smdp,
            "used": case_used}[case["kind"]](case)


if __name__ == "__main__":
    run_cases(one)
