"""C05 implementation runner: AStarSearch and BreadthFirstSearch of msdm/algorithms/search.py on
generated deterministic shortest-path problems, given through one of the four representations
of a deterministic MDP (see DeterministicShortestPathProblem.from_mdp).

The `random` module seen by msdm.algorithms.search is replaced by a shim whose Random() hands
out a genuine random.Random(seed) with `shuffle` / `random` wrapped *on the instance* (a subclass
overriding random() would switch CPython to a different _randbelow and change the shuffles):
the shuffled action orders and the tie-break draws are logged in call order for the mirror models.
"""
import os, sys
sys.path.insert(0, os.path.dirname(os.path.abspath(__file__)))
from build import *
import random as _random


class RandomShim:
    def __init__(self):
        self.log = {"shuffles": [], "randoms": []}

    def Random(self, seed=None):
        r = _random.Random(seed)
        orig_shuffle, orig_random, log = r.shuffle, r.random, self.log

        def shuffle(l):
            orig_shuffle(l)
            log["shuffles"].append(list(l))

        def rnd():
            v = orig_random()
            log["randoms"].append(int(v * 2 ** 53))     # random() is k / 2**53 exactly
            assert log["randoms"][-1] / 2 ** 53 == v
            return v
        r.shuffle, r.random = shuffle, rnd
        return r


class HeapShim:
    """stands in for `heapq` inside search.py: same functions, counts pushes / pops per state (branch coverage)"""
    def __init__(self):
        import heapq
        self._h, self.enabled = heapq, True
        self.pushed, self.popped = {}, {}

    def heappush(self, q, node):
        if self.enabled:
            self.pushed[node.state] = self.pushed.get(node.state, 0) + 1
        return self._h.heappush(q, node)

    def heappop(self, q):
        node = self._h.heappop(q)
        if self.enabled:
            self.popped[node.state] = self.popped.get(node.state, 0) + 1
        return node


def akey(a):
    """hashable stand-in for an action label (harness-side dictionaries only; msdm gets the label itself)"""
    return ("__list__",) + tuple(a) if isinstance(a, list) else a


def label_maps(case):
    """state / action labels handed to msdm (the generated problem is over indices)"""
    n, sch, asch = case["n"], case.get("labels", "int"), case.get("alabels", "int")
    L = {"int": lambda: list(range(n)),
         "perm": lambda: [int(x) for x in case["perm"]],                      # label order differs from index order
         "str": lambda: ["" if i == 0 else "s%d" % i for i in range(n)],      # "" is falsy
         "tuple": lambda: [() if i == 0 else (i, "x") for i in range(n)],     # () is falsy
         "float": lambda: [float(i) for i in range(n)],                       # 0.0 is falsy
         "bool01": lambda: [False, True][:n] + list(range(2, n))}[sch]()
    K = 40
    A = {"int": list(range(K)), "str": [""] + ["a%d" % i for i in range(1, K)],
         "tuple": [()] + [(i,) for i in range(1, K)],
         "list": [[]] + [[i] for i in range(1, K)]}[asch]            # unhashable action labels
    return L, {l: i for i, l in enumerate(L)}, A, {akey(a): i for i, a in enumerate(A)}


def make_dist(kind, x):
    from msdm.core.distributions import DeterministicDistribution, DictDistribution, UniformDistribution
    if kind in ("det", "plain"):
        return DeterministicDistribution(x)
    if kind == "dict":
        return DictDistribution({x: 1.0})
    if kind == "uniform":
        return UniformDistribution([x])
    raise ValueError(kind)


SNAPSHOTS = []       # (caller's mutable object, copy taken when the problem was built)


def num_of(case):
    t = case.get("num_type")
    if t == "int":
        return int
    if t == "float32":
        import numpy as np
        return np.float32
    return float


def mutated():
    """did any search change an object that belongs to the caller (action lists, distribution objects)?"""
    bad = []
    for obj, snap in SNAPSHOTS:
        for k, v in obj.items():
            now = list(v) if isinstance(v, list) else (type(v).__name__, list(v.items()))
            if now != snap[k]:
                bad.append(repr(k)[:40])
    return bad[:5]


def build_problem(case):
    from msdm.core.mdp.deterministic_shortest_path import DeterministicShortestPathProblem
    from msdm.core.mdp.quickmdp import QuickMDP, QuickTabularMDP
    L, idx, A, aidx = label_maps(case)
    num = num_of(case)
    succ = {L[s]: {akey(A[int(a)]): (L[int(t)], num(c)) for a, t, c in row} for s, row in enumerate(case["succ"])}
    cont = case.get("actions_container", "tuple")
    # "shared_list": the SAME list object is handed out on every actions(s) call (the caller's own list)
    mk = {"tuple": tuple, "list": list, "dict": dict.fromkeys, "iter": iter, "shared_list": lambda l: l}[cont]
    acts = {L[s]: [A[int(a)] for a, _, _ in row] for s, row in enumerate(case["succ"])}
    SNAPSHOTS.append((acts, {k: list(v) for k, v in acts.items()}))
    goal = {L[s]: bool(x) for s, x in enumerate(case["goal"])}
    start = L[int(case["start"])]

    class G(DeterministicShortestPathProblem):
        def next_state(self, s, a): return succ[s][akey(a)][0]
        def initial_state(self): return start
        def reward(self, s, a, ns): return -succ[s][akey(a)][1]
        def actions(self, s): return mk(acts[s])
        def is_absorbing(self, s): return goal[s]
    if case["repr"] == "next_state":
        return G()
    if case["repr"] == "dspdist":
        # a non-DSP MDP whose distributions come from DeterministicShortestPathProblem.next_state_dist / initial_state_dist
        base = G()
        return QuickMDP(next_state_dist=base.next_state_dist, reward=base.reward, actions=base.actions,
                        initial_state_dist=base.initial_state_dist, is_absorbing=base.is_absorbing)
    ik, tk = case["repr"].split("/")
    if case.get("shared_dists"):          # one distribution object per (s, a), handed out on every call
        table = {(s, a): make_dist(tk, ns) for s, row in succ.items() for a, (ns, _) in row.items()}
        nsd = lambda s, a: table[(s, akey(a))]
        SNAPSHOTS.append((table, {k: (type(v).__name__, list(v.items())) for k, v in table.items()}))
    else:
        nsd = lambda s, a: make_dist(tk, succ[s][akey(a)][0])
    cls = QuickTabularMDP if case.get("tabular") else QuickMDP
    # "plain" = the deterministic constructor spelling (next_state= / initial_state=) instead of a distribution
    kw = {"next_state": (lambda s, a: succ[s][akey(a)][0])} if tk == "plain" else {"next_state_dist": nsd}
    kw.update({"initial_state": start} if ik == "plain" else {"initial_state_dist": make_dist(ik, start)})
    mdp = cls(reward=lambda s, a, ns: -succ[s][akey(a)][1], actions=lambda s: mk(acts[s]),
              is_absorbing=lambda s: goal[s], **kw)
    if case.get("tabular"):               # base object already USED (cached views built) before it is wrapped
        mdp.reachable_states(), mdp.state_list, mdp.action_list
        try:                              # (the matrices raise KeyError when an absorbing state has an action leading outside
            mdp.transition_matrix, mdp.reward_matrix      # the reachable set: tabular-view matter, not judged here)
        except KeyError:
            pass
    return mdp


def build_editable(case):
    """a non-DSP MDP that keeps its definition in attributes of the object, so that it can be EDITED between plans:
    load(c) rewrites the tables and the start IN PLACE; retarget(c) gives the object new tables (used on a shallow copy)"""
    from msdm.core.mdp.mdp import MarkovDecisionProcess
    ik, tk = case["repr"].split("/")
    cont = case.get("actions_container", "tuple")
    mk = {"tuple": tuple, "list": list, "dict": dict.fromkeys, "iter": iter, "shared_list": lambda l: l}[cont]

    def tables(c):
        L, idx, A, aidx = label_maps(c)
        num = num_of(c)
        return ({L[s]: {akey(A[int(a)]): (L[int(t)], num(x)) for a, t, x in row} for s, row in enumerate(c["succ"])},
                {L[s]: [A[int(a)] for a, _, _ in row] for s, row in enumerate(c["succ"])},
                {L[s]: bool(x) for s, x in enumerate(c["goal"])}, L[int(c["start"])])

    class Editable(MarkovDecisionProcess):
        def __init__(self):
            self.succ, self.acts, self.goal, self.start = tables(case)

        def load(self, c):                    # in place: same dict objects, new content
            succ, acts, goal, start = tables(c)
            for old, new in ((self.succ, succ), (self.acts, acts), (self.goal, goal)):
                old.clear()
                old.update(new)
            self.start = start

        def retarget(self, c):                # new table objects (the object this one was copied from keeps its own)
            self.succ, self.acts, self.goal, self.start = tables(c)

        def next_state_dist(self, s, a): return make_dist(tk, self.succ[s][akey(a)][0])
        def reward(self, s, a, ns): return -self.succ[s][akey(a)][1]
        def actions(self, s): return mk(self.acts[s])
        def initial_state_dist(self): return make_dist(ik, self.start)
        def is_absorbing(self, s): return self.goal[s]
    return Editable()


def describe(res, with_value, case):
    if res is None:
        return {"plan": None}
    L, idx, A, aidx = label_maps(case)
    path = [idx[s] for s in res.path]
    acts = []
    for s in res.path[:-1]:
        sup = list(res.policy.action_dist(s).support)
        sup2 = list(res.policy.action_dist(s).support)       # policy object asked twice
        if len(sup) != 1 or sup != sup2:
            raise ValueError("policy not deterministic at %r" % (s,))
        acts.append(aidx[akey(sup[0])])
    out = {"plan": {"path": path, "acts": acts}, "visited": sorted(idx[s] for s in res.visited)}
    if with_value:
        out["plan"]["value"] = fj(res.path_value)
    return out


def plan_raw(planner, get_problem, case):
    """plan (twice with the same planner / problem objects if `replan`), keep the raw Result and the logs of the last call"""
    import msdm.algorithms.search as S
    _, _, _, aidx = label_maps(case)
    saved = S.random, S.heapq
    shim, hshim = RandomShim(), HeapShim()
    raw = {}
    try:
        prob = get_problem()
        for _ in range(2 if case.get("replan") else 1):
            shim, hshim = RandomShim(), HeapShim()
            S.random, S.heapq = shim, hshim
            raw["res"] = planner.plan_on(prob)
    except BaseException as e:
        if isinstance(e, (KeyboardInterrupt, SystemExit)):
            raise
        raw["error"] = type(e).__name__ + ": " + str(e)[:300]
    finally:
        S.random, S.heapq = saved
    raw["logs"] = {"shuffles": [[aidx[akey(a)] for a in l] for l in shim.log["shuffles"]], "randoms": shim.log["randoms"],
                   "repushes": sum(k - 1 for k in hshim.pushed.values()),
                   "stale_pops": sum(k - 1 for k in hshim.popped.values())}
    return raw


def finish(raw, with_value, case):
    """read the Result (path, policy along it, visited, value): may be called long after the planning call"""
    if "error" in raw:
        out = {"error": raw["error"]}
    else:
        try:
            out = describe(raw["res"], with_value, case)
        except BaseException as e:
            if isinstance(e, (KeyboardInterrupt, SystemExit)):
                raise
            out = {"error": type(e).__name__ + ": " + str(e)[:300]}
    out.update(raw["logs"])
    return out


def nested_heuristic(case):
    """heuristic_value(s) = - (least cost from s in the relaxed problem), found lazily by a nested A* on a second,
    non-DSP MDP (so from_mdp builds another wrapper while the outer search is running); None -> -inf"""
    from msdm.algorithms.search import AStarSearch
    import msdm.algorithms.search as S
    L, idx, _, _ = label_maps(case)
    seen = {}

    def hv(s):
        i = idx[s]
        if i not in seen:
            sub = dict(case, succ=case["relaxed_succ"], start=i, repr=case["relaxed_repr"], tabular=False)
            hs = S.heapq
            en, hs.enabled = getattr(hs, "enabled", None), False
            try:
                r = AStarSearch().plan_on(build_problem(sub))
            finally:
                if en is not None:
                    hs.enabled = en
            seen[i] = float("inf") if r is None else float(r.path_value)
        return -seen[i]
    return hv, seen


def hv_list(case):
    """heuristic COST per state index, as the numbers handed to msdm"""
    num = float if case.get("num_type") == "float32" else num_of(case)      # float32 is for the rewards only
    p_, q_ = case.get("h_scale", [1, 1])
    if [p_, q_] == [1, 1]:
        return [float("inf") if x == "inf" else num(x) for x in case["h"]]
    k = p_ / q_                    # "scaled exact": k * h with the float k = p/q, as a user would write it
    return [float("inf") if x == "inf" else k * x for x in case["h"]]


def fill_table(table, case):
    """bring the caller's heuristic table (label -> cost) up to date IN PLACE for this problem"""
    L = label_maps(case)[0]
    table.clear()
    table.update({L[i]: v for i, v in enumerate(hv_list(case))})


def make_planners(case, table=None):
    from msdm.algorithms.search import AStarSearch, BreadthFirstSearch
    _, idx, _, _ = label_maps(case)
    num = float if case.get("num_type") == "float32" else num_of(case)
    if table is not None:
        hfun, seen = (lambda s: -table[s]), None        # reads the caller's table at call time
    elif case.get("scenario") == "nested_h":
        hfun, seen = nested_heuristic(case)
    elif case["heuristic"] == "zero":
        hfun, seen = (lambda s: -num(0)), None          # label-independent: usable on a second problem
    else:
        hv = hv_list(case)
        hfun, seen = (lambda s: -hv[idx[s]]), None
    kw = {} if case.get("assert_monotone", True) else {"assert_monotone_heuristic": False}
    a = AStarSearch(heuristic_value=hfun, seed=case["seed"], randomize_action_order=bool(case["shuffle"]),
                    tie_breaking_strategy=case["tie"], **kw)
    b = BreadthFirstSearch(seed=case["bfs_seed"], randomize_action_order=bool(case["shuffle"]))
    return a, b, seen


def plan_both(case, get_problem, planners=None):
    pa, pb, seen = planners or make_planners(case)
    return {"astar": plan_raw(pa, get_problem, case), "bfs": plan_raw(pb, get_problem, case), "seen": seen}


def finish_both(raws, case):
    a = finish(raws["astar"], True, case)
    if raws["seen"] is not None:
        a["h_seen"] = {str(int(s)): fj(v) for s, v in raws["seen"].items()}
    return {"astar": a, "bfs": finish(raws["bfs"], False, case)}


def one(case, pl):
    del SNAPSHOTS[:]
    if case.get("scenario") == "two_wrappers":
        # two wrappers of two different MDPs are alive at once; the OLDER one is planned on first, then the newer;
        # the results of the first are read (again, or for the first time if `late_policy`) AFTER the second was planned
        from msdm.core.mdp.deterministic_shortest_path import DeterministicShortestPathProblem as DSP
        other = case["other"]
        w1 = DSP.from_mdp(build_problem(case))
        w2 = DSP.from_mdp(build_problem(other))
        table = {} if case.get("planner_table") else None          # the planner's heuristic reads this table
        planners = make_planners(case, table) if case.get("shared_planner") else None     # one planner object, two problems
        if table is not None:
            fill_table(table, case)
        raw1 = plan_both(case, lambda: w1, planners)
        early = None if case.get("late_policy") else finish_both(raw1, case)
        if table is not None:
            fill_table(table, other)
        res_other = finish_both(plan_both(other, lambda: w2, planners), other)
        res = finish_both(raw1, case)
        if early is not None:
            res["requery_same"] = (early == res)
        res["other"] = res_other
    elif case.get("scenario") == "edit_replan":
        # histories on ONE MDP object: plan, edit the object, plan again; every plan is judged against the object's
        # definition at the time of the call
        import copy
        edited = case["edited"]
        m = build_editable(case)
        # planner_table: ONE A* and ONE BFS object for every plan of this history; the A* heuristic reads a table that the
        # caller edits in place together with the problem
        table = {} if case.get("planner_table") else None
        shared = make_planners(case, table) if table is not None else None

        def plan(c, prob):
            if table is not None:
                fill_table(table, c)
            return finish_both(plan_both(c, lambda: prob, shared), c)
        res = plan(case, m)
        if case.get("edit_mode") == "copy":      # shallow copy of an already planned object, then edit the copy
            c = copy.copy(m)
            c.retarget(edited)
            res["edited"] = plan(edited, c)
            res["again"] = plan(case, m)        # the original is unchanged
        else:
            m.load(edited)
            res["edited"] = plan(edited, m)
            if case.get("edit_mode") == "there_and_back":
                m.load(case)
                res["again"] = plan(case, m)
    else:
        prob = build_problem(case)               # one problem object for both searches
        res = finish_both(plan_both(case, lambda: prob), case)
    res["mutated"] = mutated()
    return res


def main():
    """like build.run_cases, plus: the first few problems of this process are built and solved a second time at the
    end (same process, all the other constructions in between) and must give the same answers"""
    import traceback
    pl = read_payload()

    def safe(c):
        try:
            return one(c, pl)
        except BaseException as e:
            if isinstance(e, (KeyboardInterrupt, SystemExit)):
                raise
            return {"error": type(e).__name__ + ": " + str(e)[:500], "trace": traceback.format_exc()[-1500:]}
    out = [safe(c) for c in pl["cases"]]
    k = 0
    for i, c in enumerate(pl["cases"]):
        if k >= 3:
            break
        if c.get("long") or "error" in out[i]:
            continue
        k += 1
        again = safe(c)
        out[i]["rerun_same"] = (json.dumps(again, sort_keys=True) == json.dumps({x: y for x, y in out[i].items() if x != "rerun_same"}, sort_keys=True))
    write_result({"results": out})


if __name__ == "__main__":
    main()
