"""C05 implementation runner: AStarSearch and BreadthFirstSearch of msdm/algorithms/search.py on
generated deterministic shortest-path problems, given through one of the four representations
of a deterministic MDP (see DeterministicShortestPathProblem.from_mdp).

The `random` module seen by msdm.algorithms.search is replaced by a shim whose Random() hands
out a genuine random.Random(seed) with `shuffle` / `random` wrapped *on the instance* (a subclass
overriding random() would switch CPython to a different _randbelow and change the shuffles):
the shuffled action orders and the tie-break draws are logged in call order for the mirror models.
"""
import os, sys
sys.path.insert(0, os.path.dirname(os.path.abspath(__file__)))
from build import *
import random as _random


class RandomShim:
    def __init__(self):
        self.log = {"shuffles": [], "randoms": []}

    def Random(self, seed=None):
        r = _random.Random(seed)
        orig_shuffle, orig_random, log = r.shuffle, r.random, self.log

        def shuffle(l):
            orig_shuffle(l)
            log["shuffles"].append([int(a) for a in l])

        def rnd():
            v = orig_random()
            log["randoms"].append(int(v * 2 ** 53))     # random() is k / 2**53 exactly
            assert log["randoms"][-1] / 2 ** 53 == v
            return v
        r.shuffle, r.random = shuffle, rnd
        return r


def make_dist(kind, x):
    from msdm.core.distributions import DeterministicDistribution, DictDistribution, UniformDistribution
    if kind == "det":
        return DeterministicDistribution(x)
    if kind == "dict":
        return DictDistribution({x: 1.0})
    if kind == "uniform":
        return UniformDistribution([x])
    raise ValueError(kind)


def build_problem(case):
    from msdm.core.mdp.deterministic_shortest_path import DeterministicShortestPathProblem
    from msdm.core.mdp.quickmdp import QuickMDP
    succ = [{int(a): (int(t), int(c)) for a, t, c in row} for row in case["succ"]]
    acts = [tuple(int(a) for a, _, _ in row) for row in case["succ"]]
    goal = [bool(x) for x in case["goal"]]
    start = int(case["start"])
    if case["repr"] == "next_state":
        class G(DeterministicShortestPathProblem):
            def next_state(self, s, a): return succ[s][a][0]
            def initial_state(self): return start
            def reward(self, s, a, ns): return -float(succ[s][a][1])
            def actions(self, s): return acts[s]
            def is_absorbing(self, s): return goal[s]
        return G()
    ik, tk = case["repr"].split("/")
    return QuickMDP(
        next_state_dist=lambda s, a: make_dist(tk, succ[s][a][0]),
        reward=lambda s, a, ns: -float(succ[s][a][1]),
        actions=lambda s: acts[s],
        initial_state_dist=make_dist(ik, start),
        is_absorbing=lambda s: goal[s])


def describe(res, with_value):
    if res is None:
        return {"plan": None}
    path = [int(s) for s in res.path]
    acts = []
    for s in path[:-1]:
        d = res.policy.action_dist(s)
        sup = list(d.support)
        if len(sup) != 1:
            raise ValueError("policy not deterministic at %r" % (s,))
        acts.append(int(sup[0]))
    out = {"plan": {"path": path, "acts": acts}, "visited": sorted(int(s) for s in res.visited)}
    if with_value:
        out["plan"]["value"] = fj(res.path_value)
    return out


def run_alg(mk, get_problem, with_value):
    import msdm.algorithms.search as S
    shim = RandomShim()
    saved = S.random
    S.random = shim
    try:
        out = describe(mk().plan_on(get_problem()), with_value)
    except BaseException as e:
        if isinstance(e, (KeyboardInterrupt, SystemExit)):
            raise
        out = {"error": type(e).__name__ + ": " + str(e)[:300]}
    finally:
        S.random = saved
    out["shuffles"], out["randoms"] = shim.log["shuffles"], shim.log["randoms"]
    return out


def nested_heuristic(case):
    """heuristic_value(s) = - (least cost from s in the relaxed problem), found lazily by a nested A* on a second,
    non-DSP MDP (so from_mdp builds another wrapper while the outer search is running); None -> -inf"""
    from msdm.algorithms.search import AStarSearch
    seen = {}

    def hv(s):
        if s not in seen:
            sub = dict(case, succ=case["relaxed_succ"], start=int(s), repr=case["relaxed_repr"])
            r = AStarSearch().plan_on(build_problem(sub))
            seen[s] = float("inf") if r is None else float(r.path_value)
        return -seen[s]
    return hv, seen


def search_both(case, get_problem):
    from msdm.algorithms.search import AStarSearch, BreadthFirstSearch
    if case.get("scenario") == "nested_h":
        hfun, seen = nested_heuristic(case)
    else:
        hv = [float("inf") if x == "inf" else float(x) for x in case["h"]]     # heuristic COST per state
        hfun, seen = (lambda s: -hv[s]), None
    a = run_alg(lambda: AStarSearch(heuristic_value=hfun, seed=case["seed"],
                                    randomize_action_order=bool(case["shuffle"]),
                                    tie_breaking_strategy=case["tie"]), get_problem, True)
    if seen is not None:
        a["h_seen"] = {str(int(s)): fj(v) for s, v in seen.items()}
    b = run_alg(lambda: BreadthFirstSearch(seed=case["bfs_seed"],
                                           randomize_action_order=bool(case["shuffle"])), get_problem, False)
    return {"astar": a, "bfs": b}


def one(case, pl):
    if case.get("scenario") == "two_wrappers":
        # two wrappers of two different MDPs are alive at once; the OLDER one is planned on first, then the newer
        from msdm.core.mdp.deterministic_shortest_path import DeterministicShortestPathProblem as DSP
        other = case["other"]
        w1 = DSP.from_mdp(build_problem(case))
        w2 = DSP.from_mdp(build_problem(other))
        res = search_both(case, lambda: w1)
        res["other"] = search_both(other, lambda: w2)
        return res
    return search_both(case, lambda: build_problem(case))


if __name__ == "__main__":
    run_cases(one)
