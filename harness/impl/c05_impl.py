"""C05 implementation runner: AStarSearch and BreadthFirstSearch of msdm/algorithms/search.py on
generated deterministic shortest-path problems, given through one of the four representations
of a deterministic MDP (see DeterministicShortestPathProblem.from_mdp).

The `random` module seen by msdm.algorithms.search is replaced by a shim whose Random() hands
out a genuine random.Random(seed) with `shuffle` / `random` wrapped *on the instance* (a subclass
overriding random() would switch CPython to a different _randbelow and change the shuffles):
the shuffled action orders and the tie-break draws are logged in call order for the mirror models.
"""
import os, sys
sys.path.insert(0, os.path.dirname(os.path.abspath(__file__)))
from build import *
import random as _random


class RandomShim:
    def __init__(self):
        self.log = {"shuffles": [], "randoms": []}

    def Random(self, seed=None):
        r = _random.Random(seed)
        orig_shuffle, orig_random, log = r.shuffle, r.random, self.log

        def shuffle(l):
            orig_shuffle(l)
            log["shuffles"].append(list(l))

        def rnd():
            v = orig_random()
            log["randoms"].append(int(v * 2 ** 53))     # random() is k / 2**53 exactly
            assert log["randoms"][-1] / 2 ** 53 == v
            return v
        r.shuffle, r.random = shuffle, rnd
        return r


class HeapShim:
    """stands in for `heapq` inside search.py: same functions, counts pushes / pops per state (branch coverage)"""
    def __init__(self):
        import heapq
        self._h, self.enabled = heapq, True
        self.pushed, self.popped = {}, {}

    def heappush(self, q, node):
        if self.enabled:
            self.pushed[node.state] = self.pushed.get(node.state, 0) + 1
        return self._h.heappush(q, node)

    def heappop(self, q):
        node = self._h.heappop(q)
        if self.enabled:
            self.popped[node.state] = self.popped.get(node.state, 0) + 1
        return node


def label_maps(case):
    """state / action labels handed to msdm (the generated problem is over indices)"""
    n, sch, asch = case["n"], case.get("labels", "int"), case.get("alabels", "int")
    L = {"int": lambda: list(range(n)),
         "perm": lambda: [int(x) for x in case["perm"]],                      # label order differs from index order
         "str": lambda: ["" if i == 0 else "s%d" % i for i in range(n)],      # "" is falsy
         "tuple": lambda: [() if i == 0 else (i, "x") for i in range(n)],     # () is falsy
         "float": lambda: [float(i) for i in range(n)],                       # 0.0 is falsy
         "bool01": lambda: [False, True][:n] + list(range(2, n))}[sch]()
    K = 40
    A = {"int": list(range(K)), "str": [""] + ["a%d" % i for i in range(1, K)],
         "tuple": [()] + [(i,) for i in range(1, K)]}[asch]
    return L, {l: i for i, l in enumerate(L)}, A, {a: i for i, a in enumerate(A)}


def make_dist(kind, x):
    from msdm.core.distributions import DeterministicDistribution, DictDistribution, UniformDistribution
    if kind == "det":
        return DeterministicDistribution(x)
    if kind == "dict":
        return DictDistribution({x: 1.0})
    if kind == "uniform":
        return UniformDistribution([x])
    raise ValueError(kind)


def build_problem(case):
    from msdm.core.mdp.deterministic_shortest_path import DeterministicShortestPathProblem
    from msdm.core.mdp.quickmdp import QuickMDP, QuickTabularMDP
    L, idx, A, aidx = label_maps(case)
    num = int if case.get("num_type") == "int" else float
    succ = {L[s]: {A[int(a)]: (L[int(t)], num(c)) for a, t, c in row} for s, row in enumerate(case["succ"])}
    cont = case.get("actions_container", "tuple")
    mk = {"tuple": tuple, "list": list, "dict": dict.fromkeys, "iter": iter}[cont]
    acts = {L[s]: [A[int(a)] for a, _, _ in row] for s, row in enumerate(case["succ"])}
    goal = {L[s]: bool(x) for s, x in enumerate(case["goal"])}
    start = L[int(case["start"])]

    class G(DeterministicShortestPathProblem):
        def next_state(self, s, a): return succ[s][a][0]
        def initial_state(self): return start
        def reward(self, s, a, ns): return -succ[s][a][1]
        def actions(self, s): return mk(acts[s])
        def is_absorbing(self, s): return goal[s]
    if case["repr"] == "next_state":
        return G()
    if case["repr"] == "dspdist":
        # a non-DSP MDP whose distributions come from DeterministicShortestPathProblem.next_state_dist / initial_state_dist
        base = G()
        return QuickMDP(next_state_dist=base.next_state_dist, reward=base.reward, actions=base.actions,
                        initial_state_dist=base.initial_state_dist, is_absorbing=base.is_absorbing)
    ik, tk = case["repr"].split("/")
    if case.get("shared_dists"):          # one distribution object per (s, a), handed out on every call
        table = {(s, a): make_dist(tk, ns) for s, row in succ.items() for a, (ns, _) in row.items()}
        nsd = lambda s, a: table[(s, a)]
    else:
        nsd = lambda s, a: make_dist(tk, succ[s][a][0])
    cls = QuickTabularMDP if case.get("tabular") else QuickMDP
    mdp = cls(next_state_dist=nsd, reward=lambda s, a, ns: -succ[s][a][1], actions=lambda s: mk(acts[s]),
              initial_state_dist=make_dist(ik, start), is_absorbing=lambda s: goal[s])
    if case.get("tabular"):               # base object already USED (cached views built) before it is wrapped
        mdp.reachable_states(), mdp.state_list, mdp.action_list
        try:                              # (the matrices raise KeyError when an absorbing state has an action leading outside
            mdp.transition_matrix, mdp.reward_matrix      # the reachable set: tabular-view matter, not judged here)
        except KeyError:
            pass
    return mdp


def describe(res, with_value, case):
    if res is None:
        return {"plan": None}
    L, idx, A, aidx = label_maps(case)
    path = [idx[s] for s in res.path]
    acts = []
    for s in res.path[:-1]:
        sup = list(res.policy.action_dist(s).support)
        sup2 = list(res.policy.action_dist(s).support)       # policy object asked twice
        if len(sup) != 1 or sup != sup2:
            raise ValueError("policy not deterministic at %r" % (s,))
        acts.append(aidx[sup[0]])
    out = {"plan": {"path": path, "acts": acts}, "visited": sorted(idx[s] for s in res.visited)}
    if with_value:
        out["plan"]["value"] = fj(res.path_value)
    return out


def run_alg(planner, get_problem, with_value, case):
    import msdm.algorithms.search as S
    _, _, _, aidx = label_maps(case)
    saved = S.random, S.heapq
    shim, hshim = RandomShim(), HeapShim()
    try:
        prob = get_problem()
        for _ in range(2 if case.get("replan") else 1):       # same planner object, same problem object, again
            shim, hshim = RandomShim(), HeapShim()
            S.random, S.heapq = shim, hshim
            out = describe(planner.plan_on(prob), with_value, case)
    except BaseException as e:
        if isinstance(e, (KeyboardInterrupt, SystemExit)):
            raise
        out = {"error": type(e).__name__ + ": " + str(e)[:300]}
    finally:
        S.random, S.heapq = saved
    out["shuffles"] = [[aidx[a] for a in l] for l in shim.log["shuffles"]]
    out["randoms"] = shim.log["randoms"]
    out["repushes"] = sum(k - 1 for k in hshim.pushed.values())
    out["stale_pops"] = sum(k - 1 for k in hshim.popped.values())
    return out


def nested_heuristic(case):
    """heuristic_value(s) = - (least cost from s in the relaxed problem), found lazily by a nested A* on a second,
    non-DSP MDP (so from_mdp builds another wrapper while the outer search is running); None -> -inf"""
    from msdm.algorithms.search import AStarSearch
    import msdm.algorithms.search as S
    L, idx, _, _ = label_maps(case)
    seen = {}

    def hv(s):
        i = idx[s]
        if i not in seen:
            sub = dict(case, succ=case["relaxed_succ"], start=i, repr=case["relaxed_repr"], tabular=False)
            hs = S.heapq
            en, hs.enabled = getattr(hs, "enabled", None), False
            try:
                r = AStarSearch().plan_on(build_problem(sub))
            finally:
                if en is not None:
                    hs.enabled = en
            seen[i] = float("inf") if r is None else float(r.path_value)
        return -seen[i]
    return hv, seen


def make_planners(case):
    from msdm.algorithms.search import AStarSearch, BreadthFirstSearch
    _, idx, _, _ = label_maps(case)
    num = int if case.get("num_type") == "int" else float
    if case.get("scenario") == "nested_h":
        hfun, seen = nested_heuristic(case)
    elif case["heuristic"] == "zero":
        hfun, seen = (lambda s: -num(0)), None          # label-independent: usable on a second problem
    else:
        hv = [float("inf") if x == "inf" else num(x) for x in case["h"]]     # heuristic COST per state
        hfun, seen = (lambda s: -hv[idx[s]]), None
    kw = {} if case.get("assert_monotone", True) else {"assert_monotone_heuristic": False}
    a = AStarSearch(heuristic_value=hfun, seed=case["seed"], randomize_action_order=bool(case["shuffle"]),
                    tie_breaking_strategy=case["tie"], **kw)
    b = BreadthFirstSearch(seed=case["bfs_seed"], randomize_action_order=bool(case["shuffle"]))
    return a, b, seen


def search_both(case, get_problem, planners=None):
    pa, pb, seen = planners or make_planners(case)
    a = run_alg(pa, get_problem, True, case)
    if seen is not None:
        a["h_seen"] = {str(int(s)): fj(v) for s, v in seen.items()}
    b = run_alg(pb, get_problem, False, case)
    return {"astar": a, "bfs": b}


def one(case, pl):
    if case.get("scenario") == "two_wrappers":
        # two wrappers of two different MDPs are alive at once; the OLDER one is planned on first, then the newer
        from msdm.core.mdp.deterministic_shortest_path import DeterministicShortestPathProblem as DSP
        other = case["other"]
        w1 = DSP.from_mdp(build_problem(case))
        w2 = DSP.from_mdp(build_problem(other))
        planners = make_planners(case) if case.get("shared_planner") else None     # one planner object, two problems
        res = search_both(case, lambda: w1, planners)
        res["other"] = search_both(other, lambda: w2, planners)
        return res
    prob = build_problem(case)               # one problem object for both searches
    return search_both(case, lambda: prob)


if __name__ == "__main__":
    run_cases(one)
