"""C14 — policy roll-outs are valid trajectories and Monte-Carlo evaluation averages them.

Correspondence: generated MDPs/POMDPs, policies, start states, caps and recorded generator streams ->
msdm `Policy.run_on / evaluate_on / calc_returns`, `POMDPPolicy.run_on` (harness/impl/c14_impl.py, a scripted
`random.Random` replays the stream and logs each request) and the Gallina model `model/Rollout.v`
(`run_on`, `prun_on`, `calc_returns`, `mc_evaluate`, `Vn`) evaluated by vm_compute on the same stream.
Trajectories are compared exactly (including the number of raw draws used), tables at 1e-12.
Independently of the model, every clause of the property is evaluated on the implementation's output with
exact rationals (violation search; `found=True` reports come from there).
"""
from fractions import Fraction as F
import copy
import vlib
from vlib import q, qlist, nat, natlist, blist, coqlist
import gen_mdp

INFO = {
    "level": "proof",
    "coq_files": ["model/Rollout.v", "theory/RolloutTheory.v"],
    "trusted_base": [
        "CPython random.Random.choices / choice / _randbelow_without_getrandbits are what model/Rollout.v `pick`/`randbelow` "
        "say (bisect_right on running sums, floor(r*2^53) % n); re-checked on every run because the scripted generator runs "
        "CPython's own code on the replayed floats and the resulting trajectories are compared exactly",
        "generated probabilities/rewards on the k/8, k/4 grids reach msdm as exact doubles; non-dyadic policy weights and "
        "gamma reach the model as the rational and msdm as the nearest double (stream values odd/2^21 keep every bisect "
        "decision away from rounding distance); returns and averages compared at 1e-12 (relative to max(1,|x|))",
        "harness/c14.py literal printers and the case -> (msdm object, Gallina term) builders",
    ],
    "assumptions": [
        "distributions handed to roll-outs have non-negative weights with positive total and non-empty supports",
        "a generator is modelled by the sequence of floats its random() returns, each in [0,1)",
    ],
}

DEN = 2 ** 21
FUEL = 150          # model step cap used for cap='large'/'default' runs (run_cap_stable: irrelevant once the run stopped earlier)
TOL = F(1, 10 ** 12)

PRE = """From Coq Require Import QArith List Bool ZArith.
From MSDM Require Import model.Rollout.
Import ListNotations.
Local Open Scope Q_scope.
Definition runq ini next rew ab g pol s0 (cap : nat) st :=
  run_out (run_on (mk_fmdp ini next rew ab g) (mk_pol pol) s0 cap st) st.
Definition evalq ini next rew ab g pol (cap n : nat) st :=
  let m := mk_fmdp ini next rew ab g in
  let r := sims m (mk_pol pol) cap n st in
  (* mc_evaluate m pi cap n st unfolds to mc_tables (f_gamma m) n (fst (sims m pi cap n st)); r is shared *)
  (mc_out (mc_tables g n (fst r)),
   map (fun t : traj => (map step_out (fst t), snd t)) (fst r),
   (length st - length (snd r))%nat).
Definition evaldet ini next rew ab g pol (cap n : nat) st :=
  let m := mk_fmdp ini next rew ab g in
  let r := sims m (mk_pol pol) cap n st in
  (qo_of (mean (map (fun t : traj => Vn m (mk_pol pol) cap (hd 0%nat (t_states t))) (fst r))),
   map (fun t : traj => qo_of (Vn m (mk_pol pol) cap (hd 0%nat (t_states t)))) (fst r),
   map (fun t : traj => qo_of (hd 0 (calc_returns (t_rewards t) g))) (fst r)).
Definition prunt flag ini next rew ab g obs cini cact cnxt s0 ag0 (cap : nat) gst st :=
  prun_out (fun x : nat => x) (prun_on flag (mk_fpomdp (mk_fmdp ini next rew ab g) obs) (mk_ctrl cini cact cnxt) s0 ag0 cap gst st) gst st.
Definition pruns flag ini next rew ab g obs cini cA cO (nA : nat) s0 ag0 (cap : nat) gst st :=
  prun_out (map qo_of) (prun_on flag (mk_fpomdp (mk_fmdp ini next rew ab g) obs) (mk_sfsc cini cA cO nA) s0 ag0 cap gst st) gst st.
Definition retq rs g := map qo_of (calc_returns rs g).
"""


# ----------------------------------------------------------------------------- generation
def split(rng, k, denom):
    cuts = sorted(rng.sample(range(1, denom), k - 1)) if k > 1 else []
    parts = [b - a for a, b in zip([0] + cuts, cuts + [denom])]
    return [F(p, denom) for p in parts]


def gen_dist(rng, allowed, universe, dyadic, deterministic=False):
    """a distribution (JSON) giving positive weight only to `allowed` ids"""
    allowed = list(allowed)
    r = rng.random()
    if deterministic:
        x = rng.choice(allowed)
        if r < .3:
            return {"t": "det", "x": x}
        if r < .5:
            return {"t": "unif", "items": [x], "tuple": rng.random() < .5}
        items = [[x, "1"]]
        if r < .8:
            others = [y for y in universe if y != x]
            for y in rng.sample(others, min(len(others), rng.randint(1, 2))):
                items.insert(rng.randint(0, len(items)), [y, "0"])
        return {"t": "dict", "items": items}
    if r < .12:
        return {"t": "det", "x": rng.choice(allowed)}
    if r < .3:
        k = rng.randint(1, len(allowed))
        return {"t": "unif", "items": rng.sample(allowed, k), "tuple": rng.random() < .5}
    k = rng.randint(1, min(3, len(allowed)))
    xs = rng.sample(allowed, k)
    denoms = [8] if dyadic else [8, 3, 10, 7, 12]
    denom = rng.choice([d for d in denoms if d >= k + 1] or [8])
    ps = split(rng, k, denom)
    items = [[x, str(p)] for x, p in zip(xs, ps)]
    if rng.random() < .3:
        others = [y for y in universe if y not in xs]
        if others:
            items.insert(rng.randint(0, len(items)), [rng.choice(others), "0"])
    return {"t": "dict", "items": items}


# weights that do not sum to 1 (1 +- 1e-6, 2, 1/2) and probabilities next to 0 and 1 (2^-30, 1 - 2^-20);
# every bisect boundary u = cum/total of these templates stays > 1e-9 away from the k/2^21 stream grid or is dyadic-exact
BOUNDARY_WEIGHTS = [["1/2", "500001/1000000"], ["499999/1000000", "1/2"], ["1/4", "1/4", "500001/1000000"],
                    ["1", "1"], ["1/4", "1/4"], ["1/1073741824", "1073741823/1073741824"],
                    ["1048575/1048576", "1/1048576"], ["1/1073741824", "1/2", "536870911/1073741824"]]


T40, T52, T60 = 2 ** 40, 2 ** 52, 2 ** 60
# tiny positive probabilities (2^-40, 2^-52, 2^-60: far below np.isclose's atol) first / in the middle of a support
TINY_WEIGHTS = [["1/%d" % T40, "%d/%d" % (T40 - 1, T40)], ["1/2", "1/%d" % T40, "%d/%d" % (T40 // 2 - 1, T40)],
                ["1/%d" % T52, "%d/%d" % (T52 - 1, T52)], ["1/%d" % T60, "1/256"]]
# (2^-60 next to 2^-8, unnormalised: both running sums are doubles; u * total is only ever compared with 2^-60, and the stream
#  values are either 2^-70 or >= 2^-21, so rounding of the product cannot change the side)
TINY_NORMALISED = [ws for ws in TINY_WEIGHTS if sum(F(w) for w in ws) == 1]     # POMDP kernels: belief policies assert sum = 1
BOUNDARY_WEIGHTS += TINY_WEIGHTS
# non-dyadic rows whose double sum is not exactly 1 (0.7+0.2+0.1), thirds, sevenths, tenths
NONDYADIC_WEIGHTS = [["7/10", "1/5", "1/10"], ["1/3", "1/3", "1/3"], ["1/7", "2/7", "4/7"], ["1/10", "9/10"], ["1/3", "2/3"],
                     ["1/10", "1/5", "7/10"]]
NONDYADIC_REWARDS = ["1/10", "1/3", "-7/10", "22/7", "-1/3", "3/10"]
# stream values below every tiny weight (2^-70) and just above 1/2 (1/2 + 2^-45): they select the tiny entries
U_TINY, U_HALF_PLUS = [1, 70], [2 ** 44 + 1, 45]


def is_dyadic_ws(ws):
    return all(F(x).denominator & (F(x).denominator - 1) == 0 for x in ws)


def ufrac(x):
    return F(x[0], 2 ** x[1]) if isinstance(x, list) else F(x, DEN)


def _check_templates():
    for ws in BOUNDARY_WEIGHTS + NONDYADIC_WEIGHTS:
        tot = sum(F(w) for w in ws)
        cum = F(0)
        for w in ws[:-1]:
            cum += F(w)
            u = cum / tot
            k = round(u * DEN)
            d = abs(u - F(k, DEN))
            dyadic = all(F(x).denominator & (F(x).denominator - 1) == 0 for x in ws)
            if dyadic:
                # exact in doubles (then any distance is safe) only if every running sum is itself a double
                run = F(0)
                for x in ws:
                    run += F(x)
                    assert F(float(run)) == run, ws
            assert dyadic or d > F(1, 10 ** 9), ws


_check_templates()


def gen_boundary_dist(rng, allowed, dyadic=False, pool=None):
    allowed = list(allowed)
    pool = pool or (BOUNDARY_WEIGHTS + NONDYADIC_WEIGHTS + TINY_WEIGHTS)
    cands = [ws for ws in pool if len(ws) <= len(allowed) and (not dyadic or is_dyadic_ws(ws))]
    if not cands:
        return None
    ws = rng.choice(cands)
    return {"t": "dict", "items": [[x, w] for x, w in zip(rng.sample(allowed, len(ws)), ws)]}


def perturb_mdp(rng, m, dyadic=False):
    """parameter boundaries inside the MDP: a transition row with probabilities 2^-30 / 1-2^-20, rewards of
    magnitude 1e3..1e6 (one sign only, so that no return is a small difference of large numbers)"""
    m = copy.deepcopy(m)
    feats = []
    rows = [k for k, row in m["trans"].items() if not m["absorbing"][int(k.split(",")[0])]]
    if m["n"] >= 2 and rng.random() < .35:
        d = gen_boundary_dist(rng, range(m["n"]), dyadic)
        if d:
            m["init"] = d["items"]
            feats.append("boundary_init")
    if not dyadic and m["reward"] and rng.random() < .5:
        for k in rng.sample(sorted(m["reward"]), min(5, len(m["reward"]))):
            r = rng.choice(NONDYADIC_REWARDS)
            m["reward"][k] = r if F(m["gamma"]) != 1 or F(r) < 0 else str(-F(r))
        feats.append("nondyadic_rewards")
    if rows and m["n"] >= 2 and rng.random() < .6:
        k = rng.choice(rows)
        d = gen_boundary_dist(rng, range(m["n"]), dyadic)
        if d:
            s, a = k.split(",")
            for ns, _ in m["trans"][k]:
                m["reward"].pop("%s,%s,%d" % (s, a, ns), None)
            m["trans"][k] = d["items"]
            feats.append("boundary_row")
    if m["reward"] and rng.random() < .4 and "nondyadic_rewards" not in feats:
        sign = -1 if F(m["gamma"]) == 1 else rng.choice([-1, 1])
        for k in rng.sample(sorted(m["reward"]), min(2, len(m["reward"]))):
            # magnitudes 1e3 .. 1e9 with gaps of relative size 1e-6 (1e9 vs 1e9 + 1000.25), one sign
            m["reward"][k] = str(sign * F(rng.choice([1000, 123456, 10 ** 6, 10 ** 9, 10 ** 9 + 1000]) * 4 + rng.choice([0, 1, 3]), 4))
        feats.append("big_rewards")
    return m, feats


LABEL_STYLES = ["str", "tuple", "float", "int_perm", "bool"]


def gen_labels(rng, k, style):
    """k distinct labels, one of them falsy, in an order that is not the sorted order"""
    if style == "bool" and k > 2:
        style = "str"
    if style == "str":
        pool = ["", "b", "a", "zz", "B", "c", "0", " "]
    elif style == "tuple":
        pool = [{"tuple": []}, {"tuple": [0]}, {"tuple": [1, 0]}, {"tuple": [0, 1]}, {"tuple": [0, 0]}, {"tuple": [2]},
                {"tuple": ["x"]}, {"tuple": [{"tuple": []}]}]
    elif style == "float":
        pool = [0.0, 0.5, -1.5, 2.25, 1e-9, -0.0 + 3.0, 7.0, -2.0]
    elif style == "bool":
        pool = [False, True]
    else:
        pool = [0, 5, 3, -1, 2, 9, 1, 4]
    labs = pool[:k]
    rng.shuffle(labs)
    return labs


def gen_opts(rng, m, allow_global=False):
    o = {}
    if rng.random() < .4:
        o["labels"] = {"states": gen_labels(rng, m["n"], rng.choice(LABEL_STYLES)),
                       "actions": gen_labels(rng, m["nA"], rng.choice(LABEL_STYLES))}
    if rng.random() < .3:
        o["repr"] = "matrices"
    if rng.random() < .3:
        o["touch"] = True
    if allow_global and rng.random() < .12:
        o["use_global"] = True
    if rng.random() < .15:
        o["int_types"] = True        # integral rewards / probabilities / action-matrix entries as Python ints
    return o


def has_tiny(case_or_list):
    txt = repr(case_or_list)
    return any(("/%d'" % t) in txt for t in (T40, T52, T60, 2 ** 30))


def clean_dyadic(m, policy):
    """every number of the case is exact in float32 (k/8 probabilities, quarter rewards, small magnitudes)"""
    nums = [p for row in m["trans"].values() for _, p in row] + [p for _, p in m["init"]] + list(m["reward"].values())
    if policy["kind"] == "tabular":
        nums += [x for row in policy["matrix"] for x in row]
    return all(F(x).denominator in (1, 2, 4, 8) and abs(F(x)) < 4096 for x in nums)


def presented(m, opts):
    """the MDP as the chosen constructor presents its distributions to the generator"""
    if (opts or {}).get("repr") != "matrices":
        return m
    pm = dict(m)
    pm["trans"] = {k: sorted([[ns, p] for ns, p in row if F(p) > 0]) for k, row in m["trans"].items()}
    pm["init"] = sorted([[s, p] for s, p in m["init"] if F(p) > 0])
    return pm


def gen_policy(rng, m, dyadic, deterministic=False, kind=None):
    kind = kind or rng.choice(["functional", "tabular"])
    n, nA = m["n"], m["nA"]
    if kind == "functional":
        dists = [gen_dist(rng, m["actions"][s], range(nA), dyadic, deterministic) for s in range(n)]
        if not deterministic:
            for s in range(n):
                if rng.random() < .15:
                    dists[s] = gen_boundary_dist(rng, m["actions"][s], dyadic) or dists[s]
        return {"kind": "functional", "dists": dists}
    mat = []
    for s in range(n):
        av = m["actions"][s]
        if deterministic:
            k = 1
        else:
            k = rng.randint(1, len(av))
        xs = rng.sample(av, k)
        denom = 8 if dyadic else rng.choice([d for d in [8, 3, 10, 7] if d >= k + 1] or [8])
        ps = split(rng, k, denom)
        row = ["0"] * nA
        for x, p in zip(xs, ps):
            row[x] = str(p)
        mat.append(row)
    return {"kind": "tabular", "matrix": mat}


def policy_dists(case):
    """the policy as a list of dist JSON per state, as msdm presents it to the generator"""
    p = case["policy"]
    if p["kind"] == "functional":
        return p["dists"]
    return [{"t": "dict", "items": [[a, x] for a, x in enumerate(row)]} for row in p["matrix"]]


def make_deterministic(m):
    m = copy.deepcopy(m)
    for k, row in m["trans"].items():
        keep = next(ns for ns, p in row if F(p) > 0)
        m["trans"][k] = [[ns, ("1" if ns == keep else "0")] for ns, p in row if ns == keep or F(p) == 0]
    first = next(s for s, p in m["init"] if F(p) > 0)
    m["init"] = [[s, ("1" if s == first else "0")] for s, p in m["init"] if s == first or F(p) == 0]
    return m


def gen_stream(rng, L, dyadic, tiny=.04):
    out = []
    for _ in range(L):
        r = rng.random()
        if r > 1 - tiny:
            out.append(rng.choice([U_TINY, U_TINY, U_HALF_PLUS]))
        elif dyadic and r < .25:
            out.append(rng.randrange(0, 8) * (DEN // 8))          # exactly on the k/8 boundaries (ties)
        elif r < .3:
            out.append(rng.choice([1, DEN - 1]))
        else:
            out.append(2 * rng.randrange(0, DEN // 2) + 1)
    return out


def gen_cap(rng):
    return rng.choice([0, 1, 2, 5, "large", 0, 1, 2, 5, "large", 3, 8, "default"])


def gen_mdp_for(rng, tier, cap, **kw):
    nmax = 5 if tier == "quick" else 7
    long_run = cap in ("large", "default")
    return gen_mdp.gen_mdp(rng, nmax=nmax, amax=3, proper=long_run or rng.random() < .3, **kw)


def unlist_actions(rng, m, share=.35):
    """actions(s) lists fewer actions than the model defines transitions for (the policy's support is then not contained in
    actions(s)), possibly none at a non-absorbing state (a dead end where the policy still has a distribution).  Roll-outs
    never consult actions(s): the recorded action is the sampled one, only absorbing states and the cap stop a roll-out."""
    if rng.random() >= share:
        return m
    listed = []
    for s_, acts in enumerate(m["actions"]):
        r = rng.random()
        if r < .4:
            listed.append(list(acts))
        elif r < .65:
            listed.append([])
        else:
            listed.append(sorted(rng.sample(list(acts), rng.randint(0, max(0, len(acts) - 1)))))
    m["listed"] = listed
    return m


def gen_mdp_run(rng, tier):
    cap = gen_cap(rng)
    dyadic = rng.random() < .5
    m = gen_mdp_for(rng, tier, cap)
    bfeats = []
    if rng.random() < .3:
        m, bfeats = perturb_mdp(rng, m, dyadic)
    m = unlist_actions(rng, m)
    s0 = None if rng.random() < .5 else rng.randrange(m["n"])
    capn = 40 if cap in ("large", "default") else cap
    opts = gen_opts(rng, m, allow_global=True)
    policy = gen_policy(rng, m, dyadic)
    if dyadic and policy["kind"] == "tabular" and opts.get("repr") == "matrices" and clean_dyadic(m, policy) and rng.random() < .6:
        opts["float32"] = True       # float32 arrays for the MDP matrices and the policy table
        opts.pop("int_types", None)
    tiny = .25 if has_tiny([m, policy]) else .04
    c = {"kind": "mdp_run", "mdp": m, "policy": policy, "s0": s0, "cap": cap, "dyadic": dyadic,
         "opts": opts, "boundary": bfeats, "omit_s0": s0 is None and rng.random() < .5,
         "use_global": bool(opts.get("use_global")), "twice": rng.random() < .1,
         "stream": gen_stream(rng, 2 * capn + 3, dyadic, tiny),
         "gstream": gen_stream(rng, (2 * capn + 3) if opts.get("use_global") else 4, dyadic, tiny)}
    if rng.random() < .4:
        # the same policy object is run a second time: on the same MDP object, or on a second MDP object with the
        # same labels and structure but other numbers
        cap2 = rng.choice([0, 1, 2, 5, "large"])
        capn2 = 40 if cap2 == "large" else cap2
        m2 = None
        if rng.random() < .5:
            m2 = copy.deepcopy(m)
            for k in list(m2["reward"]):
                m2["reward"][k] = str(-F(m2["reward"][k]) + (0 if F(m2["gamma"]) == 1 else 1))
                if F(m2["gamma"]) == 1 and F(m2["reward"][k]) > 0:
                    m2["reward"][k] = str(-F(m2["reward"][k]))
            for k, row in m2["trans"].items():
                ps = [p for ns, p in row]
                ps = ps[1:] + ps[:1]
                m2["trans"][k] = [[ns, p] for (ns, _), p in zip(row, ps)]
            for k in list(m2["reward"]):
                s_, a_, ns_ = map(int, k.split(","))
                if dweight({"t": "dict", "items": m2["trans"]["%d,%d" % (s_, a_)]}, ns_) == 0:
                    del m2["reward"][k]
            if rng.random() < .5:
                j = rng.randrange(m2["n"])           # a different stopping structure as well
                m2["absorbing"][j] = not m2["absorbing"][j]
        pol2, inplace = None, False
        if m2 is not None and opts.get("repr") != "matrices" and rng.random() < .6:
            # the SAME distribution / reward / flag objects are updated IN PLACE between the two roll-outs (item assignment on
            # the DictDistributions handed out by the MDP, its initial distribution and the functional policy): the second
            # roll-out must follow their CURRENT contents
            inplace = True
            m2["init"] = [[s_, p_] for (s_, _), p_ in zip(m2["init"], [p for _, p in m2["init"]][1:] + [m2["init"][0][1]])]

            def concentrate(items):
                """all the mass on one entry, the others 0: whatever was likely before is impossible now"""
                if len(items) < 2 or rng.random() < .5:
                    return items
                tot = sum(F(w) for _, w in items)
                j = rng.randrange(len(items))
                return [[x, (str(tot) if i == j else "0")] for i, (x, _) in enumerate(items)]
            memo = {}      # rows that are equal in the first MDP share ONE distribution object: they get the same update
            for k in sorted(m2["trans"]):
                key = tuple(map(tuple, m["trans"][k]))
                if key not in memo:
                    memo[key] = concentrate(m2["trans"][k])
                m2["trans"][k] = [list(x) for x in memo[key]]
            m2["init"] = concentrate(m2["init"])
            for k in list(m2["reward"]):
                s_, a_, ns_ = map(int, k.split(","))
                if dweight({"t": "dict", "items": m2["trans"]["%d,%d" % (s_, a_)]}, ns_) == 0:
                    del m2["reward"][k]
            cap2 = rng.choice([2, 5, 5, "large"])
            capn2 = 40 if cap2 == "large" else cap2
            if c["policy"]["kind"] == "functional":
                pol2 = copy.deepcopy(c["policy"])
                for d in pol2["dists"]:
                    if d["t"] == "dict" and len(d["items"]) >= 2:
                        ws = [w for _, w in d["items"]]
                        ws = ws[1:] + ws[:1]
                        d["items"] = concentrate([[x, w] for (x, _), w in zip(d["items"], ws)])
                # an action that becomes possible must be available in the state (zero entries may name any action id)
                for s_, d in enumerate(pol2["dists"]):
                    if d["t"] == "dict" and any(F(w) > 0 and x not in m["actions"][s_] for x, w in d["items"]):
                        pol2["dists"][s_] = c["policy"]["dists"][s_]
        c["second"] = {"mdp": m2, "s0": None if rng.random() < .5 else rng.randrange(m["n"]), "cap": cap2,
                       "use_global": False, "omit_s0": False, "mdp_inplace": inplace, "policy": pol2,
                       "stream": gen_stream(rng, 2 * capn2 + 3, dyadic), "gstream": gen_stream(rng, 4, dyadic)}
    return c


def gen_mdp_eval(rng, tier, deterministic):
    cap = rng.choice([0, 1, 2, 5, "large", 3])
    dyadic = rng.random() < .5
    r = rng.random()
    gamma = "0" if r < .15 else ("1" if r < .22 else ("1/1024" if r < .27 else ("1048575/1048576" if r < .33 else None)))
    if gamma == "1048575/1048576":
        cap = rng.choice([1, 2, 5])          # discount 1 - 2^-20: short runs only (exact powers get large in vm_compute)
    m = gen_mdp_for(rng, tier, cap, gamma=gamma)
    bfeats = []
    if deterministic:
        m = make_deterministic(m)
    elif rng.random() < .3:
        m, bfeats = perturb_mdp(rng, m, dyadic)
    m = unlist_actions(rng, m)
    n_sims = rng.choice([1, 2, 3, 5, 8])
    capn = 30 if cap == "large" else cap
    opts = gen_opts(rng, m)
    if rng.random() < .3:
        opts["second_eval"] = gen_stream(rng, 16, dyadic)
    if gamma in ("0", "1") and rng.random() < .3:
        opts["gamma_int"] = True             # discount_rate = 0 / 1 written as a Python int
    if rng.random() < .3:
        opts["warmup"] = gen_stream(rng, 12, dyadic)
    policy = gen_policy(rng, m, dyadic, deterministic=deterministic)
    if deterministic and policy["kind"] == "tabular" and opts.get("repr") == "matrices" and rng.random() < .7:
        opts["int_arrays"] = True    # 0/1 transition tensor and 0/1 policy table with integer dtype
    elif dyadic and policy["kind"] == "tabular" and opts.get("repr") == "matrices" and clean_dyadic(m, policy) and rng.random() < .6:
        opts["float32"] = True
        opts.pop("int_types", None)
    tiny = .25 if has_tiny([m, policy]) else .04
    return {"kind": "mdp_eval", "mdp": m, "policy": policy, "cap": cap,
            "n_sims": n_sims, "dyadic": dyadic, "deterministic": deterministic, "step_guard_total": 45 + n_sims,
            "opts": opts, "boundary": bfeats,
            "stream": gen_stream(rng, n_sims * (2 * capn + 1) + 3, dyadic, tiny), "gstream": gen_stream(rng, 16, dyadic)}


def gen_high_volume(rng, variant):
    """evaluate_on with more than 1e5 recorded visits of one state (and of one state-action pair): a 1- or 2-state cyclic task,
    deterministic steps (only the start is drawn), judged in Python on the recorded roll-outs (identical roll-outs recorded once
    with their multiplicity)"""
    if variant == 1:
        m = {"n": 1, "nA": 1, "actions": [[0]], "trans": {"0,0": [[0, "1"]]}, "reward": {"0,0,0": str(F(rng.randint(1, 8), 4))},
             "absorbing": [False], "init": [[0, "1"]], "gamma": rng.choice(["127/128", "63/64"])}
        policy = {"kind": "functional", "dists": [{"t": "det", "x": 0}]}
        n_sims, cap = rng.randint(230, 260), rng.randint(450, 480)
    else:
        m = {"n": 2, "nA": 2, "actions": [[0, 1], [0, 1]],
             "trans": {"0,0": [[1, "1"]], "0,1": [[0, "1"]], "1,0": [[0, "1"]], "1,1": [[1, "1"]]},
             "reward": {"0,0,1": str(F(rng.randint(1, 8), 2)), "1,0,0": str(F(rng.randint(-8, -1), 4))},
             "absorbing": [False, False], "init": [[0, "1/2"], [1, "1/2"]], "gamma": rng.choice(["127/128", "63/64"])}
        policy = {"kind": "functional", "dists": [{"t": "dict", "items": [[0, "1"]]}, {"t": "det", "x": 0}]}
        n_sims, cap = rng.randint(300, 330), rng.randint(680, 720)
    return {"kind": "mdp_eval", "mdp": m, "policy": policy, "cap": cap, "n_sims": n_sims, "dyadic": True, "deterministic": False,
            "step_guard_total": n_sims * (cap + 2), "opts": {}, "boundary": [], "python_only": True, "high_volume": True,
            "stream": gen_stream(rng, 2 * n_sims + 3, True, 0), "gstream": gen_stream(rng, 4, True)}


def gen_long(rng, tier, evaluate):
    """episodes beyond 1000 steps (no absorbing state is ever reached): checked clause by clause in Python only"""
    cap = rng.randint(1100, 1500)
    m = gen_mdp.gen_mdp(rng, nmax=4, amax=2, gamma="1/2", goal=False, implicit_absorbing=False, min_states=2)
    policy = gen_policy(rng, m, True)
    if evaluate:
        return {"kind": "mdp_eval", "mdp": m, "policy": policy, "cap": cap, "n_sims": 1, "dyadic": True, "deterministic": False,
                "step_guard_total": cap + 10, "opts": {}, "boundary": [], "python_only": True,
                "stream": gen_stream(rng, 2 * cap + 3, True), "gstream": gen_stream(rng, 4, True)}
    return {"kind": "mdp_run", "mdp": m, "policy": policy, "s0": rng.choice([None, 0]), "cap": cap, "dyadic": True,
            "opts": {}, "boundary": [], "omit_s0": False, "use_global": False, "step_guard": cap + 10, "python_only": True,
            "stream": gen_stream(rng, 2 * cap + 3, True), "gstream": gen_stream(rng, 4, True)}


RET_GAMMAS = gen_mdp.GAMMAS_DISC + ["1", "1/10", "0", "0", "1", "1/1024", "1/1024", "1048575/1048576", "1048575/1048576"]


def gen_returns(rng, mode="short"):
    """short: length 1..12 (also through the Coq model), gammas incl. 0, 1, 2^-10;
    long_half: length 1100..1500 with gamma 1/2 (gamma^t underflows to 0 beyond t ~ 1075);
    long_small: length 110..200 with gamma 2^-10 or 0 (gamma^t underflows beyond t ~ 108).
    Long lists are compared with the exact backward recursion in Python only (not through Coq)."""
    if mode == "long_half":
        n, gamma = rng.randint(1100, 1500), "1/2"
    elif mode == "long_small":
        n, gamma = rng.randint(110, 200), rng.choice(["1/1024", "1/1024", "0", "1/10"])
    else:
        n, gamma = rng.randint(1, 12), rng.choice(RET_GAMMAS)
    rs = [str(F(rng.randint(-16, 16), rng.choice([1, 1, 4]))) for _ in range(n)]
    if mode == "short" and rng.random() < .2:
        # large magnitudes, one sign (no return is a small difference of large numbers)
        sg = rng.choice([-1, 1])
        rs = [str(sg * F(rng.choice([0, 1, 1000, 123456, 10 ** 6, 10 ** 9, 10 ** 9 + 1000]) * 4 + rng.choice([0, 1, 3]), 4)) for _ in range(n)]
    elif mode == "short" and rng.random() < .2:
        rs = [rng.choice(NONDYADIC_REWARDS + ["0", "1"]) for _ in range(n)]
    if mode != "short" and rng.random() < .5:
        # make sure the far tail matters: non-zero rewards at the very end
        rs[-1] = str(F(rng.choice([-16, -7, 5, 16])))
    return {"kind": "returns", "rewards": rs, "gamma": gamma, "long": mode != "short",
            "gamma_int": gamma in ("0", "1") and mode == "short" and rng.random() < .35}


def gen_pomdp_run(rng, tier, probe=False):
    cap = rng.choice([0, 1, 2, 5, "large", 3, 8])
    kind = rng.choice(["table", "sfsc", "fsc", "fsc", "belief", "belief"])
    if kind == "belief" and cap in ("large", 8):
        cap = 5
    if kind == "sfsc" and cap == "large":
        cap = 8
    m = gen_mdp_for(rng, tier, cap, uniform_actions=True)
    m = unlist_actions(rng, m, .4)        # state-dependent action lists: the controller may play an action unlisted in the hidden state
    n, nA = m["n"], m["nA"]
    nO = rng.randint(1, 3)
    obs = {}
    for a in range(nA):
        for ns in range(n):
            obs["%d,%d" % (a, ns)] = gen_dist(rng, range(nO), [], True)
    used = sorted({x for d in obs.values() for x in ([d["x"]] if d["t"] == "det" else
                                                     [i for i in d["items"]] if d["t"] == "unif" else
                                                     [i for i, p in d["items"] if F(p) > 0])})
    rel = {o: i for i, o in enumerate(used)}
    nO = len(used)
    for d in obs.values():
        if d["t"] == "det":
            d["x"] = rel[d["x"]]
        elif d["t"] == "unif":
            d["items"] = [rel[i] for i in d["items"]]
        else:
            d["items"] = [[rel[i], p] for i, p in d["items"]]
            others = [o for o in range(nO) if o not in [i for i, p in d["items"]]]
            if others and rng.random() < .3:
                d["items"].insert(rng.randint(0, len(d["items"])), [rng.choice(others), "0"])
    def obs_used():
        return {x for d in obs.values() for x in ([d["x"]] if d["t"] == "det" else list(d["items"]) if d["t"] == "unif" else
                                                  [i for i, p in d["items"] if F(p) > 0])}
    if nO >= 2:
        for key in sorted(obs):
            if rng.random() < .1:
                d = gen_boundary_dist(rng, range(nO), True, TINY_NORMALISED)
                if d:
                    old, obs[key] = obs[key], d
                    if len(obs_used()) < nO:          # every observation id must stay possible somewhere
                        obs[key] = old
    if n >= 2 and rng.random() < .15:
        d = gen_boundary_dist(rng, range(n), True, TINY_NORMALISED)
        if d:
            m["init"] = d["items"]
    nN = rng.randint(1, 3)
    if kind == "belief":
        # value-based policies (agent state = Belief): a myopic ValueBasedTabularPOMDPPolicy subclass or msdm AlphaVectorPolicy;
        # initial_agentstate: not given / the model prior passed explicitly / a belief with FULL support (so every state,
        # also one of initial probability 0, is believed possible and the belief update stays defined along any run)
        variant = rng.choice(["myopic", "alpha"])
        ctrl = {"kind": "belief", "variant": variant}
        if variant == "alpha":
            ctrl["alpha"] = [[str(F(rng.randint(-8, 8), 2)) for _ in range(n)] for _ in range(rng.randint(1, 3))]
        r = rng.random()
        if r < .25:
            ag0 = None
        elif r < .4:
            ag0 = "prior"
        else:
            ag0 = [str(p) for p in split(rng, n, 8 if n <= 8 else 16)]
    elif kind == "fsc":
        # msdm FiniteStateController: one action per node, next node by pure table lookup (2-d: node x obs,
        # 3-d: node x action x obs); for the model it is a table controller with point-mass action distributions
        dim = rng.choice([2, 3])
        acts = [rng.randrange(nA) for _ in range(nN)]
        if dim == 2:
            strat = [[rng.randrange(nN) for _ in range(nO)] for _ in range(nN)]
            nxt = [[list(strat[k]) for _ in range(nA)] for k in range(nN)]
        else:
            strat = [[[rng.randrange(nN) for _ in range(nO)] for _ in range(nA)] for _ in range(nN)]
            nxt = strat
        ctrl = {"kind": "fsc", "dim": dim, "init": rng.randrange(nN), "actions": acts, "strategy": strat,
                "acts_tuple": rng.random() < .3,
                "act": [{"t": "det", "x": a} for a in acts], "next": nxt}
        ag0 = None if rng.random() < .6 else rng.randrange(nN)
    elif kind == "table":
        ctrl = {"kind": "table", "init": rng.randrange(nN),
                "act": [gen_dist(rng, range(nA), range(nA), True) for _ in range(nN)],
                "next": [[[rng.randrange(nN) for _ in range(nO)] for _ in range(nA)] for _ in range(nN)]}
        ag0 = None if rng.random() < .6 else rng.randrange(nN)
    else:
        def vec(k):
            j = rng.randint(1, k)
            idx = rng.sample(range(k), j)
            v = ["0"] * k
            for i, p in zip(idx, split(rng, j, 8)):
                v[i] = str(p)
            return v
        ctrl = {"kind": "sfsc", "init": vec(nN), "A": [vec(nA) for _ in range(nN)],
                "O": [[[vec(nN) for _ in range(nO)] for _ in range(nA)] for _ in range(nN)]}
        ag0 = None if rng.random() < .6 else vec(nN)
    s0 = None if rng.random() < (.8 if kind == "belief" else .6) else rng.randrange(n)

    def believed(start, belief):
        """a given start state must be possible under the agent's belief (else the belief update is undefined: the
        value-based policies then fail inside their own action_dist, which is not the roll-out's concern)"""
        if start is None or isinstance(belief, list):
            return start
        prior = [s_ for s_, p_ in m["init"] if F(p_) > 0]
        return start if start in prior else rng.choice(prior)
    if kind == "belief":
        s0 = believed(s0, ag0)
    capn = 40 if cap == "large" else cap
    tiny = .25 if has_tiny([m, obs]) else .04
    c = {"kind": "pomdp_run", "mdp": m, "obs": obs, "nO": nO, "ctrl": ctrl, "s0": s0, "ag0": ag0, "cap": cap,
         "stream": gen_stream(rng, 3 * capn + 3, True, tiny), "gstream": gen_stream(rng, 4, True, tiny)}
    plabels = {}
    if kind == "fsc" or rng.random() < .5:
        plabels["actions"] = gen_labels(rng, nA, rng.choice(LABEL_STYLES))
    if kind != "sfsc" and rng.random() < .5:
        plabels["obs"] = gen_labels(rng, nO, rng.choice(["str", "float", "int_perm"]))
    c["plabels"] = plabels
    if rng.random() < .3:
        cap2 = rng.choice([0, 1, 2, 5])
        if kind == "belief":
            ag2 = rng.choice([None, "prior", [str(p) for p in split(rng, n, 8)]])
        elif kind in ("table", "fsc"):
            ag2 = None if rng.random() < .5 else rng.randrange(nN)
        else:
            ag2 = None if rng.random() < .5 else vec(nN)
        s2 = None if rng.random() < .5 else rng.randrange(n)
        if kind == "belief":
            s2 = believed(s2, ag2)
        c["second"] = {"s0": s2, "ag0": ag2, "cap": cap2,
                       "stream": gen_stream(rng, 3 * cap2 + 3, True), "gstream": gen_stream(rng, 4, True)}
    if probe:
        c["probe_fsc"] = True
    return c


# ----------------------------------------------------------------------------- Gallina literals
def dist_lit(d):
    if d["t"] == "det":
        return "(DDet %s)" % nat(d["x"])
    if d["t"] == "unif":
        return "(DUnif %s)" % natlist(d["items"])
    return "(DDict %s)" % coqlist("(%s, %s)" % (nat(x), q(p)) for x, p in d["items"])


def stream_lit(xs):
    return coqlist(("(%d # %d)" % (x[0], 2 ** x[1])) if isinstance(x, list) else "(%d # %d)" % (x, DEN) for x in xs)


def optnat(x):
    return "None" if x is None else "(Some %s)" % nat(x)


def D(x):
    """exact rational of the double msdm is given for the rational x"""
    return F(float(F(x)))


def mdp_lit(m):
    n, nA = m["n"], m["nA"]
    ini = dist_lit({"t": "dict", "items": m["init"]})
    nxt = coqlist(coqlist(dist_lit({"t": "dict", "items": m["trans"]["%d,%d" % (s, a)]}) if "%d,%d" % (s, a) in m["trans"]
                          else "(DDet 0%nat)" for a in range(nA)) for s in range(n))
    rew = coqlist("(%s, %s, %s, %s)" % (nat(s), nat(a), nat(ns), q(D(r)))
                  for (s, a, ns), r in ((tuple(map(int, k.split(","))), r) for k, r in m["reward"].items()))
    return " ".join([ini, nxt, rew, blist(m["absorbing"]), q(m["gamma"])])


def cap_nat(cap):
    return FUEL if cap in ("large", "default") else cap


def term_for(case, res):
    k = case["kind"]
    if k == "mdp_run":
        # rng omitted: the roll-out draws from the default (global) generator, whose recorded stream is gstream
        st = case["gstream"] if case.get("use_global") else case["stream"]
        return "runq %s %s %s %s %s" % (mdp_lit(presented(case["mdp"], case.get("opts"))),
                                       coqlist(dist_lit(d) for d in policy_dists(case)),
                                       optnat(case["s0"]), nat(cap_nat(case["cap"])), stream_lit(st))
    if k in ("mdp_eval", "mdp_evaldet"):
        return "%s %s %s %s %s %s" % ("evalq" if k == "mdp_eval" else "evaldet", mdp_lit(presented(case["mdp"], case.get("opts"))),
                                      coqlist(dist_lit(d) for d in policy_dists(case)),
                                      nat(cap_nat(case["cap"])), nat(case["n_sims"]), stream_lit(case["stream"]))
    if k == "returns":
        return "retq %s %s" % (qlist(F(r) for r in case["rewards"]), q(case["gamma"]))
    if k == "pomdp_run":
        m, c = case["mdp"], case["ctrl"]
        obs = coqlist(coqlist(dist_lit(case["obs"]["%d,%d" % (a, ns)]) for ns in range(m["n"])) for a in range(m["nA"]))
        flag = "true" if not res["global"]["requests"] else "false"
        if c["kind"] in ("table", "fsc"):
            ctl = "%s %s %s" % (nat(c["init"]), coqlist(dist_lit(d) for d in c["act"]),
                                coqlist(coqlist(natlist(r) for r in rows) for rows in c["next"]))
            ag0 = optnat(case["ag0"])
            fn = "prunt"
        else:
            ctl = "%s %s %s %s" % (qlist(c["init"]), coqlist(qlist(r) for r in c["A"]),
                                   coqlist(coqlist(coqlist(qlist(v) for v in r2) for r2 in r1) for r1 in c["O"]), nat(m["nA"]))
            ag0 = "None" if case["ag0"] is None else "(Some %s)" % qlist(case["ag0"])
            fn = "pruns"
        return "%s %s %s %s %s %s %s %s %s %s" % (fn, flag, mdp_lit(m), obs, ctl, optnat(case["s0"]), ag0,
                                                 nat(cap_nat(case["cap"])), stream_lit(case["gstream"]), stream_lit(case["stream"]))
    raise ValueError(k)


# ----------------------------------------------------------------------------- exact oracle (property clauses)
def dweight(d, x):
    if d["t"] == "det":
        return F(1) if d["x"] == x else F(0)
    if d["t"] == "unif":
        return F(1, len(d["items"])) if x in d["items"] else F(0)
    return sum((F(p) for y, p in d["items"] if y == x), F(0))


def close(a, b, scale=None):
    a, b = F(a), F(b)
    s = max(F(1), abs(a), abs(b)) if scale is None else scale
    return abs(a - b) <= TOL * s


def mdp_clauses(case, steps, final, s0, cap_int):
    """first failing clause of the roll-out part of the property on an implementation trajectory, or None"""
    m = case["mdp"]
    pol = policy_dists(case)
    states = [st[0] for st in steps] + [final]
    if s0 is not None:
        if states[0] != s0:
            return "roll-out does not start at the given initial state"
    elif dweight({"t": "dict", "items": m["init"]}, states[0]) <= 0:
        return "sampled initial state has probability zero"
    for t, (s, a, ns, r) in enumerate(steps):
        if dweight(pol[s], a) <= 0:
            return "action with zero policy probability"
        row = m["trans"].get("%d,%d" % (s, a))
        if row is None or dweight({"t": "dict", "items": row}, ns) <= 0:
            return "successor with zero probability"
        if F(r) != D(m["reward"].get("%d,%d,%d" % (s, a, ns), "0")):          # bit-exact: the double msdm was given
            return "reward is not the model's reward of the step"
        if states[t + 1] != ns:
            return "consecutive steps do not chain"
        if m["absorbing"][s]:
            return "step taken from an absorbing state"
    if len(steps) > cap_int:
        return "more steps than the cap"
    if len(steps) < cap_int and not m["absorbing"][final]:
        return "roll-out stopped before the cap at a non-absorbing state"
    return None


def pomdp_clauses(case, steps, final, cap_int):
    m, c = case["mdp"], case["ctrl"]
    states = [st[0] for st in steps] + [final[0]]
    ags = [st[1] for st in steps] + [final[1]]
    if case["s0"] is not None:
        if states[0] != case["s0"]:
            return "roll-out does not start at the given initial state"
    elif dweight({"t": "dict", "items": m["init"]}, states[0]) <= 0:
        return "sampled initial state has probability zero"

    def agq(ag):
        return ag if isinstance(ag, int) else [vlib.frac(x) for x in ag]
    ag_init = case["ag0"] if case["ag0"] is not None else c["init"]
    if c["kind"] in ("table", "fsc"):
        if ags[0] != ag_init:
            return "initial agent state is not the policy's"
    elif not all(close(x, F(y)) for x, y in zip(agq(ags[0]), ag_init)):
        return "initial agent state is not the policy's"
    for t, (s, ag, a, ns, r, o, nag) in enumerate(steps):
        if c["kind"] in ("table", "fsc"):
            w = dweight(c["act"][ag], a)
            exp_nag = c["next"][ag][a][o]
            ok_nag = (nag == exp_nag) and ags[t + 1] == nag
        else:
            v = agq(ag)
            w = sum(v[n] * F(c["A"][n][a]) for n in range(len(v)))
            exp = [sum(v[n] * F(c["O"][n][a][o][n2]) for n in range(len(v))) for n2 in range(len(v))]
            ok_nag = all(close(x, y) for x, y in zip(agq(nag), exp)) and agq(ags[t + 1]) == agq(nag)
        if w <= 0:
            return "action with zero policy probability"
        if dweight({"t": "dict", "items": m["trans"]["%d,%d" % (s, a)]}, ns) <= 0:
            return "successor with zero probability"
        if dweight(case["obs"]["%d,%d" % (a, ns)], o) <= 0:
            return "observation with zero probability"
        if vlib.frac(r) != D(m["reward"].get("%d,%d,%d" % (s, a, ns), "0")):
            return "reward is not the model's reward of the step"
        if states[t + 1] != ns:
            return "consecutive steps do not chain"
        if not ok_nag:
            return "agent state does not follow the policy's update"
        if m["absorbing"][s]:
            return "step taken from an absorbing state"
    if len(steps) > cap_int:
        return "more steps than the cap"
    if len(steps) < cap_int and not m["absorbing"][final[0]]:
        return "roll-out stopped before the cap at a non-absorbing state"
    return None


def returns_rec(rs, g):
    out = [F(0)] * len(rs)
    acc = F(0)
    for i in range(len(rs) - 1, -1, -1):
        acc = rs[i] + g * acc
        out[i] = acc
    return out


def eval_clauses(case, res):
    """evaluate_on must report the averages of ITS OWN roll-outs (exact oracle on the recorded roll-outs)"""
    g = F(float(F(case["mdp"]["gamma"])))
    n = case["n_sims"]
    class Acc(object):          # sum and count of a multiset of returns (identical roll-outs are recorded once, with "mult")
        def __init__(self):
            self.tot, self.cnt = F(0), 0

        def add(self, r, k):
            self.tot += r * k
            self.cnt += k

        def __len__(self):
            return self.cnt
    sv, av, ivs, nro = {}, {}, Acc(), 0
    for ro in res["rollouts"]:
        steps = ro["steps"]
        k = int(ro.get("mult", 1))
        nro += k
        states = [st[0] for st in steps] + [ro["final"]]
        acts = [st[1] for st in steps] + [None]
        rets = returns_rec([vlib.frac(st[3]) for st in steps] + [F(0)], g)
        ivs.add(rets[0], k)
        for r, s, a in zip(rets, states, acts):
            sv.setdefault(s, Acc()).add(r, k)
            av.setdefault((s, a), Acc()).add(r, k)
    if nro != n:
        return "number of roll-outs differs from n_simulations"
    isv = {s: v for s, v in res["state_value"]}
    iocc = {s: v for s, v in res["occupancy"]}
    iav = {(s, a): v for s, a, v in res["action_value"] if v != "-inf"}
    if set(isv) != set(sv) or set(iocc) != set(sv):
        return "state tables do not cover exactly the visited states"
    if set(iav) != set(av):
        return "action-value table does not cover exactly the visited (state, action) pairs"
    for s, xs in sv.items():
        if isinstance(isv[s], str) or not close(vlib.frac(isv[s]), xs.tot / len(xs)):
            return "state value is not the mean of the returns from that state"
        if isinstance(iocc[s], str) or not close(vlib.frac(iocc[s]), F(len(xs), n)):
            return "occupancy is not visits / n_simulations"
    for k, xs in av.items():
        if isinstance(iav[k], str) or not close(vlib.frac(iav[k]), xs.tot / len(xs)):
            return "action value is not the mean of the returns after that (state, action)"
    if isinstance(res["initial_value"], str) or not close(vlib.frac(res["initial_value"]), ivs.tot / len(ivs)):
        return "initial value is not the mean of the first returns"
    return None


def exact_vn(case, cap_int, s0):
    """cap-truncated exact evaluation of a deterministic policy on a deterministic MDP (Fractions)"""
    m = case["mdp"]
    pol = policy_dists(case)
    g = F(m["gamma"])
    total, disc, s = F(0), F(1), s0
    for _ in range(cap_int):
        if m["absorbing"][s]:
            break
        a = next(x for x in range(m["nA"]) if dweight(pol[s], x) > 0)
        ns = next(y for y, p in m["trans"]["%d,%d" % (s, a)] if F(p) > 0)
        total += disc * D(m["reward"].get("%d,%d,%d" % (s, a, ns), "0"))
        disc *= g
        s = ns
    return total


TINY = F(1, 2 ** 27)


def rel_weight(d, x):
    if d["t"] != "dict":
        return F(1)
    tot = sum(F(p) for _, p in d["items"])
    return dweight(d, x) / tot


def tiny_events_mdp(case, steps, first_state, sampled):
    """how many drawn events (start, action, successor) had probability <= 2^-27"""
    m, pol = case["mdp"], policy_dists(case)
    k = 0
    if sampled and rel_weight({"t": "dict", "items": m["init"]}, first_state) <= TINY:
        k += 1
    for st in steps:
        s_, a_, ns_ = st[0], st[1], st[2]
        k += rel_weight(pol[s_], a_) <= TINY
        k += rel_weight({"t": "dict", "items": m["trans"]["%d,%d" % (s_, a_)]}, ns_) <= TINY
    return k


def unlisted_feats(feats, m, steps, a_index):
    """steps whose (recorded) action is not in actions(s); steps taken from a non-absorbing state with an empty action list"""
    if "listed" not in m:
        return
    feats["cases_with_unlisted_actions"] = feats.get("cases_with_unlisted_actions", 0) + 1
    for st in steps:
        if st[a_index] not in m["listed"][st[0]]:
            feats["steps_with_action_not_in_actions_s"] = feats.get("steps_with_action_not_in_actions_s", 0) + 1
        if not m["listed"][st[0]]:
            feats["steps_from_dead_end_state"] = feats.get("steps_from_dead_end_state", 0) + 1


def size_feats(feats, m, nO=None):
    for name, ok in (("one_state", m["n"] == 1), ("one_action", m["nA"] == 1), ("n_states_eq_n_actions", m["n"] == m["nA"]),
                     ("one_observation", nO == 1)):
        if ok:
            feats["size_" + name] = feats.get("size_" + name, 0) + 1


# ----------------------------------------------------------------------------- run
def deq(v):
    """('QO', n, d) -> Fraction, recursively"""
    if isinstance(v, tuple):
        if len(v) == 3 and v[0] == "QO":
            return F(v[1], v[2])
        return tuple(deq(x) for x in v)
    if isinstance(v, list):
        return [deq(x) for x in v]
    return v


def cap_int_of(case):
    return 2 ** 30 if case["cap"] in ("large", "default") else case["cap"]


def accessors_ok(ro):
    steps = ro["steps"]
    return (ro["acc_state"] == [st[0] for st in steps] + [ro["final"]]
            and ro["acc_action"] == [st[1] for st in steps] + [None]
            and ro["acc_next_state"] == [st[2] for st in steps] + [None]
            and [vlib.frac(x) for x in ro["acc_reward"]] == [vlib.frac(st[3]) for st in steps] + [F(0)]
            and ro["len"] == len(steps) + 1 and ro["final_keys"] == ["state"]
            and [st[4] for st in steps] == list(range(len(steps))))


def agnorm(ag):
    return ag if isinstance(ag, int) else [vlib.frac(x) for x in ag]


def run(ctx):
    tier, rng = ctx.tier, ctx.rng
    if ctx.replay_case:
        cases = [ctx.replay_case["detail"]["case"]]
    else:
        k = 2 if tier == "quick" else 24
        cases = ([gen_mdp_run(rng, tier) for _ in range(200 * k)]
                 + [gen_mdp_eval(rng, tier, deterministic=(i % 3 == 0)) for i in range(75 * k)]
                 + [gen_pomdp_run(rng, tier, probe=(i == 0)) for i in range(120 * k)]
                 + [gen_returns(rng) for _ in range(30 * k)]
                 + [gen_long(rng, tier, evaluate=(i % 3 == 2)) for i in range(3 if tier == "quick" else 12)]
                 + [gen_high_volume(rng, 1 + i % 2) for i in range(2 if tier == "quick" else 4)]
                 + [gen_returns(rng, "long_half") for _ in range(2 if tier == "quick" else 8)]
                 + [gen_returns(rng, "long_small") for _ in range(6 if tier == "quick" else 40)])
    impl = ctx.impl("c14_impl.py", {"cases": cases}, shards=8 if tier == "quick" else 16)["results"]

    # second runs on re-used objects become cases of their own (replay goes through the parent case)
    cases, impl = list(cases), list(impl)
    for case, res in list(zip(cases, impl)):
        if isinstance(res, dict) and "second" in res and "second" in case:
            sec = case["second"]
            c2 = {k: v for k, v in case.items() if k != "second"}
            c2.update({k: v for k, v in sec.items() if k not in ("mdp", "policy") or (k == "policy" and v is not None)})
            if sec.get("mdp") is not None:
                c2["mdp"] = sec["mdp"]
            c2["_parent"] = case
            c2.pop("probe_fsc", None)
            cases.append(c2)
            impl.append(res["second"])

    # value-based (belief) policies: the model runs the roll-out loop with agent state = position in the run and the
    # action distributions the policy itself presented (UniformDistribution over its arg-max actions); what the policy's
    # own functions say about its beliefs is checked on the policy object by the runner (belief_checks)
    for i, (case, res) in enumerate(zip(cases, impl)):
        if case["kind"] == "pomdp_run" and case["ctrl"]["kind"] == "belief" and isinstance(res, dict) and "supports" in res:
            nA, nO_, T = case["mdp"]["nA"], case["nO"], len(res["supports"])
            c2 = dict(case)
            c2["ctrl"] = {"kind": "table", "init": 0, "belief": case["ctrl"],
                          "act": [{"t": "unif", "items": sup} for sup in res["supports"]] + [{"t": "det", "x": 0}],
                          "next": [[[t + 1] * nO_ for _ in range(nA)] for t in range(T + 1)]}
            c2["belief_ag0"] = case["ag0"]
            c2["ag0"] = None
            c2["_parent"] = case.get("_parent", case)
            cases[i] = c2

    def public(case):
        return case.get("_parent", case)

    terms, meta = [], []
    long_returns = []
    long_runs = []
    skipped = {}
    int_gamma_reported = False
    fsc_defects = {}
    n_int_gamma = 0
    for i, (case, res) in enumerate(zip(cases, impl)):
        if "error" in res:
            int_g = case.get("gamma_int") or (case.get("opts") or {}).get("gamma_int")
            if int_g and "Integers to negative integer powers" in res["error"]:
                n_int_gamma += 1
                if not int_gamma_reported:
                    int_gamma_reported = True
                    ctx.violation("C14:calc_returns:int-discount-rate-raises", {
                        "case": public(case), "error": res["error"],
                        "what": "Policy.calc_returns (and so Policy.evaluate_on) raises ValueError when the discount rate is the Python int 0 "
                                "or 1 and the reward list has more than one entry: np.power(int, array with negative ints)",
                        "where": "msdm/core/mdp/policy.py calc_returns: np.power(discount_rate, rel_times)",
                        "repro": "from msdm.core.mdp.policy import Policy\n"
                                 "print(Policy.calc_returns([1., 2., 4.], 1.0))   # [7.0, 6.0, 4.0]\n"
                                 "print(Policy.calc_returns([1., 2., 4.], 1))     # ValueError: Integers to negative integer powers are not allowed.",
                    }, found=True)
                continue
            ctx.violation("C14:%s:raises:%s" % (case["kind"], res["error"].split(":")[0]),
                          {"case": public(case), "error": res["error"], "trace": res.get("trace")}, found=True)
            continue
        if "skipped" in res:
            skipped[res["skipped"]] = skipped.get(res["skipped"], 0) + 1
            continue
        if "fsc_construct_error" in res or "fsc_action_dist_wrong" in res:
            key = "fsc_construct_error" if "fsc_construct_error" in res else "fsc_action_dist_wrong"
            fsc_defects[key] = fsc_defects.get(key, 0) + 1
            if fsc_defects[key] == 1:
                if key == "fsc_construct_error":
                    ctx.violation("C14:FiniteStateController:constructor-rejects-valid-strategy", {
                        "case": public(case), "impl": res,
                        "what": "FiniteStateController(pomdp, action_strategy, observation_strategy) raises AssertionError for a "
                                "well-shaped %d-d observation strategy (nodes x %sobservations): no deterministic controller "
                                "policy can be built, so no roll-out of one exists" % (case["ctrl"]["dim"], "actions x " if case["ctrl"]["dim"] == 3 else ""),
                        "where": "msdm/core/pomdp/finitestatecontroller.py FiniteStateController.__init__ shape assertions",
                        "repro": "see /verif/corpus/C14/deterministic_fsc_demo.py"}, found=True)
                else:
                    ctx.violation("C14:FiniteStateController:action_dist-not-the-strategy-action", {
                        "case": public(case), "impl": res,
                        "what": "FiniteStateController.action_dist(node) is not the point mass on action_strategy[node] (it yields the "
                                "action's index in pomdp.action_list): a roll-out of the controller uses an action the policy's own "
                                "strategy does not prescribe / feeds a non-action to the POMDP",
                        "where": "msdm/core/pomdp/finitestatecontroller.py FiniteStateController.action_dist",
                        "repro": "see /verif/corpus/C14/deterministic_fsc_demo.py"}, found=True)
            continue
        if case["kind"] == "returns" and case.get("long"):
            long_returns.append(i)
            continue
        if case.get("python_only"):
            long_runs.append(i)
            continue
        terms.append(term_for(case, res))
        meta.append((i, case["kind"]))
        if case["kind"] == "mdp_eval" and case.get("deterministic"):
            terms.append(term_for(dict(case, kind="mdp_evaldet"), res))
            meta.append((i, "mdp_evaldet"))
    vals = ctx.coq(PRE, terms, shard=25 if tier == "quick" else 60)

    counts = {"mdp_run": 0, "mdp_eval": 0, "mdp_evaldet": 0, "pomdp_run": 0, "returns": 0}
    feats = {"nontrivial": 0, "cap_reached": 0, "stopped_at_absorbing": 0, "start_absorbing": 0, "sampled_start": 0,
             "ties_in_stream": 0, "functional": 0, "tabular": 0, "table_ctrl": 0, "sfsc": 0,
             "pomdp_init_from_global": 0, "pomdp_init_from_rng": 0, "steps_total": 0, "draws_total": 0,
             "mirror_mismatch": 0, "too_long_for_model": 0}
    caps = {}
    distinct = set()
    pomdp_reported = False
    fsc_probe = None

    def mismatch(case, res, what, model=None, clause=None):
        feats["mirror_mismatch"] += 1
        detail = {"case": public(case), "impl": res, "what": what, "model": repr(model)[:3000]}
        if "_parent" in case:
            detail["derived"] = "second run on the re-used policy object"
        if clause:
            detail["failing_clause"] = clause
            ctx.violation("C14:%s:%s" % (case["kind"], clause), detail, found=True)
        else:
            detail["correspondence"] = "model/Rollout.v (theorems props/C14.v) and msdm disagree on the same recorded stream"
            ctx.violation("C14:%s:mirror-differs:%s" % (case["kind"], what), detail, found=False)

    def reuse_checks(case, res):
        """caller's objects untouched; first result unchanged after a second call; same problem built twice = same outcome"""
        if "inputs_unchanged" in res:
            feats["inputs_snapshot_compared"] = feats.get("inputs_snapshot_compared", 0) + 1
            if not res["inputs_unchanged"]:
                mismatch(case, res, "inputs", None, "roll-out modified the caller's MDP/policy/reward objects")
        if res.get("first_result_stable") is not None:
            feats["first_result_requeried_after_second_call"] = feats.get("first_result_requeried_after_second_call", 0) + 1
            if not res["first_result_stable"]:
                mismatch(case, res, "stale", None, "result of the first call changed after a second call on the same policy object")
        if "twice_same" in res:
            feats["same_problem_built_twice"] = feats.get("same_problem_built_twice", 0) + 1
            if not res["twice_same"]:
                mismatch(case, res, "twice", None, "the same problem built twice in one process gave different roll-outs")
        o = case.get("opts") or {}
        for f in ("int_types", "float32", "int_arrays"):
            if o.get(f):
                feats["numtype_" + f] = feats.get("numtype_" + f, 0) + 1

    for (i, kind), v in zip(meta, vals):
        case, res = cases[i], impl[i]
        if isinstance(v, vlib.CoqError):
            ctx.violation("C14:coq-evaluation-failed", {"case": public(case), "error": str(v)[:1500]}, found=False)
            continue
        v = deq(v)
        counts[kind] += 1
        caps[str(case.get("cap"))] = caps.get(str(case.get("cap")), 0) + 1
        if kind == "mdp_run":
            steps = [[s, a, ns, vlib.frac(r)] for s, a, ns, r, _ in res["steps"]]
            clause = mdp_clauses(case, steps, res["final"], case["s0"], cap_int_of(case))
            if clause is None and not accessors_ok(res):
                clause = "SimulationResult accessors inconsistent with the steps"
            ug = bool(case.get("use_global"))
            src = res["global"] if ug else res["rng"]
            other = res["rng"] if ug else res["global"]
            if clause is None and (other["draws"] or other["requests"]):
                clause = "roll-out drew from the global generator instead of rng" if not ug else \
                    "roll-out without rng argument did not draw from the default generator"
            if clause is None and not all(res["container"].values()):
                clause = "SimulationResult/Step entry point misbehaves: " + ",".join(k for k, ok in sorted(res["container"].items()) if not ok)
            reuse_checks(case, res)
            size_feats(feats, case["mdp"])
            unlisted_feats(feats, case["mdp"], steps, 1)
            te = tiny_events_mdp(case, steps, ([st[0] for st in steps] + [res["final"]])[0], case["s0"] is None)
            feats["tiny_prob_events_drawn"] = feats.get("tiny_prob_events_drawn", 0) + te
            feats["nondyadic_reward_steps_bit_exact"] = feats.get("nondyadic_reward_steps_bit_exact", 0) + \
                sum(1 for st in steps if st[3].denominator > 2 ** 20)
            feats["reward_magnitude_ge_1e9_steps"] = feats.get("reward_magnitude_ge_1e9_steps", 0) + sum(1 for st in steps if abs(st[3]) >= 10 ** 9)
            if len(steps) >= FUEL:
                feats["too_long_for_model"] += 1
                if clause:
                    mismatch(case, res, "trajectory", None, clause)
                continue
            msteps, mfin, mdraws = v
            if clause or [list(x) for x in msteps] != steps or mfin != res["final"] or mdraws != src["draws"] \
                    or src["draws_outside_requests"]:
                mismatch(case, res, "trajectory", v, clause)
            o = case.get("opts") or {}
            for f in (["reuse_second_run"] if "_parent" in case else []) + (["reuse_inplace_mutated_distributions"] if case.get("mdp_inplace") else []) + (["reuse_second_mdp"] if "_parent" in case and case["_parent"]["second"].get("mdp") else []) \
                    + (["labels"] if o.get("labels") else []) + (["repr_matrices"] if o.get("repr") == "matrices" else []) \
                    + (["touched_before"] if o.get("touch") else []) + (["rng_default_global"] if ug else []) \
                    + (["s0_omitted"] if case.get("omit_s0") and case["s0"] is None else []) + list(case.get("boundary") or []) \
                    + (["boundary_policy_weights"] if any(d in [x for x in policy_dists(case)] and d["t"] == "dict" and [w for _, w in d["items"]] in BOUNDARY_WEIGHTS for d in policy_dists(case)) else []):
                feats[f] = feats.get(f, 0) + 1
            if o.get("labels"):
                for side in ("states", "actions"):
                    l0 = o["labels"][side]
                    if any(x in ("", 0, 0.0, False) or x == {"tuple": []} for x in l0):
                        feats["falsy_label_" + side] = feats.get("falsy_label_" + side, 0) + 1
            feats[case["policy"]["kind"]] += 1
            feats["steps_total"] += len(steps)
            feats["draws_total"] += res["rng"]["draws"]
            feats["nontrivial"] += bool(steps)
            feats["cap_reached"] += (case["cap"] not in ("large", "default") and len(steps) == case["cap"] and len(steps) > 0)
            feats["stopped_at_absorbing"] += bool(steps) and case["mdp"]["absorbing"][res["final"]]
            feats["start_absorbing"] += (not steps and case["cap"] != 0)
            feats["sampled_start"] += case["s0"] is None
            feats["ties_in_stream"] += any(isinstance(x, int) and x % (DEN // 8) == 0 for x in (case["gstream"] if ug else case["stream"])[:src["draws"]])
            if steps:
                distinct.add(vlib.structural_hash([case["mdp"], case["policy"], case["s0"], case["cap"], steps, case.get("opts")]))
        elif kind == "mdp_eval":
            msv, mav, miv, mocc, mtrajs, mdraws = v
            clause = eval_clauses(case, res)
            for ro in res["rollouts"]:
                st = [[s, a, ns, vlib.frac(r)] for s, a, ns, r, _ in ro["steps"]]
                clause = clause or mdp_clauses(case, st, ro["final"], None, cap_int_of(case))
            reuse_checks(case, res)
            for ro in res["rollouts"]:
                unlisted_feats(feats, case["mdp"], ro["steps"], 1)
            for ro in res["rollouts"]:
                st_ = [[s_, a_, ns_, vlib.frac(r_)] for s_, a_, ns_, r_, _ in ro["steps"]]
                feats["tiny_prob_events_drawn"] = feats.get("tiny_prob_events_drawn", 0) + tiny_events_mdp(case, st_, ro["acc_state"][0], True)
            if any(len(ro["steps"]) >= FUEL for ro in res["rollouts"]):
                feats["too_long_for_model"] += 1
                if clause:
                    mismatch(case, res, "evaluation roll-outs", None, clause)
                continue
            itrajs = [([[s, a, ns, vlib.frac(r)] for s, a, ns, r, _ in ro["steps"]], ro["final"]) for ro in res["rollouts"]]
            mt = [([list(x) for x in t[0]], t[1]) for t in mtrajs]
            if clause:
                mismatch(case, res, "evaluation roll-outs", (mtrajs, mdraws), clause)
                continue
            if mt != itrajs or mdraws != res["rng"]["draws"]:
                # evaluate_on drew its roll-outs in another way than the stream mirror assumes (e.g. one privately seeded
                # generator per simulation).  The property fixes what is reported about ITS OWN roll-outs, not which random
                # stream they consume: the recorded roll-outs passed every clause above (valid trajectories from sampled starts,
                # tables = their averages); the mirror difference is drift, not a violation.
                feats["eval_stream_mirror_drift"] = feats.get("eval_stream_mirror_drift", 0) + 1
                if any(r_[0] == "getrandbits" for r_ in res["rng"]["requests"]):
                    feats["eval_child_generators"] = feats.get("eval_child_generators", 0) + 1
                feats[case["policy"]["kind"]] += 1
                if any(ro["steps"] for ro in res["rollouts"]):
                    feats["nontrivial"] += 1
                    distinct.add(vlib.structural_hash([case["mdp"], case["policy"], case["cap"], case["n_sims"], itrajs]))
                continue
            isv = {s: x for s, x in res["state_value"]}
            iocc = {s: x for s, x in res["occupancy"]}
            iav = {(s, a): x for s, a, x in res["action_value"] if x != "-inf"}
            dsv = {s: x for s, x in msv}
            docc = {s: x for s, x in mocc}
            dav = {(s, (None if a is None else a[1])): x for s, a, x in mav}
            ok = (set(isv) == set(dsv) and set(iocc) == set(docc) and set(iav) == set(dav)
                  and all(not isinstance(isv[s], str) and close(vlib.frac(isv[s]), dsv[s]) for s in dsv)
                  and all(not isinstance(iocc[s], str) and close(vlib.frac(iocc[s]), docc[s]) for s in docc)
                  and all(not isinstance(iav[k], str) and close(vlib.frac(iav[k]), dav[k]) for k in dav)
                  and not isinstance(res["initial_value"], str) and close(vlib.frac(res["initial_value"]), miv)
                  and res["n_simulations"] == case["n_sims"]
                  and [s for s, _ in res["state_value"]] == [s for s, _ in msv])
            if not ok:
                mismatch(case, res, "evaluation tables", v[:4])
            o = case.get("opts") or {}
            for f in (["eval_labels"] if o.get("labels") else []) + (["eval_repr_matrices"] if o.get("repr") == "matrices" else []) \
                    + (["eval_touched_before"] if o.get("touch") else []) + (["eval_after_warmup_reuse"] if o.get("warmup") else []) \
                    + (["eval_gamma_int_ok"] if o.get("gamma_int") else []) + ["eval_" + b for b in (case.get("boundary") or [])] \
                    + (["eval_gamma_near_1"] if case["mdp"]["gamma"] == "1048575/1048576" else []):
                feats[f] = feats.get(f, 0) + 1
            if not all(all(ro["container"].values()) and accessors_ok(ro) for ro in res["rollouts"]):
                mismatch(case, res, "accessors", None, "SimulationResult accessors inconsistent with the steps")
            feats[case["policy"]["kind"]] += 1
            feats["steps_total"] += sum(len(ro["steps"]) for ro in res["rollouts"])
            feats["draws_total"] += res["rng"]["draws"]
            if any(ro["steps"] for ro in res["rollouts"]):
                feats["nontrivial"] += 1
                distinct.add(vlib.structural_hash([case["mdp"], case["policy"], case["cap"], case["n_sims"], itrajs]))
        elif kind == "mdp_evaldet":
            mmean, mvn, mret0 = v
            if any(len(ro["steps"]) >= FUEL for ro in res["rollouts"]):
                continue
            clause = None
            cap = cap_int_of(case)
            exs = []
            for ro, vn, r0 in zip(res["rollouts"], mvn, mret0):
                s0 = ro["acc_state"][0]
                ex = exact_vn(case, min(cap, 10 * FUEL), s0)
                exs.append(ex)
                g = F(float(F(case["mdp"]["gamma"])))
                ret0 = returns_rec([vlib.frac(st[3]) for st in ro["steps"]] + [F(0)], g)[0]
                if not close(ret0, ex):
                    clause = "deterministic roll-out return differs from the cap-truncated exact evaluation"
                if vn != ex or not close(r0, vn):
                    mismatch(case, res, "model Vn vs oracle", v)
            # judged on the recorded roll-outs' own start states (independent of how the roll-outs were drawn)
            if clause is None and exs and not close(vlib.frac(res["initial_value"]), sum(exs) / len(exs)):
                clause = "deterministic evaluation: initial value differs from the cap-truncated exact evaluation"
            if clause is None and not close(vlib.frac(res["initial_value"]), mmean):
                clause = "deterministic evaluation: initial value differs from the cap-truncated exact evaluation"
            if clause:
                mismatch(case, res, "deterministic exact", v, clause)
        elif kind == "pomdp_run":
            steps = [[s, agnorm(ag), a, ns, vlib.frac(r), o, agnorm(nag)] for s, ag, a, ns, r, o, nag in res["steps"]]
            final = [res["final"][0], agnorm(res["final"][1])]
            clause = pomdp_clauses(case, res["steps"], res["final"], cap_int_of(case))
            if clause is None and not res["final_rest_none"]:
                clause = "final step carries more than state and agent state"
            if "belief_checks" in res:
                bc = res["belief_checks"]
                if clause is None and not bc["first_ag_ok"]:
                    clause = "initial agent state is not the policy's"
                if clause is None and not all(bc["act_pos"]):
                    clause = "action with zero policy probability"
                if clause is None and not (all(bc["nag_ok"]) and all(bc["chain_ok"])):
                    clause = "agent state does not follow the policy's update"
                feats["belief_policy"] = feats.get("belief_policy", 0) + 1
                b0 = case.get("belief_ag0")
                if case["s0"] is None and isinstance(b0, list):
                    feats["belief_given_start_sampled"] = feats.get("belief_given_start_sampled", 0) + 1
                    prior = {s_ for s_, p_ in case["mdp"]["init"] if F(p_) > 0}
                    if any(F(x) > 0 and j not in prior for j, x in enumerate(b0)):
                        feats["belief_support_beyond_prior_start_sampled"] = feats.get("belief_support_beyond_prior_start_sampled", 0) + 1
                if b0 == "prior":
                    feats["belief_prior_passed_explicitly"] = feats.get("belief_prior_passed_explicitly", 0) + 1
            size_feats(feats, case["mdp"], case["nO"])
            unlisted_feats(feats, case["mdp"], res["steps"], 2)
            for st_ in res["steps"]:
                if rel_weight(case["obs"]["%d,%d" % (st_[2], st_[3])], st_[5]) <= TINY:
                    feats["tiny_prob_observations_drawn"] = feats.get("tiny_prob_observations_drawn", 0) + 1
            if case["s0"] is None and rel_weight({"t": "dict", "items": case["mdp"]["init"]}, res["final"][0] if not res["steps"] else res["steps"][0][0]) <= TINY:
                feats["tiny_prob_events_drawn"] = feats.get("tiny_prob_events_drawn", 0) + 1
            if "evaluate_on" in res:
                feats["pomdp_evaluate_on_not_implemented"] = feats.get("pomdp_evaluate_on_not_implemented", 0) + (res["evaluate_on"] == "NotImplementedError")
            if "_parent" in case:
                feats["pomdp_reuse_second_run"] = feats.get("pomdp_reuse_second_run", 0) + 1
            if case["s0"] == 0 or case["ag0"] == 0:
                feats["pomdp_falsy_start_given"] = feats.get("pomdp_falsy_start_given", 0) + 1
            if res["global"]["requests"]:
                feats["pomdp_init_from_global"] += 1
                if not pomdp_reported:
                    pomdp_reported = True
                    ctx.violation("C14:pomdp-run_on:initial-state-not-sampled-from-rng", {
                        "case": case,
                        "what": "POMDPPolicy.run_on(pomdp, rng=g) with initial_state=None: the scripted generator g was not asked for "
                                "the initial state; the request went to the module-level (global) `random` generator",
                        "where": "msdm/core/pomdp/policy.py:34  initial_state = pomdp.initial_state_dist().sample()   (no rng=rng)",
                        "global_generator_requests": res["global"]["requests"], "rng_requests": res["rng"]["requests"][:3],
                        "repro": "from msdm.domains.tiger import Tiger; import random\n"
                                 "from msdm.core.pomdp.policy import POMDPPolicy\n"
                                 "from msdm.core.distributions import DictDistribution\n"
                                 "class P(POMDPPolicy):\n"
                                 "    def initial_agentstate(self): return 0\n"
                                 "    def action_dist(self, ag): return DictDistribution.deterministic('listen')\n"
                                 "    def next_agentstate(self, ag, a, o): return 0\n"
                                 "t = Tiger(coherence=.85, discount_rate=.95)\n"
                                 "starts = set()\n"
                                 "for g in range(8):\n"
                                 "    random.seed(g); starts.add(P().run_on(t, max_steps=1, rng=random.Random(0))[0].state)\n"
                                 "print(starts)   # both initial states although rng is the same Random(0) every time",
                    }, found=True)
            elif case["s0"] is None and any(r[0] in ("choices", "choice") for r in res["rng"]["requests"][:1]) \
                    and len([1 for s, p in case["mdp"]["init"]]) > 1:
                feats["pomdp_init_from_rng"] += 1
            if len(steps) >= FUEL:
                feats["too_long_for_model"] += 1
                continue
            msteps, mfin, mdraws, mgdraws = v
            ms = [[x[0], agnorm(x[1]), x[2], x[3], x[4], x[5], agnorm(x[6])] for x in msteps]
            mf = [mfin[0], agnorm(mfin[1])]
            if clause or ms != steps or mf != final or mdraws != res["rng"]["draws"] or mgdraws != res["global"]["draws"] \
                    or res["rng"]["draws_outside_requests"]:
                mismatch(case, res, "trajectory", v, clause)
            ck = "belief_" + case["ctrl"]["belief"]["variant"] if "belief" in case["ctrl"] else case["ctrl"]["kind"]
            feats["table_ctrl" if ck == "table" else ck] = feats.get("table_ctrl" if ck == "table" else ck, 0) + 1
            if ck == "fsc":
                f = "fsc_%dd" % case["ctrl"]["dim"]
                feats[f] = feats.get(f, 0) + 1
            pl = case.get("plabels") or {}
            for side in ("actions", "obs"):
                if pl.get(side):
                    feats["pomdp_labels_" + side] = feats.get("pomdp_labels_" + side, 0) + 1
            feats["steps_total"] += len(steps)
            feats["draws_total"] += res["rng"]["draws"]
            feats["nontrivial"] += bool(steps)
            if steps:
                distinct.add(vlib.structural_hash([case["mdp"], case["obs"], case["ctrl"], case["s0"], case["ag0"], case["cap"],
                                                   res["steps"]]))
            if "probe_fsc" in res:
                fsc_probe = res["probe_fsc"]
        elif kind == "returns":
            g = F(float(F(case["gamma"])))
            rec = returns_rec([F(r) for r in case["rewards"]], g)
            if case.get("gamma_int"):
                feats["returns_gamma_int_ok"] = feats.get("returns_gamma_int_ok", 0) + 1
            if not res.get("inputs_unchanged", True):
                mismatch(case, res, "inputs", None, "calc_returns modified the caller's reward list")
            if "returns_float32" in res:
                feats["returns_float32"] = feats.get("returns_float32", 0) + 1
            if any(F(r).denominator not in (1, 2, 4) for r in case["rewards"]):
                feats["returns_nondyadic_rewards"] = feats.get("returns_nondyadic_rewards", 0) + 1
            if any(abs(F(r)) >= 10 ** 9 for r in case["rewards"]):
                feats["returns_magnitude_1e9"] = feats.get("returns_magnitude_1e9", 0) + 1
            for name in ("returns", "returns_intlist", "returns_tuple", "returns_ndarray") + (("returns_float32",) if "returns_float32" in res else ()):
                got = res[name]
                if len(got) != len(rec) or any(isinstance(x, str) or not close(vlib.frac(x), y) for x, y in zip(got, rec)):
                    mismatch(case, res, "returns", v, "discounted returns differ from the backward recursion")
                    break
            else:
                if len(v) != len(rec) or any(not close(vlib.frac(x), y) for x, y in zip(res["returns"], v)):
                    mismatch(case, res, "returns", v)
            if len(rec) > 1:
                distinct.add(vlib.structural_hash(case))

    # episodes of more than 1000 steps: every clause in exact rationals, in Python only (the model's fuel is 150 steps)
    for i in long_runs:
        case, res = cases[i], impl[i]
        feats["long_episodes_python_only"] = feats.get("long_episodes_python_only", 0) + 1
        if case["kind"] == "mdp_run":
            steps = [[s_, a_, ns_, vlib.frac(r_)] for s_, a_, ns_, r_, _ in res["steps"]]
            clause = mdp_clauses(case, steps, res["final"], case["s0"], case["cap"])
            if clause is None and not (accessors_ok(res) and all(res["container"].values())):
                clause = "SimulationResult accessors inconsistent with the steps"
            if clause is None and len(steps) != case["cap"]:
                clause = "roll-out stopped before the cap at a non-absorbing state"
            if clause is None and res["rng"]["draws_outside_requests"]:
                clause = "roll-out drew from the generator outside choices/choice requests"
            feats["long_episode_steps"] = feats.get("long_episode_steps", 0) + len(steps)
            if clause:
                small = dict(res, steps="(" + str(len(res["steps"])) + " steps)", acc_state="...", acc_action="...",
                             acc_next_state="...", acc_reward="...")
                mismatch(case, small, "long episode", None, clause)
        else:
            clause = eval_clauses(case, res)
            for ro in res["rollouts"]:
                st_ = [[s_, a_, ns_, vlib.frac(r_)] for s_, a_, ns_, r_, _ in ro["steps"]]
                clause = clause or mdp_clauses(case, st_, ro["final"], None, case["cap"])
                feats["long_episode_steps"] = feats.get("long_episode_steps", 0) + len(st_)
            if case.get("high_volume"):
                vis = {}
                for ro in res["rollouts"]:
                    for s_ in ro["acc_state"]:
                        vis[s_] = vis.get(s_, 0) + int(ro.get("mult", 1))
                feats["high_volume_evaluations"] = feats.get("high_volume_evaluations", 0) + 1
                feats["high_volume_max_visits_of_a_state"] = max(feats.get("high_volume_max_visits_of_a_state", 0), max(vis.values()))
            if clause:
                mismatch(case, {"initial_value": res["initial_value"], "n_rollouts": len(res["rollouts"])}, "long evaluation", None, clause)
        distinct.add(vlib.structural_hash([case["mdp"], case["policy"], case["cap"], case["kind"]]))
    counts["long_episodes"] = len(long_runs)

    # long reward lists: exact backward recursion in Python only (exact rationals of this size are too slow in vm_compute)
    n_long = 0
    for i in long_returns:
        case, res = cases[i], impl[i]
        n_long += 1
        g = F(float(F(case["gamma"])))
        rec = returns_rec([F(r) for r in case["rewards"]], g)
        for name in ("returns", "returns_intlist"):
            got = res[name]
            bad = next((j for j, (x, y) in enumerate(zip(got, rec)) if isinstance(x, str) or not close(vlib.frac(x), y)), None)
            if len(got) != len(rec) or bad is not None:
                small = dict(res, returns="(%d values)" % len(res["returns"]), returns_intlist="(%d values)" % len(res["returns_intlist"]))
                small["first_bad_index"] = bad
                small["got"] = None if bad is None else got[bad]
                small["expected"] = None if bad is None else str(rec[bad])
                mismatch(case, small, "returns", None, "discounted returns differ from the backward recursion")
                break
        distinct.add(vlib.structural_hash(case))
    feats["returns_long_python_only"] = n_long
    feats["returns_gamma0"] = sum(1 for c in cases if c["kind"] == "returns" and F(c["gamma"]) == 0)
    feats["eval_gamma0"] = sum(1 for c in cases if c["kind"] == "mdp_eval" and F(c["mdp"]["gamma"]) == 0)
    feats["eval_gamma0_deterministic"] = sum(1 for c in cases if c["kind"] == "mdp_eval" and F(c["mdp"]["gamma"]) == 0
                                             and c.get("deterministic"))
    counts["returns_long"] = n_long
    feats["int_discount_rate_raises"] = n_int_gamma
    feats["fsc_construct_error"] = fsc_defects.get("fsc_construct_error", 0)
    feats["fsc_action_dist_wrong"] = fsc_defects.get("fsc_action_dist_wrong", 0)
    feats["mdp_run_s0_is_0_given"] = sum(1 for c in cases if c["kind"] == "mdp_run" and c["s0"] == 0)

    ctx.coverage.update({
        "evaluations": sum(counts.values()),
        "distinct_nontrivial": len(distinct),
        "rule": "MDPs from harness/gen_mdp.py (1..%d states, 1..3 actions, k/8 probabilities, zero entries, explicit absorbing states; "
                "proper for long runs); functional policies (Dict/Uniform/Deterministic distributions per state, weights on k/8 or "
                "k/{3,7,10,12} grids, zero entries) and TabularPolicy rows; start given (any state, also absorbing) or sampled; caps "
                "{0,1,2,3,5,8,large=2^30,default}; streams of odd/2^21 values plus exact k/8 ties (dyadic cases) and extremes; "
                "evaluate_on with n in {1,2,3,5,8}, one third deterministic policy on deterministic MDP; POMDPs = such MDPs with all "
                "actions everywhere + observation distributions, policies = table controller (harness subclass of POMDPPolicy), "
                "value-based policies with Belief agent states (myopic ValueBasedTabularPOMDPPolicy subclass, msdm AlphaVectorPolicy; "
                "initial_agentstate absent / the prior passed explicitly / a full-support belief reaching states of initial probability 0, "
                "start state mostly sampled; mirrored with agent state = position in the run and the action distributions the policy "
                "presented, the policy's own action_dist/next_agentstate checked on the object), "
                "msdm StochasticFiniteStateController and msdm FiniteStateController (deterministic; 2-d and 3-d observation "
                "strategies indexed by observation-list position, action strategy as list/tuple of action labels incl. falsy ones, "
                "initial_state given, initial_agentstate given or not); POMDP action/observation labels str/tuple/float/int/bool in "
                "non-sorted order; calc_returns on reward lists of length 1..12 with gamma in {1/2..19/20, 1, 1/10, 0, 2^-10} (model + exact oracle), and on long lists "
                "(length 1100..1500 with gamma 1/2, length 110..200 with gamma 2^-10 / 0 / 1/10: gamma^t underflows) compared in Python only "
                "against the exact rational backward recursion at 1e-12 relative to max(1,|x|) (not through Coq: exact rationals of that size "
                "are too slow in vm_compute); evaluate_on also with discount 0, 1, 2^-10, 1-2^-20 (also 0/1 as int); audit classes: object reuse (same policy "
                "object run twice, on the same or a second MDP object with the same labels and other numbers; MDP cached views touched "
                "before; warm-up roll-out + evaluation before evaluate_on; POMDP policy run twice), boundaries (weights summing to 1+-1e-6, "
                "2, 1/2; probabilities 2^-30 and 1-2^-20; rewards 1e3..1e6 one sign), representations (QuickTabularMDP vs "
                "TabularMarkovDecisionProcess.from_matrices; labels str/tuple/float/int-permutation/bool in non-sorted order incl. falsy "
                "'' () 0 0.0 False; rng omitted = default generator; initial_state omitted vs None; rewards list/tuple/ndarray), "
                "SimulationResult/Step entry points (__getitem__ int/slice/column/columns/invalid, __iter__, __eq__, attribute access, repr, "
                "deprecated *_traj), POMDPPolicy.evaluate_on error path; round-2 classes: probabilities 2^-40 / 2^-52 / 2^-60 in policy, "
                "transition, initial and observation distributions with stream values 2^-70 and 1/2+2^-45 that select them "
                "(tiny_prob_events_drawn); rewards up to 1e9 with 1e-6 relative gaps; non-dyadic rows (0.7/0.2/0.1, thirds, sevenths) and "
                "rewards (0.1, 1/3, 22/7) with rewards compared bit-exactly to the doubles msdm was given; one distribution object shared "
                "by equal rows and one action list shared by states, inputs snapshotted before/after; first result re-read after a second "
                "call, second evaluate_on on the same policy, same problem built twice in a process; int-typed rewards/probabilities, "
                "integer and float32 arrays; one state / action / observation; distribution / reward / absorbing-flag objects updated IN PLACE "
                "between two roll-outs of the same policy object (second roll-out judged against the current contents); actions(s) listing fewer actions than the "
                "model defines (policy support not contained in actions(s); the recorded action must be the sampled one) or none at a "
                "non-absorbing state (dead ends: only absorbing states and the cap stop a roll-out), MDPs and POMDPs; evaluate_on with "
                "more than 1e5 recorded visits of one state (230..330 simulations x 450..720 steps on 1- and 2-state cycles, Python-only "
                "exact counts and means from the recorded roll-outs); episodes of 1100..1500 steps (Python-only exact clauses); distinct = structural hash of "
                "(model, policy, start, cap, trajectory); non-trivial = at least one step taken (returns: length > 1)" % (5 if tier == "quick" else 7),
        "samples": [{"case": cases[0], "impl": impl[0]}] if cases else [],
        "by_kind": counts, "by_cap": caps, "input_features": feats, "skipped": skipped, "cases": len(cases),
        "fsc_constructor_probe": fsc_probe,
    })
