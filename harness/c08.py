"""C08 — PBVI never over-estimates and QMDP never under-estimates the optimal POMDP value.

Correspondence: generated POMDPs (harness/gen_pomdp.py) -> msdm PointBasedValueIteration / QMDP
(harness/impl/c08_impl.py; point_based_value_iteration wrapped to record the belief set actually used)
-> evaluated by vm_compute inside coqc:
  * mirror_cmp (bigQ): the mirror of point_based_value_iteration on the recorded belief set vs the returned
    alpha vectors (theorem C08_msdm_pbvi_upper turns acceptance into  value <= W* + tail + tol);
  * chk_qtableF (Q): msdm's Q table vs an exact fixed point V* (theorem C08_msdm_qmdp_lower);
  * chk_sweepF (Q): the implementation's LAST sweep re-checked independently of tie-breaking: every action's
    backed-up vector at every recorded belief point has the value  r.b + gamma sum_o max_alpha alpha.(b T_a O_ao)
    computed from the previous alpha vectors (absorbing rows zeroed), and the selected action is maximal;
  * the bracketing oracle WoptF k (exact expectimax on unnormalised beliefs) with tail(k):
    chk_pbvi_upperF / chk_crossF / chk_qmdp_lowerF and the j-step QMDP table comparison (le_tab) on msdm's own
    alpha vectors / Q table at test beliefs AND at the points of the recorded belief set;
  * alpha_valueF / alpha_avF / qmdp_avF vs policy.value / action_value; greedy_checkF on action_dist;
  * fully observable cases: QMDP value within tail of Wopt, PBVI exact on successor-closed belief sets.
"""
from fractions import Fraction as F

import vlib
from vlib import q, qlist, qmat, qten, nat, blist, coqlist
import gen_mdp
import gen_pomdp
from c01 import exact_vstar

INFO = {
    "level": "proof",
    "coq_files": ["model/PBVI.v", "theory/PBVIFullObs.v"],
    "trusted_base": [
        "model/PBVI.v functions are evaluated on Q (NumQ) and bigQ (NumB); theorems are on R; tied by paramcoq transfer (theory/PBVITransfer.v, theory/PBVIMain.v)",
        "generated parameters (gamma, probabilities, rewards) reach the model exactly and msdm as nearest doubles; msdm's alpha vectors, Q tables, belief sets and thresholds enter Coq as the exact rationals of the floats",
        "the sweep cap of the mirror is ceil(log(eps/span)/log gamma) computed exactly in the harness (min h with gamma^h <= eps/span)",
        "harness-side comparisons |impl - model| <= tol of values printed by Coq (policy.value / action_value)",
    ],
    "assumptions": [
        "POMDP arrays of the model are built from the generator's definition in the state/action/observation order msdm reports",
        "belief-set expansion (cdist/unique on floats) is not modelled: the belief set actually passed to point_based_value_iteration is recorded by wrapping the module-level function",
    ],
}

PRE = """From Coq Require Import QArith List Bool.
From Bignums Require Import BigQ.
From MSDM Require Import base.Num base.NumInst model.MDP model.POMDP model.PBVI theory.PBVIFullObs.
Import ListNotations.
Local Open Scope Q_scope.
Definition mkp nS nA nO P R ab ini g Ob := @mk_pomdp Q NumQ nS nA nO P R ab ini g Ob.
Definition b1 := map BigQ.of_Q.
Definition b2 := map b1.
Definition b3 := map b2.
Definition mkpB nS nA nO P R ab ini g Ob :=
  @mk_pomdp bigQ NumB nS nA nO (b3 P) (b3 R) ab (b1 ini) (BigQ.of_Q g) (b3 Ob).
Definition qz (x : Q) := (Qnum x, Zpos (Qden x)).
Definition tailF (p : pomdp Q) k (u : list Q) := @tail Q NumQ p (@rM_tab Q NumQ p) k (untab u).
(* j-step QMDP table (theorem C08_qmdp_upper / fullobs_qmdp_exact), computed once per case *)
Definition qtab (p : pomdp Q) (j : nat) : list (list Q) :=
  match j with
  | O => @tab2 Q (nS (base p)) (nA (base p)) (fun _ _ => 0)
  | S j' => @tab2 Q (nS (base p)) (nA (base p)) (Qval (base p) (@Vk Q NumQ p j'))
  end.
(* (PBVI value <= QMDP(Qt) value + slack + tol,  QMDP(Qt) value <= PBVI value + slack + tol) *)
Definition le_tab (p : pomdp Q) tol (Qt : list (list Q)) (slackon : bool) (tub : option Q) j G (u : list Q) :=
  match @alpha_value Q NumQ p G (untab u), @qmdp_value Q NumQ p (untab2 Qt) (untab u) with
  | Some v, Some w =>
    (* tub = Some c: c >= gamma^j Rmax/(1-gamma) computed by the harness (rounded up), for runs of > 200
       sweeps where the exact power is thousands of digits long *)
    let sl := if slackon then match tub with Some c => c * @norm1 Q NumQ p (untab u) | None => tailF p j u end
              else 0 in
    (Qle_bool v (w + sl + tol), Qle_bool w (v + sl + tol))
  | _, _ => (false, false)
  end.
(* per test belief with implementation action values av and action distribution d *)
Definition cross p tol tub j G Qs (u : list Q) :=
  match tub with Some _ => fst (le_tab p tol Qs true tub j G u) | None => @chk_crossF Q NumQ p tol j G Qs u end.
Definition pb_one p tol ptol k j G Qs Qt slackon tub (e : list Q * (list Q * list Q)) :=
  let u := fst e in
  (@nonnegb Q NumQ p (untab u),
   @chk_pbvi_upperF Q NumQ p tol k j G u, fst (le_tab p tol Qt slackon tub j G u),
   cross p tol tub j G Qs u,
   qz (@alpha_valueF Q NumQ p G u), map qz (@alpha_avF Q NumQ p G u),
   @greedy_checkF Q NumQ p ptol (fst (snd e)) (snd (snd e)),
   qz (@WoptF Q NumQ p k u), qz (tailF p k u)).
(* per point of the recorded belief set (model side only) *)
Definition pb_pt p tol k j G Qs Qt slackon tub (u : list Q) :=
  (@chk_pbvi_upperF Q NumQ p tol k j G u, fst (le_tab p tol Qt slackon tub j G u),
   cross p tol tub j G Qs u, snd (le_tab p tol Qt slackon tub j G u),
   qz (@alpha_valueF Q NumQ p G u)).
(* jq = Some j: use the exact j-step QMDP table; None: the optimal table Qs with slack tail j *)
(* closedF = hypothesis of theorem C08_fully_observable_pbvi(_checked), on the whole recorded belief set *)
Definition pb_rep p tol ptol k j (exactj : bool) (tub : option Q) G Qs es pts Ball :=
  let Qt := if exactj then qtab p j else Qs in
  let slackon := negb exactj in
  (@wfpomdpb Q NumQ p, (@fullobsb Q NumQ p, @closedF Q NumQ p Ball), map (pb_one p tol ptol k j G Qs Qt slackon tub) es,
   map (pb_pt p tol k j G Qs Qt slackon tub) pts).
Definition q_one p tol ptol k Qt (e : list Q * (list Q * list Q)) :=
  let u := fst e in
  (@chk_qmdp_lowerF Q NumQ p tol k Qt u, map qz (@qmdp_avF Q NumQ p Qt u),
   @greedy_checkF Q NumQ p ptol (fst (snd e)) (snd (snd e)), qz (@WoptF Q NumQ p k u), qz (tailF p k u)).
Definition q_rep p qtol tol ptol k Vs Qt es :=
  (@wfpomdpb Q NumQ p, @chk_qtableF Q NumQ p qtol Vs Qt, map (q_one p tol ptol k Qt) es).
Definition gr p ptol (l : list (list Q * list Q)) :=
  map (fun e => @greedy_checkF Q NumQ p ptol (fst e) (snd e)) l.
(* (tie-independent check of the last sweep on the first points,
    max_b |Gprev[b].b - Gnew[b].b| over ALL points = the quantity the stopping test compares with eps) *)
Definition sw p tol Gprev B cand idx Ball Gpall Gnew :=
  (@chk_sweepF Q NumQ p tol Gprev B cand idx, qz (@vdelta Q NumQ p Ball Gpall Gnew)).
Definition mir p H amb eps B Gi tol :=
  (@wfpomdpb bigQ NumB p,
   @mirror_cmp bigQ NumB p H (BigQ.of_Q amb) (BigQ.of_Q eps) (b2 B) (b2 Gi) (BigQ.of_Q tol)).
Local Open Scope Z_scope.
"""


def zq(p):
    """(num, den) printed by qz -> Fraction"""
    return F(int(p[0]), int(p[1]))

GAMMAS = ["1/2", "3/4", "9/10"]
EPSS = ["1/10", "1/100", "1/1000"]


# ----------------------------------------------------------------------------
# generation
# ----------------------------------------------------------------------------
def sa_rewards(pc):
    """unmasked state-action rewards (what pomdp.state_action_reward_matrix holds), exact"""
    P, R, absf, ini, Ob = gen_pomdp.exact_arrays(pc)
    n, nA = pc["n"], pc["nA"]
    return [[sum(P[s][a][k] * R[s][a][k] for k in range(n)) for a in range(nA)] for s in range(n)]


def resolved_horizon(pc, cfg):
    """the sweep cap point_based_value_iteration uses: horizon, or min h with gamma^h <= eps/span"""
    if cfg["horizon"] is not None:
        return int(cfg["horizon"])
    sar = [x for row in sa_rewards(pc) for x in row]
    span = max(sar) - min(sar)
    ratio = F(float(F(cfg["eps"]))) / span
    g = F(pc["gamma"])
    h, pw = 0, F(1)
    while pw > ratio:
        pw *= g
        h += 1
    return h


def gen_tiger(rng, gamma, costs=False):
    """information-gathering template (Tiger-like): m hidden states, action 0 = listen (informative
    observation, small cost, state persists), actions 1.. = commit to a state (reward if right, penalty if
    wrong, then terminal state or reset); observations only help through listening, so the value of a
    belief depends on which alpha vector is used after each observation"""
    m = rng.choice([2, 2, 3])
    term = rng.random() < .5 and not costs      # costs: no terminal state, every value large and negative
    n = m + (1 if term else 0)
    ncommit = rng.randint(1, min(m, 2))
    nA = 1 + ncommit
    nO = m
    trans, reward, obs = {}, {}, {}
    drift = rng.random() < .4
    for s in range(m):
        if drift:
            o = rng.choice([x for x in range(m) if x != s])
            trans["%d,0" % s] = [[s, "7/8"], [o, "1/8"]]
        else:
            trans["%d,0" % s] = [[s, "1"]]
        lc = str(F(-rng.randint(1, 4), 4))
        for ns, p in trans["%d,0" % s]:
            reward["%d,0,%d" % (s, ns)] = lc
        for a in range(1, nA):
            if term:
                row = [[m, "1"]]
            else:
                parts = gen_mdp._split_prob(rng, m)
                row = [[ns, str(p)] for ns, p in zip(range(m), parts)]
            trans["%d,%d" % (s, a)] = row
            r = F(rng.randint(4, 16), 2) if s == a - 1 else -F(rng.randint(4, 24), 2)
            if costs:
                r = -F(rng.randint(1, 3), 2) if s == a - 1 else -F(rng.randint(8, 24), 2)
            for ns, p in row:
                reward["%d,%d,%d" % (s, a, ns)] = str(r)
    if term:
        for a in range(nA):
            trans["%d,%d" % (m, a)] = [[m, "1"]]
    acc = rng.choice([5, 6, 7])
    for ns in range(n):
        if ns < m:
            others = [o for o in range(m) if o != ns]
            rest = gen_mdp._split_prob(rng, len(others), denom=8 - acc) if len(others) > 1 and 8 - acc >= len(others) \
                else [F(8 - acc, 8)] + [F(0)] * (len(others) - 1)
            if len(others) > 1 and 8 - acc >= len(others):
                rest = [x * F(8 - acc, 8) for x in rest]
            row = [[ns, str(F(acc, 8))]] + [[o, str(p)] for o, p in zip(others, rest)]
        else:
            row = [[0, "1"]]
        obs["0,%d" % ns] = row
        for a in range(1, nA):
            obs["%d,%d" % (a, ns)] = [[o, str(F(1, m))] for o in range(m)] if m != 3 else [[0, "1/2"], [1, "1/4"], [2, "1/4"]]
    parts = gen_mdp._split_prob(rng, m)
    init = [[s, str(p)] for s, p in zip(range(m), parts)]
    return {"n": n, "nA": nA, "actions": [list(range(nA)) for _ in range(n)], "trans": trans, "reward": reward,
            "absorbing": [False] * m + ([True] if term else []), "init": init, "gamma": gamma, "nO": nO,
            "obs": obs, "obs_kinds": ["tiger"] * nA}


TINY = F(1, 2**30)
NEAR1 = "1048575/1048576"          # 1 - 2^-20, exact in binary floating point
LABEL_KINDS = ["int", "str", "tuple", "float", "signed", "signed"]


def dup_action(rng, pc):
    """a copy of action 0 as a new action: exact tie of the action values at every belief, or (50%) a
    gap of 2^-30 in the reward of one state (must NOT be treated as a tie)"""
    new = pc["nA"]
    mode = rng.choice(["tie", "gap", "relgap"])
    gap_state = rng.randrange(pc["n"]) if mode != "tie" else None
    for s in range(pc["n"]):
        row = [list(e) for e in pc["trans"]["%d,0" % s]]
        pc["trans"]["%d,%d" % (s, new)] = row
        for ns, p in row:
            r = F(pc["reward"].get("%d,0,%d" % (s, ns), "0"))
            if s == gap_state:
                r += TINY if mode == "gap" else (abs(r) if r != 0 else F(1)) * F(1, 2**20)   # relative gap 2^-20
            if r != 0:
                pc["reward"]["%d,%d,%d" % (s, new, ns)] = str(r)
        pc["actions"][s] = pc["actions"][s] + [new]
    for ns in range(pc["n"]):
        pc["obs"]["%d,%d" % (new, ns)] = [list(e) for e in pc["obs"]["0,%d" % ns]]
    pc["nA"] = new + 1
    pc["obs_kinds"] = pc["obs_kinds"] + [pc["obs_kinds"][0]]
    return {"tie": "tie", "gap": "gap", "relgap": "relgap-2^-20"}[mode]


def tiny_probabilities(rng, pc):
    """move 2^-30 of probability inside one transition row and one observation row (supports only grow)"""
    def split(row, universe):
        pos = [e for e in row if F(e[1]) > 0]
        e = rng.choice(pos)
        other = rng.choice([x for x in universe if x != e[0]] or [e[0]])
        if other == e[0]:
            return
        e[1] = str(F(e[1]) - TINY)
        for e2 in row:
            if e2[0] == other:
                e2[1] = str(F(e2[1]) + TINY)
                break
        else:
            row.append([other, str(TINY)])
    split(pc["trans"][rng.choice(sorted(pc["trans"]))], range(pc["n"]))
    split(pc["obs"][rng.choice(sorted(pc["obs"]))], range(pc["nO"]))


def gen_corridor(rng, gamma):
    """corridor of n in {5,6,7} positions (not a power of two): left/right with slip 1/8, step cost, the far
    end is an absorbing goal paying on entry; the reward is n-1 steps away from the start; the observation is
    a noisy parity of the position"""
    n = rng.choice([5, 6, 7])
    trans, reward, obs = {}, {}, {}
    cost = -rng.randint(1, 4)
    prize = rng.randint(8, 40)
    for s in range(n - 1):
        for a, d in ((0, -1), (1, +1)):
            t = min(max(s + d, 0), n - 1)
            row = [[s, "1"]] if t == s else [[t, "7/8"], [s, "1/8"]]
            trans["%d,%d" % (s, a)] = row
            for ns, p in row:
                reward["%d,%d,%d" % (s, a, ns)] = str(prize if ns == n - 1 else cost)
    for a in (0, 1):
        trans["%d,%d" % (n - 1, a)] = [[n - 1, "1"]]
        for ns in range(n):
            obs["%d,%d" % (a, ns)] = [[ns % 2, "7/8"], [1 - ns % 2, "1/8"]] if ns < n - 1 else [[0, "1"]]
    starts = rng.sample(range(n - 2), 2)
    return {"n": n, "nA": 2, "actions": [[0, 1] for _ in range(n)], "trans": trans, "reward": reward,
            "absorbing": [False] * (n - 1) + [True], "init": [[starts[0], "5/8"], [starts[1], "3/8"]],
            "gamma": gamma, "nO": 2, "obs": obs, "obs_kinds": ["corridor"] * 2}


def tiny_branch_huge_reward(rng, pc):
    """a branch of probability 2^-30 / 2^-40 carrying a reward ~1/p (its contribution to the state-action
    reward is of order 1: dropping 'negligible' probabilities changes the answer); plus the same tiny mass
    moved inside the initial distribution"""
    k = rng.choice([30, 40])
    masked = [pc["absorbing"][s] for s in range(pc["n"])]
    cands = [(s, a) for s in range(pc["n"]) if not masked[s] for a in range(pc["nA"])]
    if not cands or pc["n"] < 2:
        return None
    s, a = rng.choice(cands)
    row = pc["trans"]["%d,%d" % (s, a)]
    e = rng.choice([x for x in row if F(x[1]) >= F(1, 8)])
    others = [x for x in range(pc["n"]) if x not in [y[0] for y in row]] or [x for x in range(pc["n"]) if x != e[0]]
    other = rng.choice(others)
    e[1] = str(F(e[1]) - F(1, 2**k))
    for e2 in row:
        if e2[0] == other:
            e2[1] = str(F(e2[1]) + F(1, 2**k))
            break
    else:
        row.append([other, str(F(1, 2**k))])
    pc["reward"]["%d,%d,%d" % (s, a, other)] = str(rng.choice([-3, -2, 2, 3]) * 2**k)
    pos = [x for x in pc["init"] if F(x[1]) >= F(1, 8)]
    if pos:
        e = rng.choice(pos)
        o2 = rng.choice([x for x in range(pc["n"]) if x != e[0]])
        e[1] = str(F(e[1]) - F(1, 2**k))
        for e2 in pc["init"]:
            if e2[0] == o2:
                e2[1] = str(F(e2[1]) + F(1, 2**k))
                break
        else:
            pc["init"].append([o2, str(F(1, 2**k))])
    return "tiny-branch-huge-reward-2^-%d" % k


NONDYADIC = {2: [["1/3", "2/3"], ["1/10", "9/10"], ["3/7", "4/7"]],
             3: [["7/10", "1/5", "1/10"], ["1/3", "1/3", "1/3"], ["1/7", "2/7", "4/7"]]}


def non_dyadic(rng, pc):
    """thirds, sevenths and tenths in transition / observation / initial rows and rewards (float row sums
    that are not exactly 1.0, numbers whose double differs from the rational)"""
    def redo(row):
        pos = [e for e in row if F(e[1]) > 0]
        if len(pos) in NONDYADIC and rng.random() < .6:
            for e, p in zip(pos, rng.choice(NONDYADIC[len(pos)])):
                e[1] = p
    for key in sorted(pc["trans"]):
        redo(pc["trans"][key])
    for key in sorted(pc["obs"]):
        redo(pc["obs"][key])
    redo(pc["init"])
    for key in sorted(pc["reward"]):
        if rng.random() < .5:
            pc["reward"][key] = str(F(pc["reward"][key]) / rng.choice([10, 3, 7]))


def long_horizon_case(rng):
    """1200 sweeps (eps = 0 never stops early), gamma = 99/100"""
    c = gen_case(rng, "quick", force="long-horizon-1200:tiger")
    return c


def gen_fullobs_slip(rng, gamma):
    """fully observable; from the start state almost surely to state 1 and with probability 2^-30 / 2^-40 to
    state 2, whose optimal action is optimal nowhere else: the vertex e_2 is reachable only through the tiny
    branch, and PBVI is exact there only if the belief set really contains it"""
    k = rng.choice([30, 40])
    p = F(1, 2**k)
    r1, r2, c2 = rng.randint(1, 4), rng.randint(1, 4), rng.randint(1, 4)
    trans = {"0,0": [[1, str(1 - p)], [2, str(p)]], "0,1": [[1, str(1 - p)], [2, str(p)]],
             "1,0": [[1, "1"]], "1,1": [[1, "1"]], "2,0": [[2, "1"]], "2,1": [[2, "1"]]}
    # action 0 is strictly better in states 0 and 1 (so every vector backed up there plays it), action 1 in state 2
    reward = {"0,0,1": "1", "0,0,2": "1", "1,0,1": str(r1), "2,0,2": str(-c2), "2,1,2": str(r2)}
    obs = {"%d,%d" % (a, ns): [[ns, "1"]] for a in (0, 1) for ns in range(3)}
    return {"n": 3, "nA": 2, "actions": [[0, 1]] * 3, "trans": trans, "reward": reward,
            "absorbing": [False] * 3, "init": [[0, "1"]], "gamma": gamma, "nO": 3, "obs": obs,
            "obs_kinds": ["identity"] * 2}, "fullobs-slip-2^-%d" % k


def degenerate_case():
    """one state, one action, one observation: expand_beliefs finds no new belief at all"""
    pc = {"n": 1, "nA": 1, "actions": [[0]], "trans": {"0,0": [[0, "1"]]}, "reward": {"0,0,0": "1"},
          "absorbing": [False], "init": [[0, "1"]], "gamma": "1/2", "nO": 1, "obs": {"0,0": [[0, "1"]]},
          "obs_kinds": ["single"]}
    return {"pomdp": pc, "pbvi": {"min_exp": 1, "max_exp": 2, "eps": "1/100", "horizon": 10},   # one reward value: horizon=None divides by rmax-rmin = 0 (reported)
            "beliefs": [["1"]], "belief_kinds": ["initial"], "qmdp_solvers": ["vi", "pi", "vi_dict", "pi_params"], "fullobs": True,
            "template": "degenerate", "labels": {"states": "int", "actions": "int", "obs": "int"},
            "reuse": "warm-twisted-first", "touch_first": False, "initial_index": 0, "variants": ["degenerate"]}


def gen_case(rng, tier, force=None):
    """force = 'large-values-tight-threshold:tiger' | 'large-values-tight-threshold:fullobs-costs': value scale
    ~1e3..1e4 with eps = 1e-3 and horizon=None, so that 1e-5*|V| >> eps (a relative term in the stopping
    test, or any other scale-dependent slack, then shows)"""
    r = rng.random()
    gamma = rng.choice(GAMMAS)
    variants = []
    gb = rng.random()
    if force:
        r, gb = (0.0, 1.0) if force.endswith("tiger") else (0.9, 1.0)
        gamma = "9/10" if force.endswith("tiger") else "19/20"
        if force.startswith("long-horizon"):
            gamma = "99/100"
        if force.startswith("fullobs-slip"):
            gamma = rng.choice(["1/2", "3/4", "9/10"])
        variants.append(force)
    if gb < .06:
        gamma, _ = "0", variants.append("gamma=0")
    elif gb < .12:
        gamma, _ = NEAR1, variants.append("gamma=1-2^-20")
    if force and force.startswith("fullobs-slip"):
        pc, vname = gen_fullobs_slip(rng, gamma)
        variants[-1] = vname
    elif r < .35:
        pc = gen_tiger(rng, gamma, costs=bool(force) and force.startswith("large-values"))
    elif r < .45 and not force:
        pc = gen_corridor(rng, gamma)
        variants.append("corridor-n=%d" % pc["n"])
    else:
        nmax = 3 if rng.random() < .6 else 4
        for _ in range(50):
            pc = gen_pomdp.gen_pomdp(rng, nmax=nmax, amax=3, omax=3, gamma=gamma, near_twin=0.0 if force else .15,
                                     nonpos=bool(force), goal=not force)
            if (pc["nO"] >= 2 or rng.random() < .1) and (pc["nA"] >= 2 or rng.random() < .15):
                break
    fullobs = r >= .45 and rng.random() < .25
    if force:
        fullobs = not force.endswith("tiger")
    slip = bool(force and force.startswith("fullobs-slip"))
    if fullobs and not slip:
        pc.pop("obs_near_twin", None)
        pc["nO"] = pc["n"]
        pc["obs"] = {"%d,%d" % (a, ns): [[ns, "1"]] for a in range(pc["nA"]) for ns in range(pc["n"])}
        pc["obs_kinds"] = ["identity"] * pc["nA"]
    # ---- boundary variants ----
    if pc.get("obs_near_twin"):
        variants.append("observation-near-twin-2^-30")    # gen_pomdp opt-in: two posteriors ~1e-9 apart
    if not force and pc["nA"] <= 2 and rng.random() < .2:
        variants.append("duplicate-action-" + dup_action(rng, pc))
    if not force and rng.random() < .3:
        for s in range(pc["n"]):
            if pc["absorbing"][s] and all(pc["trans"]["%d,%d" % (s, a)] == [[s, "1"]] for a in range(pc["nA"])):
                for a in range(pc["nA"]):
                    pc["reward"]["%d,%d,%d" % (s, a, s)] = str(rng.choice([-3, 2, 5]))   # must be ignored
                variants.append("absorbing-selfloop-reward")
                break
    if not force and not fullobs and rng.random() < .12:
        tiny_probabilities(rng, pc)
        variants.append("probability-2^-30")
    elif not force and rng.random() < .12:
        v = tiny_branch_huge_reward(rng, pc)
        if v:
            variants.append(v)
    elif not force and gamma != NEAR1 and rng.random() < .2:
        non_dyadic(rng, pc)
        variants.append("non-dyadic-numbers")
    scaled = False
    if force and not slip:
        pc["reward"] = {key: str(F(v) * 64) for key, v in pc["reward"].items()}
    elif not force and (rng.random() < .15 or "duplicate-action-relgap-2^-20" in variants):
        k = rng.choice([2**10, 2**20])
        pc["reward"] = {key: str(F(v) * k) for key, v in pc["reward"].items()}
        variants.append("rewards-x%d" % k)
        scaled = True
    cfg = {"min_exp": rng.choice([0, 1, 2, 3]), "max_exp": rng.choice([1, 2, 3]),
           "eps": rng.choice(EPSS + ["1/100", "1", "0"]), "horizon": rng.choice([None, None, 1, 3, 10])}
    if (force and not slip) or (scaled and gamma in GAMMAS and rng.random() < .5):
        cfg["eps"], cfg["horizon"] = "1/1000", None       # tight threshold on a large value scale
        if force:
            cfg["min_exp"], cfg["max_exp"] = 3, 2
    if force and force.startswith("long-horizon"):
        cfg = {"min_exp": 1, "max_exp": 1, "eps": "0", "horizon": 1200}
    if fullobs:
        # enough expansion rounds (min(max_exp, min_exp + 1) >= n) for the belief set to become closed under
        # successors: each round adds at least one new vertex while one is missing
        cfg["min_exp"], cfg["max_exp"] = pc["n"] + 1, pc["n"] + 2
    if slip:
        cfg["eps"], cfg["horizon"] = rng.choice(["1/100", "1/1000"]), None
    if "probability-2^-30" in variants or "observation-near-twin-2^-30" in variants or \
            any(x.startswith("tiny-branch-huge-reward") for x in variants):
        cfg["horizon"] = rng.choice([1, 3])       # exact arithmetic gains 30 bits per sweep on these
    if gamma in ("0", NEAR1) or cfg["eps"] == "0":
        # horizon=None would need 0 sweeps (gamma=0: raises, reported separately) / ~1e7 sweeps / log(0)
        cfg["horizon"] = cfg["horizon"] or rng.choice([1, 3, 10])
    sar = [x for row in sa_rewards(pc) for x in row]
    if cfg["horizon"] is None and max(sar) - min(sar) <= 2 * F(cfg["eps"]):
        # point_based_value_iteration divides by (rmax - rmin) and needs a positive sweep count:
        # outside that range it raises (reported separately, see the final report); keep inside
        cfg["horizon"] = 3
    bl = gen_pomdp.gen_beliefs(rng, pc, n_grid=2, n_reach=3)
    rng.shuffle(bl)
    keep = [b for b in bl if b["kind"] in ("initial",)] + [b for b in bl if b["kind"] == "reachable"][:3]
    # beliefs with (all / part of) their mass on absorbing states are always among the test beliefs
    keep += [b for b in bl if b["kind"] in ("absorbing-face", "absorbing-leak")]
    absv = [b for b in bl if b["kind"] == "vertex" and any(pc["absorbing"][s2] and F(x) == 1 for s2, x in enumerate(b["b"]))]
    keep += absv[:1]
    rest = [b for b in bl if b not in keep]
    keep += rest[:max(0, 7 - len(keep))]
    if fullobs:
        keep += [b for b in bl if b["kind"] == "vertex" and b not in keep]     # every vertex is judged
    beliefs = [b["b"] for b in keep]
    kinds = [b["kind"] for b in keep]
    if pc["n"] >= 2:
        i, j2 = rng.sample(range(pc["n"]), 2)
        beliefs.append([str(1 - TINY) if x == i else str(TINY) if x == j2 else "0" for x in range(pc["n"])])
        kinds.append("near-vertex-2^-30")
    if "non-dyadic-numbers" in variants and pc["n"] in (2, 3, 4):
        beliefs.append({2: ["1/10", "9/10"], 3: ["7/10", "1/5", "1/10"], 4: ["1/10", "1/5", "3/10", "2/5"]}[pc["n"]])
        kinds.append("tenths")
    if rng.random() < .5:
        labels = {"states": "int", "actions": "int", "obs": "int"}
    else:
        labels = {"states": rng.choice(LABEL_KINDS), "actions": rng.choice(LABEL_KINDS), "obs": rng.choice(LABEL_KINDS)}
    if fullobs:
        labels["obs"] = labels["states"]      # keeps "observation index = state index" in msdm's sorted orders
    return {"pomdp": pc, "pbvi": cfg, "beliefs": beliefs, "belief_kinds": kinds,
            "qmdp_solvers": ["pi", "pi_params"] if gamma == NEAR1 else ["vi", "pi", "vi_dict", "pi_params"], "fullobs": fullobs,
            "template": pc["obs_kinds"][0] if pc["obs_kinds"][0] in ("tiger", "identity") else "random",
            "labels": labels,
            "reuse": rng.choice([None, None, None, "warm-twisted-first", "warm-twisted-first", "other-first", "stale", "stale"]),
            "twin_first": rng.random() < .3, "unrelated": rng.randint(0, 2),
            "shared_objects": rng.random() < .4, "int_types": rng.random() < .3,
            "touch_first": rng.random() < .3,
            "history": [h for h, pr_ in (("crude-solver-first", .5), ("discount-edited", .25)) if rng.random() < pr_
                        and not (h == "discount-edited" and gamma in ("0", NEAR1))],
            "history_gamma": rng.choice([x for x in GAMMAS if x != gamma]),
            "initial_index": 0 if kinds and kinds[0] == "initial" else None, "variants": variants}


def heavy(case):
    """cases whose exact arithmetic grows fast (2^-30 probabilities, gamma = 1 - 2^-20)"""
    v = case.get("variants", [])
    return "probability-2^-30" in v or "observation-near-twin-2^-30" in v or case["pomdp"]["gamma"] == NEAR1 or \
        any(x.startswith("fullobs-slip") for x in v) or \
        any(x.startswith("tiny-branch-huge-reward") for x in v)


def depth_for(pc, case=None):
    br = pc["nA"] * pc["nO"]
    k = 1
    while k < 4 and br ** (k + 1) <= 300 and br ** (k + 1) * pc["n"] ** 2 <= 2500:
        k += 1
    return min(k, 2) if case is not None and heavy(case) else k


# ----------------------------------------------------------------------------
# exact model-side data
# ----------------------------------------------------------------------------
def absorbing_mask(P, R, absf):
    n, nA = len(P), len(P[0])
    out = []
    for s in range(n):
        selfloop = all(P[s][a][s] == 1 for a in range(nA))
        zero = all(R[s][a][k] == 0 for a in range(nA) for k in range(n))
        out.append((selfloop and zero) or absf[s])
    return out


def ordered_arrays(pc, order):
    """exact (P, R, absflag, init, Ob) indexed in the state/action/observation order msdm reports"""
    sl, al, ol = order
    P, R, av, absf, ini = gen_mdp.arrays(pc, sl, al)
    Ob = gen_pomdp.obs_arrays(pc, al, sl, ol)
    return P, R, absf, ini, Ob


def exact_q(pc, order):
    """exact V*, Q* of the underlying masked MDP"""
    P, R, absf, ini, Ob = ordered_arrays(pc, order)
    n, nA = pc["n"], pc["nA"]
    g = F(pc["gamma"])
    masked = absorbing_mask(P, R, absf)
    av = [[True] * nA for _ in range(n)]
    Vs = exact_vstar(P, R, av, masked, g)
    if Vs is None:
        return None, None, masked
    Qs = [[(sum(P[s][a][k] * R[s][a][k] for k in range(n)) + g * sum(P[s][a][k] * Vs[k] for k in range(n)))
           if not masked[s] else F(0) for a in range(nA)] for s in range(n)]
    return Vs, Qs, masked


def pomdp_term(pc, order, mk="mkp"):
    P, R, absf, ini, Ob = ordered_arrays(pc, order)
    return "(%s %s %s %s %s %s %s %s %s %s)" % (
        mk, nat(pc["n"]), nat(pc["nA"]), nat(pc["nO"]), qten(P), qten(R), blist(absf), qlist(ini),
        q(pc["gamma"]), qten(Ob))


def usable(qr):
    return "error" not in qr and finite(qr["value"]) and all(finite(x) for x in qr["action_values"] + qr["dist"])


def entries(beliefs, queries):
    es = []
    for b, qr in zip(beliefs, queries):
        if not usable(qr):
            continue
        es.append("(%s, (%s, %s))" % (qlist(b), qlist(qr["action_values"]), qlist(qr["dist"])))
    return coqlist(es)


def fr(x):
    return vlib.frac(x)


def rep_entries(queries):
    """[(belief index, representation, result)] for the non-dense representations that returned numbers"""
    out = []
    for bi, qr in enumerate(queries):
        for name, r in qr.get("reps", {}).items():
            if "error" not in r and finite(r["value"]) and all(finite(x) for x in r["action_values"] + r["dist"]):
                out.append((bi, name, r))
    return out


def gr_term(pt, ptol, ents):
    return "gr %s %s %s" % (pt, q(ptol), coqlist("(%s, %s)" % (qlist(r["action_values"]), qlist(r["dist"])) for _, _, r in ents))


def finite(x):
    return not isinstance(x, str) and x is not None


# ----------------------------------------------------------------------------
def run(ctx):
    tier = ctx.tier
    ncases = 30 if tier == "quick" else 400
    mirror_budget = 7000 if tier == "quick" else 40000
    if ctx.replay_case:
        cases = [ctx.replay_case["detail"]["case"]]
    else:
        cases = [degenerate_case(),
                 gen_case(ctx.rng, tier, force="large-values-tight-threshold:tiger"),
                 gen_case(ctx.rng, tier, force="large-values-tight-threshold:fullobs-costs"),
                 long_horizon_case(ctx.rng),
                 gen_case(ctx.rng, tier, force="fullobs-slip")] + \
                [gen_case(ctx.rng, tier) for _ in range(ncases - 5)]
    shards = min(ctx.jobs, 8 if tier == "quick" else 16)
    impl = ctx.impl("c08_impl.py", {"cases": cases}, shards=shards)["results"]

    terms, meta = [], []
    info = {}
    variant_counts = {}
    feats = {}
    scale_of = {}
    counters = {"pbvi_runs": 0, "qmdp_runs": 0, "mirror_runs": 0, "mirror_skipped_budget": 0,
                "fullobs_cases": 0, "fullobs_closed_sets": 0, "belief_checks": 0, "beliefset_point_checks": 0,
                "horizon_none": 0, "absorbing_cases": 0, "neg_reward_cases": 0, "multi_call_runs": 0}
    for i, (case, res) in enumerate(zip(cases, impl)):
        pc = case["pomdp"]
        if "error" in res:
            ctx.violation("C08:impl-error:" + res["error"].split(":")[0], {"case": case, "error": res["error"]}, found=True)
            continue
        n, nA, nO = pc["n"], pc["nA"], pc["nO"]
        order = (res["state_list"], res["action_list"], res["observation_list"])
        if sorted(order[0]) != list(range(n)) or sorted(order[1]) != list(range(nA)) or \
                sorted(order[2]) != list(range(nO)):
            ctx.violation("C08:harness:index-order", {"case": case, "lists": [res["state_list"], res["action_list"], res["observation_list"]]}, found=False)
            continue
        Vs, Qs, masked = exact_q(pc, order)
        beliefs = [[b[sx] for sx in order[0]] for b in case["beliefs"]]      # in msdm's state order
        if Vs is None or masked != res["absorbing_vec"]:
            ctx.violation("C08:harness:oracle-or-mask", {"case": case, "masked": masked, "impl_mask": res["absorbing_vec"]}, found=False)
            continue
        g = F(pc["gamma"])
        sar = [abs(x) for row in sa_rewards(pc) for x in row]
        scale = max([F(1)] + sar) / (1 - g)
        tol = F(1, 10**9) * scale
        ptol = F(1, 10**12)
        k = depth_for(pc, case)
        pt = pomdp_term(pc, order)
        info[i] = {"tol": tol, "k": k, "Qs": Qs, "Vs": Vs, "order": order, "beliefs": beliefs}
        counters["absorbing_cases"] += int(any(masked))
        counters["neg_reward_cases"] += int(any(F(r) < 0 for r in pc["reward"].values()))
        counters["fullobs_cases"] += int(case.get("fullobs", False))
        counters["horizon_none"] += int(case["pbvi"]["horizon"] is None)
        for vname in case.get("variants", []) + (["planner-reuse:" + str(case["reuse"])] if case.get("reuse") else []) + \
                (["twin-and-%d-unrelated-problems-constructed-first" % case.get("unrelated", 0)] if case.get("twin_first") else []) + \
                (["shared-mutable-caller-objects"] if case.get("shared_objects") else []) + \
                (["int-typed-rewards-and-probabilities"] if case.get("int_types") else []) + \
                (["n=nA"] if n == nA else []) + (["n=nO"] if n == nO else []) + \
                ["history:" + h for h in case.get("history", [])] + \
                (["action-labels-whose-set-order-differs-from-sorted-order(signed ints)"] if (case.get("labels") or {}).get("actions") == "signed" and nA >= 2 else []) + \
                (["base-object-views-touched-first"] if case.get("touch_first") else []) + \
                (["non-int-labels"] if set((case.get("labels") or {}).values()) - {"int"} else []) + \
                (["msdm-order-differs-from-id-order"] if list(order[0]) + list(order[1]) + list(order[2]) != list(range(n)) + list(range(nA)) + list(range(nO)) else []) + \
                ["eps=" + case["pbvi"]["eps"]] * int(case["pbvi"]["eps"] in ("0", "1")):
            variant_counts[vname] = variant_counts.get(vname, 0) + 1

        if res.get("mutated_inputs"):
            ctx.violation("C08:caller-objects-mutated", {"case": case, "mutated": res["mutated_inputs"],
                          "clause": "planning / querying modified the caller's own transition / reward / observation / action / initial-distribution objects"}, found=True)
        feats["auxiliary_problem_planning_raised"] = feats.get("auxiliary_problem_planning_raised", 0) + len(res.get("reuse_errors", []))
        for who_, qs_ in [("pbvi", res["pbvi"].get("queries", []))] + [("qmdp-" + k_, v_.get("queries", [])) for k_, v_ in res.get("qmdp", {}).items()]:
            mb = [x for qq in qs_ for x in qq.get("mutated_beliefs", [])]
            if mb:
                ctx.violation("C08:%s:belief-object-mutated" % who_, {"case": case, "representations": sorted(set(mb))}, found=True)
        # ---------------- PBVI ----------------
        pb = res["pbvi"]
        if "error" in pb:
            ctx.violation("C08:pbvi:raises:" + pb["error"].split(":")[0], {"case": case, "error": pb["error"]}, found=True)
        else:
            lc = pb["last_call"]
            nonfin = any(not finite(x) for v in pb["alpha_vectors"] for x in v)
            for bi, bq in enumerate(pb["queries"]):
                if not usable(bq):
                    sig = "C08:pbvi:policy-query-raises:" + bq["error"].split(":")[0] if "error" in bq else \
                        "C08:alpha-policy:value-is-not-max-alpha-dot-belief"
                    ctx.violation(sig, {"case": case, "belief": case["beliefs"][bi], "impl": bq,
                                        "clause": "the alpha-vector policy's value / action values / action distribution at this belief raise or are not finite"}, found=True)
                    break
            if nonfin or lc is None or lc["alpha_vectors"] != pb["alpha_vectors"]:
                ctx.violation("C08:pbvi:nonfinite-or-unrecorded-alpha-vectors", {"case": case, "pbvi": pb}, found=nonfin)
            else:
                counters["pbvi_runs"] += 1
                counters["multi_call_runs"] += int(pb["n_calls"] > 1)
                H = resolved_horizon(pc, case["pbvi"])
                # alpha vectors of at most H sweeps are bounded by rmax * min(H + 1, 1/(1-gamma)): tighter tol
                tolp = min(tol, F(1, 10**9) * max(F(1), max([F(1)] + sar) * min(F(H + 1), 1 / (1 - g))))
                info[i]["tolp"] = tolp
                it = lc["iterations"]
                j = it + 1 if (lc["returned_is_last_sweep"] and it == H - 1) else it
                info[i].update({"H": H, "j": j})
                G = pb["alpha_vectors"]
                B = lc["belief_set"]
                info[i]["pb_idx"] = [bi for bi, bq in enumerate(pb["queries"]) if usable(bq)]
                isvert = lambda b: sorted(fr(x) for x in b)[-1] == 1
                pts = ([b for b in B if isvert(b)] + [b for b in B if not isvert(b)])[:8]   # vertices first
                info[i]["pts"] = pts
                tub = "None"
                if j > 200:
                    Pm_, Rm_, af_, in_, Ob2_ = ordered_arrays(pc, order)
                    mk2 = absorbing_mask(Pm_, Rm_, af_)
                    M2 = max([F(0)] + [abs(sum(Pm_[s2][a][x] * Rm_[s2][a][x] for x in range(n)))
                                       for s2 in range(n) if not mk2[s2] for a in range(nA)])
                    exact_tail = g ** j * M2 / (1 - g)
                    tub = "(Some %s)" % q(F(-((-exact_tail.numerator * 2**100) // exact_tail.denominator), 2**100))   # rounded UP
                terms.append("pb_rep %s %s %s %s %s %s %s %s %s %s %s %s" % (
                    pt, q(tolp), q(ptol), nat(k), nat(j), vlib.b(j <= (5 if heavy(case) else 25)), tub, qmat(G), qmat(Qs),
                    entries(beliefs, pb["queries"]), qmat(pts), qmat(B)))
                meta.append(("pb", i))
                ents = rep_entries(pb["queries"])
                if ents:
                    info[i]["gr:pb"] = ents
                    terms.append(gr_term(pt, ptol, ents))
                    meta.append(("gr:pb", i))
                nb = min(len(B), 8)
                gnew = [lc["candidates"][bi][lc["selected"][bi]] for bi in range(len(B))]
                terms.append("sw %s %s %s %s %s %s %s %s %s" % (
                    pt, q(tolp), qmat(lc["prev_alpha_vectors"]), qmat(B[:nb]), qten(lc["candidates"][:nb]),
                    vlib.natlist(lc["selected"][:nb]), qmat(B), qmat(lc["prev_alpha_vectors"]), qmat(gnew)))
                meta.append(("sw", i))
                work = (min(j + 1, H)) * len(B) * nA * nO * (len(B) + n) * (8 if heavy(case) else 1)
                if work <= mirror_budget:
                    terms.append("mir %s %s %s %s %s %s %s" % (
                        pomdp_term(pc, order, "mkpB"), nat(H), q(tolp), q(lc["eps"]), qmat(B), qmat(G), q(tolp)))
                    meta.append(("mir", i))
                else:
                    counters["mirror_skipped_budget"] += 1
        # ---------------- QMDP ----------------
        for name in case["qmdp_solvers"]:
            qr = res["qmdp"].get(name, {"error": "missing"})
            if "error" in qr:
                ctx.violation("C08:qmdp-%s:raises:%s" % (name, qr["error"].split(":")[0]), {"case": case, "solver": name, "error": qr["error"]}, found=True)
                continue
            if any(not finite(x) for row in qr["Q"] for x in row):
                ctx.violation("C08:qmdp-%s:nonfinite-action-value" % name, {"case": case, "Q": qr["Q"]}, found=True)
                continue
            counters["qmdp_runs"] += 1
            info[i]["q_idx:" + name] = [bi for bi, bq in enumerate(qr["queries"]) if usable(bq)]
            for bi, bq in enumerate(qr["queries"]):
                if not usable(bq):
                    # the clause, evaluated exactly on the implementation's own table
                    want = [str(sum(fr(beliefs[bi][s2]) * fr(qr["Q"][s2][a]) for s2 in range(n))) for a in range(nA)]
                    sig = "C08:qmdp-%s:policy-query-raises:%s" % (name, bq["error"].split(":")[0]) if "error" in bq else \
                        "C08:qmdp-%s:action-value-not-belief-weighted-table" % name
                    ctx.violation(sig, {"case": case, "solver": name, "belief": case["beliefs"][bi], "impl": bq,
                                        "belief_weighted_table": want, "belief_kind": case["belief_kinds"][bi] if bi < len(case.get("belief_kinds", [])) else None,
                                        "clause": "QMDP's action value at this belief raises / is not finite, but sum_s b(s) Q(s,a) of its own table is the finite number listed: QMDP's action values are not the belief-weighted optimal action values of the underlying MDP"}, found=True)
                    break
            qtol = F(1, 10**8) * scale
            scale_of[i] = scale
            terms.append("q_rep %s %s %s %s %s %s %s %s" % (
                pt, q(qtol), q(tol + qtol * 2), q(ptol), nat(k if name in ("vi", "pi") else min(k, 1)), qlist(Vs), qmat(qr["Q"]),
                entries(beliefs, qr["queries"])))
            meta.append(("q:" + name, i))
            ents = rep_entries(qr["queries"])
            if ents:
                info[i]["gr:q:" + name] = ents
                terms.append(gr_term(pt, ptol, ents))
                meta.append(("gr:q:" + name, i))

    vals = ctx.coq(PRE, terms, shard=3 if tier == "quick" else 8, timeout=1200)

    distinct = set()
    states_ignored = set()
    rep_reported = set()
    amb = drift = mirror_ok = 0
    nev = 0
    for (kind, i), v in zip(meta, vals):
        case, res = cases[i], impl[i]
        pc = case["pomdp"]
        tol, k = info[i]["tol"], info[i]["k"]
        base = {"case": case}
        if isinstance(v, vlib.CoqError):
            ctx.violation("C08:coq-evaluation-failed", dict(base, kind=kind, error=str(v)[:800]), found=False)
            continue
        if kind == "pb":
            tol = info[i].get("tolp", tol)
            pb = res["pbvi"]
            wf, (fullobs, closed_coq), per_b, per_pt = v
            if not wf:
                ctx.violation("C08:harness:generated-pomdp-not-well-formed", base, found=False)
                continue
            distinct.add(vlib.structural_hash([pc, case["pbvi"]]))
            j = info[i]["j"]
            for e, bi in zip(per_b, info[i]["pb_idx"]):
                qr = pb["queries"][bi]
                nn, up, leq, cross, mval, mav, greedy, wk, tl = e
                mval, wk, tl, mav = zq(mval), zq(wk), zq(tl), [zq(y) for y in mav]
                nev += 1
                counters["belief_checks"] += 1
                d = dict(base, belief=case["beliefs"][bi], sweeps=j, depth=k, impl=qr,
                         model_value=str(mval), Wopt_k=str(wk), tail_k=str(tl))
                if not nn:
                    ctx.violation("C08:harness:belief-not-nonnegative", d, found=False)
                    continue
                if not up:
                    ctx.violation("C08:pbvi:value-exceeds-optimal-value-bound", dict(d, clause="max_alpha alpha.b > Wopt(min(j,k)) b + tail: PBVI over-estimates the optimal POMDP value"), found=True)
                if not leq:
                    ctx.violation("C08:pbvi:value-exceeds-j-step-qmdp-value", dict(d, clause="max_alpha alpha.b > j-step QMDP value"), found=True)
                if not cross:
                    ctx.violation("C08:pbvi:value-exceeds-qmdp-value-plus-slack", dict(d, clause="PBVI value > QMDP value (optimal Q table) + tail(j)"), found=True)
                if not finite(qr["value"]) or abs(fr(qr["value"]) - mval) > tol:
                    ctx.violation("C08:alpha-policy:value-is-not-max-alpha-dot-belief", d, found=True)
                if any(not finite(x) for x in qr["action_values"]) or \
                        any(abs(fr(x) - y) > tol for x, y in zip(qr["action_values"], mav)):
                    ctx.violation("C08:alpha-policy:action-value-differs-from-lookahead", dict(d, model_action_values=[str(y) for y in mav]), found=True)
                if not greedy:
                    ctx.violation("C08:pbvi:action-dist-not-uniform-over-own-maximisers", d, found=True)
                # the same belief handed over in every other legal representation
                for rname, rr in qr.get("reps", {}).items():
                    counters["representation_checks"] = counters.get("representation_checks", 0) + 1
                    dr = dict(d, representation=rname, impl_representation=rr)
                    if rname == "ndarray" and "error" in rr and rr["error"].startswith("TypeError"):
                        counters["alpha_ndarray_belief_raises_TypeError"] = counters.get("alpha_ndarray_belief_raises_TypeError", 0) + 1
                        continue      # observation: isinstance(belief, (list, tuple, np.array)) is ill-typed
                    bad = "error" in rr or not finite(rr["value"]) or abs(fr(rr["value"]) - mval) > tol or \
                        any(not finite(x) for x in rr["action_values"]) or \
                        any(abs(fr(x) - y) > tol for x, y in zip(rr["action_values"], mav))
                    if not bad:
                        continue
                    if rname in ("support", "permuted"):
                        if i not in states_ignored:
                            states_ignored.add(i)
                            ctx.violation("C08:alpha-policy:belief-states-ignored",
                                          dict(dr, clause="AlphaVectorPolicy pairs the probabilities of a Belief with pomdp.state_list instead of the states the Belief carries: value/action_value of the same belief differ (or raise) when the Belief lists only its support or lists the states in another order",
                                               model_action_values=[str(y) for y in mav]), found=True)
                    elif "error" in rr:
                        ctx.violation("C08:alpha-policy:belief-representation-raises:%s:%s" % (rname, rr["error"].split(":")[0]), dr, found=True)
                    else:
                        ctx.violation("C08:alpha-policy:value-is-not-max-alpha-dot-belief", dict(dr, model_action_values=[str(y) for y in mav]), found=True)
            # fully observable, expansion budget sufficient for a successor-closed belief set (theorem
            # C08_fully_observable_pbvi applies to the clean algorithm): at EVERY vertex reachable in >= 1 step
            # from the initial support - however unlikely the branch - PBVI's value is the optimal MDP value up
            # to the slack of the configured threshold / horizon
            cfgp = case["pbvi"]
            rounds = min(int(cfgp["max_exp"]), int(cfgp["min_exp"]) + 1)
            if fullobs and rounds >= pc["n"]:
                sl_ = info[i]["order"][0]
                P0, R0, af0, in0, Ob0 = ordered_arrays(pc, info[i]["order"])
                mk0 = absorbing_mask(P0, R0, af0)
                front = [s2 for s2 in range(pc["n"]) if in0[s2] > 0]
                reach, seen = set(), set(front)
                while front:
                    s2 = front.pop()
                    for a in range(pc["nA"]):
                        for x in range(pc["n"]):
                            if P0[s2][a][x] > 0:
                                reach.add(x)
                                if x not in seen and not mk0[x]:
                                    seen.add(x)
                                    front.append(x)
                g0 = F(pc["gamma"])
                M0 = max([F(0)] + [abs(sum(P0[s2][a][x] * R0[s2][a][x] for x in range(pc["n"])))
                                   for s2 in range(pc["n"]) if not mk0[s2] for a in range(pc["nA"])])
                slack0 = max(fr(pb["last_call"]["eps"]) / (1 - g0), g0 ** info[i]["H"] * M0 / (1 - g0))
                for bi in info[i]["pb_idx"]:
                    bvec = info[i]["beliefs"][bi]
                    vs_ = [s2 for s2, x in enumerate(bvec) if F(x) == 1]
                    if not vs_ or vs_[0] not in reach:
                        continue
                    counters["fullobs_reachable_vertex_checks"] = counters.get("fullobs_reachable_vertex_checks", 0) + 1
                    got = fr(pb["queries"][bi]["value"])
                    if abs(got - info[i]["Vs"][vs_[0]]) > slack0 + tol:
                        ctx.violation("C08:fullobs:pbvi-differs-from-optimal-value-at-reachable-state",
                                      dict(base, belief=case["beliefs"][bi], pbvi_value=float(got), optimal_value=float(info[i]["Vs"][vs_[0]]),
                                           slack=float(slack0), expansion_rounds=rounds, belief_set_closed=bool(closed_coq),
                                           belief_set=[[float(fr(x)) for x in b] for b in pb["last_call"]["belief_set"]],
                                           clause="every observation reveals the state and the expansion budget (>= number of states rounds) suffices for a successor-closed belief set: at a state reachable from the initial distribution, through a branch of any positive probability, PBVI's value must equal the optimal MDP value up to max(eps/(1-gamma), gamma^H Rmax/(1-gamma))"),
                                      found=True)
                        break
            # points of the recorded belief set
            B = pb["last_call"]["belief_set"]
            closed = False
            if fullobs:
                # the theorem's hypothesis closedF, evaluated in Coq; the harness's own rational computation
                # of the same predicate must agree
                closed = bool(closed_coq)
                if closed != fullobs_closed(pc, B, info[i]["order"]):
                    ctx.violation("C08:harness:closure-predicates-disagree", dict(base, coq=closed_coq), found=False)
                counters["fullobs_closed_sets"] += int(closed)
            pts = info[i]["pts"]
            g = F(pc["gamma"])
            Hcap = info[i]["H"]
            epsf = fr(pb["last_call"]["eps"])
            P_, R_, absf_, ini_, Ob_ = ordered_arrays(pc, info[i]["order"])
            mk_ = absorbing_mask(P_, R_, absf_)
            Mabs = max([F(0)] + [abs(sum(P_[s2][a][x] * R_[s2][a][x] for x in range(pc["n"])))
                                 for s2 in range(pc["n"]) if not mk_[s2] for a in range(pc["nA"])])
            # slack implied by the CONFIGURED threshold and horizon (not by the sweeps actually run):
            # stop by the threshold -> eps/(1-gamma) (contraction on the successor-closed vertex set);
            # stop by the cap -> gamma^H Rmax/(1-gamma)
            cfg_slack = max(epsf / (1 - g), g ** Hcap * Mabs / (1 - g))
            for bi, e in enumerate(per_pt):
                up, leq, cross, fge, aval = e
                aval = zq(aval)
                nev += 1
                counters["beliefset_point_checks"] += 1
                d = dict(base, belief_set_point=[str(fr(x)) for x in pts[bi]], sweeps=j, depth=k,
                         alpha_vectors=pb["alpha_vectors"])
                vert = [s2 for s2, x in enumerate(pts[bi]) if fr(x) == 1]
                if fullobs and closed and vert:
                    counters["fullobs_vertex_threshold_checks"] = counters.get("fullobs_vertex_threshold_checks", 0) + 1
                    vstar = info[i]["Vs"][vert[0]]
                    if abs(aval - vstar) > cfg_slack + tol:
                        ctx.violation("C08:fullobs:pbvi-differs-from-optimal-value-by-more-than-threshold-slack",
                                      dict(d, pbvi_value=str(aval), optimal_value=str(vstar), slack=str(cfg_slack),
                                           float_difference=float(aval - vstar), float_slack=float(cfg_slack),
                                           clause="observations reveal the state and the belief set is closed under successors: PBVI's value at a state must be within max(eps/(1-gamma), gamma^H Rmax/(1-gamma)) of the optimal MDP value (eps = configured convergence threshold, H = planning horizon)"),
                                      found=True)
                if not up:
                    ctx.violation("C08:pbvi:value-exceeds-optimal-value-bound", dict(d, clause="at a point of the belief set actually used"), found=True)
                if not leq:
                    ctx.violation("C08:pbvi:value-exceeds-j-step-qmdp-value", d, found=True)
                if not cross:
                    ctx.violation("C08:pbvi:value-exceeds-qmdp-value-plus-slack", d, found=True)
                if fullobs and closed and not fge:
                    ctx.violation("C08:fullobs:pbvi-below-optimal-value-on-closed-belief-set", d, found=True)
        elif kind.startswith("gr:"):
            ents = info[i][kind]
            who = "pbvi" if kind == "gr:pb" else "qmdp-" + kind[5:]
            for (bi, rname, rr), okv in zip(ents, v):
                nev += 1
                if not okv and not (who == "pbvi" and rname in ("support", "permuted") and i in states_ignored):
                    ctx.violation("C08:%s:action-dist-not-uniform-over-own-maximisers" % who,
                                  dict(base, belief=case["beliefs"][bi], representation=rname, impl=rr), found=True)
        elif kind == "sw":
            nev += 1
            counters["sweep_checks"] = counters.get("sweep_checks", 0) + 1
            lc = res["pbvi"]["last_call"]
            v, delta = v
            delta = zq(delta)
            epsf = fr(lc["eps"])
            margin = info[i]["tolp"] / 1000       # 1e-12 * value scale: float rounding of the two dot products
            if not lc["returned_is_last_sweep"]:
                counters["stopping_rule_checks"] = counters.get("stopping_rule_checks", 0) + 1
                # the loop stopped on its convergence test and returned the PREVIOUS vectors:
                # the value change at every belief point must have been below the threshold
                if delta >= epsf + margin:
                    ctx.violation("C08:pbvi:stopped-although-value-change-exceeds-convergence-threshold",
                                  dict(base, last_call=lc, value_change=str(delta), float_value_change=float(delta),
                                       threshold=str(epsf), sweeps=info[i]["j"], horizon_cap=info[i]["H"],
                                       clause="point_based_value_iteration stopped before its horizon although max_b |V_new(b) - V_old(b)| over its belief points (recomputed exactly from the recorded previous and new alpha vectors) is not below value_convergence_epsilon: the slack of the returned values is no longer the one implied by the configured threshold"),
                                  found=True)
            if not v:
                ctx.violation("C08:pbvi:last-sweep-not-a-point-based-backup",
                              dict(base, last_call=lc, clause="at a point of the belief set used, an action's backed-up vector does not have the value reward + gamma * sum_o max_alpha alpha.(b T_a diag O_ao) computed from the previous alpha vectors (absorbing states zeroed), or the selected action is not maximal"),
                              found=True)
        elif kind == "mir":
            pb = res["pbvi"]
            wf, (jm, flag, close) = v
            counters["mirror_runs"] += 1
            nev += 1
            lc = pb["last_call"]
            jok = jm in (info[i]["j"], lc["iterations"])
            if close and jok:
                mirror_ok += 1
            elif flag:
                amb += 1     # near-tie between different vectors / threshold: float tie-breaking may differ
            else:
                drift += 1
                ctx.violation("C08:pbvi:mirror-differs", dict(base, mirror_sweeps=jm, impl_sweeps=info[i]["j"],
                              close=close, last_call=lc,
                              correspondence="model/PBVI.v:pbvi_run on the recorded belief set disagrees with the returned alpha vectors (no near-tie)"), found=False)
        else:
            name = kind[2:]
            qr = res["qmdp"][name]
            wf, qt_ok, per_b = v
            distinct.add(vlib.structural_hash([pc, "qmdp"]))
            Qs = info[i]["Qs"]
            if not qt_ok:
                worst = max(abs(fr(qr["Q"][s][a]) - Qs[s][a]) for s in range(pc["n"]) for a in range(pc["nA"]))
                near1 = F(pc["gamma"]) >= 1 - F(1, 10**5)
                # exact optimal table has two DIFFERENT action values of one state inside np.isclose's default band
                neartie = any(0 < abs(Qs[s2][a] - Qs[s2][b2]) <= F(1, 10**8) + F(1, 10**5) * max(abs(Qs[s2][a]), abs(Qs[s2][b2]))
                              for s2 in range(pc["n"]) for a in range(pc["nA"]) for b2 in range(a))
                # ... and the deviation is what merging those actions can produce, nothing more: only
                # UNDER-estimates, by at most 2*G/(1-gamma) (G = largest such gap) beyond the table tolerance
                gaps = [abs(Qs[s2][a] - Qs[s2][b2]) for s2 in range(pc["n"]) for a in range(pc["nA"]) for b2 in range(a)
                        if 0 < abs(Qs[s2][a] - Qs[s2][b2]) <= F(1, 10**8) + F(1, 10**5) * max(abs(Qs[s2][a]), abs(Qs[s2][b2]))]
                qtol_ = F(1, 10**8) * scale_of[i]
                explained = neartie and all(
                    -(2 * max(gaps) / (1 - F(pc["gamma"])) + qtol_) <= fr(qr["Q"][s2][a]) - Qs[s2][a] <= qtol_
                    for s2 in range(pc["n"]) for a in range(pc["nA"]))
                # PolicyIteration with other constructor parameters is the same solver: same signature family
                fam = "pi" if name == "pi_params" else name
                suffix = ":discount-within-1e-5-of-1" if (near1 and fam == "pi") else \
                    ":optimal-action-values-differ-by-less-than-isclose-band" if (explained and fam == "pi" and not near1) else ""
                ctx.violation("C08:qmdp-%s:table-is-not-the-optimal-action-values%s" % (fam, suffix),
                              dict(base, Q=qr["Q"], Q_exact=[[str(x) for x in r] for r in Qs], worst=str(worst), solver=name, solver_family=fam,
                                   signature_class_rule="suffix ':optimal-action-values-differ-by-less-than-isclose-band' is appended (solver pi only, gamma < 1-1e-5) iff the EXACT optimal table has, in some state, two different action values with |Q(s,a)-Q(s,b)| <= 1e-8 + 1e-5*max|Q| (np.isclose's default band, which policy iteration's tie test uses) AND every entry of the returned table lies in [Q* - 2G/(1-gamma) - qtol, Q* + qtol] with G the largest such gap (i.e. the deviation is an under-estimate no larger than merging those actions can cause); any other deviation keeps the plain signature; suffix ':discount-within-1e-5-of-1' is appended iff the case's discount rate gamma >= 1 - 1e-5 (here gamma = %s): the solver's tie test (np.isclose, rtol 1e-5 relative to |Q| ~ 1/(1-gamma)) cannot separate actions there; for every smaller discount the plain signature is used and is NOT covered by the known finding" % pc["gamma"]),
                              found=bool(worst > tol * 100) or bool(suffix.startswith(":optimal")))
            fullobs = bool(case.get("fullobs"))
            for e, bi in zip(per_b, info[i]["q_idx:" + name]):
                bq = qr["queries"][bi]
                low, mav, greedy, wk, tl = e
                wk, tl, mav = zq(wk), zq(tl), [zq(y) for y in mav]
                nev += 1
                counters["belief_checks"] += 1
                d = dict(base, solver=name, belief=case["beliefs"][bi], impl=bq, depth=k, Wopt_k=str(wk), tail_k=str(tl))
                if not low:
                    ctx.violation("C08:qmdp-%s:value-below-optimal-value-bound" % name, dict(d, clause="QMDP value < Wopt k b - tail k: QMDP under-estimates"), found=True)
                if any(abs(fr(x) - y) > tol * 20 for x, y in zip(bq["action_values"], mav)) and \
                        (i, name, "dense", "av") not in rep_reported:
                    rep_reported.add((i, name, "dense", "av"))      # one replay per (case, solver)
                    ctx.violation("C08:qmdp-%s:action-value-not-belief-weighted-table" % name,
                                  dict(d, model=[str(y) for y in mav], belief_kind=case["belief_kinds"][bi],
                                       clause="QMDP's action value at this belief is not sum_s b(s) Q(s,a) of its own (optimal) table"), found=True)
                if abs(fr(bq["value"]) - max(fr(x) for x in bq["action_values"])) > 0:
                    ctx.violation("C08:qmdp-%s:value-not-max-action-value" % name, d, found=True)
                if not greedy:
                    ctx.violation("C08:qmdp-%s:action-dist-not-uniform-over-own-maximisers" % name, d, found=True)
                for rname, rr in bq.get("reps", {}).items():
                    counters["representation_checks"] = counters.get("representation_checks", 0) + 1
                    dr = dict(d, representation=rname, impl_representation=rr, model=[str(y) for y in mav])
                    sig = clause = None
                    if "error" in rr:
                        sig = "C08:qmdp-%s:belief-representation-raises:%s:%s" % (name, rname, rr["error"].split(":")[0])
                    elif any(not finite(x) for x in rr["action_values"]) or \
                            any(abs(fr(x) - y) > tol * 20 for x, y in zip(rr["action_values"], mav)):
                        sig = "C08:qmdp-%s:action-value-not-belief-weighted-table" % name
                        clause = "QMDP action value of a Belief that lists only its support / lists its states in another order is not sum_s b(s) Q(s,a)"
                    elif not finite(rr["value"]) or fr(rr["value"]) != max(fr(x) for x in rr["action_values"]):
                        sig = "C08:qmdp-%s:value-not-max-action-value" % name
                    elif fr(rr["value"]) < wk - tl - tol * 20:
                        sig = "C08:qmdp-%s:value-below-optimal-value-bound" % name
                        clause = "QMDP value < Wopt k b - tail k: QMDP under-estimates"
                    if sig and (i, name, rname, sig) not in rep_reported:
                        rep_reported.add((i, name, rname, sig))   # one replay per (case, solver, representation)
                        ctx.violation(sig, dict(dr, clause=clause) if clause else dr, found=True)
                if fullobs and fr(bq["value"]) > wk + tl + tol * 20:
                    ctx.violation("C08:fullobs:qmdp-above-optimal-value", dict(d, clause="observations reveal the state: QMDP value must equal W*, but exceeds Wopt k + tail k"), found=True)

    ctx.coverage.update({
        "evaluations": nev,
        "distinct_nontrivial": len(distinct),
        "rule": "POMDPs from harness/gen_pomdp.py (2..4 states, 1..3 actions, 1..3 observations; informative / uninformative / twin / deterministic observation kernels, 20% identity kernels = fully observable; absorbing states with and without exits; rewards of either sign; gamma in {1/2,3/4,9/10} plus boundary discounts 0 (int) and 1-2^-20; variants: duplicated action (exact tie / 2^-30 gap), 2^-30 probabilities, rewards x2^10 / x2^20, rewards on absorbing self-loops, a 1-state/1-action/1-observation case; state/action/observation labels int | str (with "") | tuple (with ()) | float (with 0.0) whose sorted order differs from id order; planner objects reused after a first plan_on on the same POMDP with rewards x64; cached matrices touched before planning) x PBVI(min_exp 0..3, max_exp 1..4, eps in {1e-1,1e-2,1e-3,1,0}, horizon in {None,1,3,10}) and QMDP(ValueIteration | PolicyIteration); test beliefs = initial + exactly reachable (1-2 steps) + vertices/faces/grid points, plus up to 6 points of the belief set PBVI actually used; distinct = structural hash of (POMDP, configuration); non-trivial = at least one non-absorbing state (all generated cases)",
        "samples": [{"case": cases[0], "impl": impl[0]}] if cases else [],
        "variants": variant_counts, "input_features": dict(variant_counts, **feats),
        "cases": len(cases), "mirror_accepts": mirror_ok, "mirror_ambiguous_near_tie": amb, "mirror_drift": drift,
        **counters,
    })


def fullobs_closed(pc, B, order):
    """every positive-probability successor vertex (masked dynamics) of every point of B is in B"""
    P, R, absf, ini, Ob = ordered_arrays(pc, order)
    n, nA = pc["n"], pc["nA"]
    masked = absorbing_mask(P, R, absf)
    Bf = [[fr(x) for x in b] for b in B]
    verts = set()
    for b in Bf:
        nz = [s for s in range(n) if b[s] != 0]
        if len(nz) == 1 and b[nz[0]] == 1:
            verts.add(nz[0])
    for b in Bf:
        for a in range(nA):
            for ns in range(n):
                if sum(b[s] * P[s][a][ns] for s in range(n) if not masked[s]) > 0 and ns not in verts:
                    return False
    return True
