"""C12 — tables index like nested dictionaries over their field domains.

Correspondence: generated tables (1-3 fields, domains of 1-4 mixed hashables drawn from a pool built
to collide under Python ==) and selector chains -> msdm (harness/impl/c12_impl.py: Table,
ProbabilityTable, StateTable, StateActionTable, StateActionNextStateTable, TabularPolicy through
__getitem__, get, keys, items, len, action_dist) -> compared EXACTLY with the Gallina mirror
model/Table.v (run_case, evaluated by vm_compute): result kind, class, field names, domains,
data (cells are distinct integers), row-distribution probabilities, or the error class.
Independently of the model, the clauses of the property are evaluated directly on msdm's output
for the selector families the property speaks about (property oracle below).
"""
import itertools
import struct
from fractions import Fraction
import vlib
from vlib import coqlist

INFO = {
    "level": "proof",
    "coq_files": ["model/Table.v", "model/PyVal.v"],
    "trusted_base": [
        "model/PyVal.v pyeq is Python == on the generated universe (int/bool/float/str/None/tuple/domaintuple/list/frozenset/slice/Ellipsis); hash consistent with ==",
        "model/Table.v np_get is numpy's ndarray.__getitem__ for integers, full slices and at most one integer sequence",
        "theorems are about the very functions vm_compute runs (discrete property, no transfer)",
    ],
    "assumptions": ["table cells are pairwise distinct integers (np.arange), so a wrong cell cannot coincide with the right one",
                    "domains are duplicate-free under == (Table._validate_table rejects others at construction)"],
}

PRE = """From Coq Require Import ZArith List Bool String.
From MSDM Require Import model.PyVal model.Table.
Import ListNotations.
Open Scope string_scope.
Open Scope Z_scope.
Definition data_table (c : cls) (fs : list (pv * list pv * domkind)) (d : list Z) : table :=
  let ix := map (fun p => mkField (fst (fst p)) (snd (fst p)) (snd p)) fs in
  mkTable c ix (fun ixs => nth (ravel (shape_of ix) ixs 0%nat) d 0).
Definition ctor_valid (fs : list (pv * list pv)) : bool :=
  let ix := map (fun p => mkField (fst p) (snd p) DKDom) fs in validate (shape_of ix) ix.
"""


# ---------------------------------------------------------------------------------------------
# Python values <-> tagged JSON <-> Gallina
# ---------------------------------------------------------------------------------------------
class DT(tuple):
    """stands for msdm's domaintuple on the harness side"""
    pass


def enc(x):
    if isinstance(x, bool): return ["b", x]
    if isinstance(x, int): return ["i", x]
    if isinstance(x, float):
        n, d = x.as_integer_ratio()
        return ["f", n, d]
    if isinstance(x, str): return ["s", x]
    if x is None: return ["n"]
    if x is Ellipsis: return ["e"]
    if isinstance(x, slice): return ["sl", x == slice(None)]
    if isinstance(x, DT): return ["dt", [enc(e) for e in x]]
    if isinstance(x, tuple): return ["t", [enc(e) for e in x]]
    if isinstance(x, list): return ["l", [enc(e) for e in x]]
    if isinstance(x, frozenset): return ["fs", sorted((enc(e) for e in x), key=repr)]
    raise TypeError(x)


def dec(v):
    t = v[0]
    if t == "i": return int(v[1])
    if t == "b": return bool(v[1])
    if t == "f": return v[1] / v[2]
    if t == "s": return v[1]
    if t == "n": return None
    if t == "e": return Ellipsis
    if t == "sl": return slice(None) if v[1] else slice(0, 1)
    if t == "t": return tuple(dec(x) for x in v[1])
    if t == "dt": return DT(dec(x) for x in v[1])
    if t == "l": return [dec(x) for x in v[1]]
    if t == "fs": return frozenset(dec(x) for x in v[1])
    raise ValueError(v)


def gal(v):
    """tagged JSON -> Gallina pv term"""
    t = v[0]
    if t == "i": return "(PInt (%d))" % v[1]
    if t == "b": return "(PBool %s)" % ("true" if v[1] else "false")
    if t == "f": return "(PFloat (%d) %d%%positive)" % (v[1], v[2])
    if t == "s": return "(PStr %s)" % ('"' + v[1].replace('"', '""') + '"')
    if t == "n": return "PNone"
    if t == "e": return "PEllipsis"
    if t == "sl": return "(PSlice %s)" % ("true" if v[1] else "false")
    ctor = {"t": "PTuple", "dt": "PDomTuple", "l": "PList", "fs": "PFrozenset"}[t]
    return "(%s %s)" % (ctor, coqlist(gal(x) for x in v[1]))


def ctor(x):
    """name and args of a parsed Coq constructor application (both shapes vlib produces)"""
    if isinstance(x, tuple) and len(x) == 2 and x[0] == "@":
        return x[1], ()
    if isinstance(x, tuple) and x and isinstance(x[0], str):
        return x[0], x[1:]
    raise vlib.CoqError("not a constructor: %r" % (x,))


def pv_of(x):
    """parsed Coq pv -> tagged JSON"""
    c, a = ctor(x)
    if c == "PInt": return ["i", a[0]]
    if c == "PBool": return ["b", a[0]]
    if c == "PFloat": return ["f", a[0], a[1]]
    if c == "PStr": return ["s", a[0]]
    if c == "PNone": return ["n"]
    if c == "PEllipsis": return ["e"]
    if c == "PSlice": return ["sl", a[0]]
    tag = {"PTuple": "t", "PDomTuple": "dt", "PList": "l", "PFrozenset": "fs"}[c]
    items = [pv_of(e) for e in a[0]]
    if tag == "fs":
        items = sorted(items, key=repr)
    return [tag, items]


CLS2COQ = {"Table": "CTable", "ProbabilityTable": "CProb", "TableDistribution": "CDist", "StateTable": "CState",
           "StateActionTable": "CStateAction", "StateActionNextStateTable": "CSAN", "TabularPolicy": "CPolicy"}
COQ2CLS = {v: k for k, v in CLS2COQ.items()}
CLS2COQ["StateNextStateTable"] = "CStateAction"     # same __getitem__ (StateTable's); the model keeps no separate tag
ERR2PY = {"EKey": "KeyError", "EIndex": "IndexError", "EIndexSize": "IndexSizeError", "EMultiple": "MultipleIndexError",
          "ESlice": "SliceError", "EDomain": "DomainError", "EValue": "ValueError", "EAssert": "AssertionError",
          "EType": "TypeError", "EStateAction": "StateActionIndexError"}
STATE_CLS = ("StateTable", "StateActionTable", "StateActionNextStateTable", "TabularPolicy", "StateNextStateTable")
PROB_CLS = ("ProbabilityTable", "TabularPolicy")


def obs_of(x, sns=False):
    """parsed Coq obs -> the JSON shape the impl runner emits (first 6 components for tables)"""
    c, a = ctor(x)
    if c == "OSelf": return ["self"]
    if c == "OScalar": return ["scalar", a[0]]
    if c == "OErr": return ["err", ERR2PY[ctor(a[0])[0]]]
    if c == "ODefault": return ["default"]
    if c == "OEarly": return ["early"]
    if c == "OTable":
        cn = COQ2CLS[ctor(a[0])[0]]
        if sns and cn == "StateActionTable":
            cn = "StateNextStateTable"
        return ["table", cn, [pv_of(n) for n in a[1]], [[pv_of(e) for e in d] for d in a[2]],
                list(a[3]), [obs_of(p, sns) for p in a[4]],
                [{"DKDom": "domaintuple", "DKTuple": "tuple", "DKList": "list"}[ctor(k)[0]] for k in a[5]],
                [pv_of(k) for k in a[6]], a[7]]
    raise vlib.CoqError("unknown obs %r" % (x,))


# ---------------------------------------------------------------------------------------------
# generator
# ---------------------------------------------------------------------------------------------
POOL = [0, 1, 2, -1, -2, 2 ** 61 - 1, True, False, 1.0, 0.0, 2.0, 0.5, "1", "a", "b", "", None,
        (1,), (1, 2), ("a",), (), (1.0, 2), (True,), ((1,),), ("a", "b"), (None,), (1, "a"), (0, 1), ("a", 1),
        (1, 2, "a"), ("a", "b", "a"),
        frozenset({1}), frozenset(), frozenset({1, 2}), frozenset({"a"}), frozenset({(1,)})]
ALIASES = {0: [False, 0.0], 1: [True, 1.0], 2: [2.0]}


def is_scalar_key(x):
    return not isinstance(x, (tuple, list, slice)) and x is not Ellipsis


def alias(rng, x):
    """a value == x but of another type where one exists (recursively inside tuples)"""
    if isinstance(x, (bool, int, float)) and x in ALIASES:
        opts = [a for a in ALIASES[x] + [int(x)] if type(a) is not type(x)]
        return rng.choice(opts)
    if isinstance(x, tuple) and x:
        return type(x)(alias(rng, e) for e in x)
    return x


def draw_domain(rng, theme, size):
    dom = []
    for _ in range(40):
        if len(dom) >= size:
            break
        x = rng.choice(theme)
        if x not in dom:
            dom.append(x)
    return dom


def f32(x):
    """the float32 nearest to x, as a double (what np.float32(x) holds)"""
    return struct.unpack("f", struct.pack("f", x))[0]


TINY = [2.0 ** -27, 2.0 ** -30, 2.0 ** -40, 2.0 ** -53, 2.0 ** -60]
NONDYADIC = {1: [[1.0]],
             2: [[1 / 3, 2 / 3], [0.1, 0.9], [0.7, 0.3]],
             3: [[0.7, 0.2, 0.1], [1 / 3, 1 / 3, 1 / 3], [1 / 7, 2 / 7, 4 / 7], [0.1, 0.1, 0.8]],
             4: [[0.1, 0.2, 0.3, 0.4], [0.1, 0.1, 0.1, 0.7], [1 / 7, 1 / 7, 2 / 7, 3 / 7], [0.3, 0.3, 0.3, 0.1]]}


def gen_row(rng, L, kind):
    """one row of a probability table as doubles: tiny positive entries (below np.isclose's atol) next to exact zeros,
    non-dyadic entries whose float sum is not exactly 1, one-hot rows, rows whose mass is off 1 by 1e-7 .. 1e-4"""
    if L > 4:
        return [1.0 / L] * L
    if kind == "det" or L == 1:
        row = [0.0] * L
        row[rng.randrange(L)] = 1.0
        return row
    if kind == "tiny":
        row = [0.0] * L
        idx = rng.sample(range(L), L)
        row[idx[0]] = 1.0 - rng.choice(TINY)
        row[idx[1]] = rng.choice(TINY)
        if L >= 3 and rng.random() < .5:
            row[idx[2]] = rng.choice(TINY)
        return row
    row = list(rng.choice(NONDYADIC[L]))
    rng.shuffle(row)
    if kind == "off":
        f = rng.choice([1 + 1e-6, 1 - 1e-7, 1 + 1e-4, 1 - 1e-9])
        row = [x * f for x in row]
    return row


def gen_objs(rng, size):
    """cells of an object-dtype table (tagged values, one per cell id, pairwise distinct): mostly containers - a cell that is
    itself a tuple / list / frozenset must come back as that very object, not be taken for an array"""
    out, once = [], {"none": False, "empty_t": False, "empty_l": False}
    for k in range(size):
        r = rng.random()
        if r < .3:
            v = ["t", [["i", k], ["i", 0]]]
        elif r < .45:
            v = ["l", [["i", k]]]
        elif r < .55:
            v = ["t", [["t", [["i", k]]], ["s", "a"]]]
        elif r < .65:
            v = ["fs", [["i", k]]]
        elif r < .7 and not once["none"]:
            v, once["none"] = ["n"], True
        elif r < .75 and not once["empty_t"]:
            v, once["empty_t"] = ["t", []], True
        elif r < .8 and not once["empty_l"]:
            v, once["empty_l"] = ["l", []], True
        elif r < .9:
            v = ["s", "c%d" % k]
        else:
            v = ["l", [["i", k], ["t", [["i", 1], ["i", 0]]]]]
        out.append(v)
    return out


def gen_vals(rng, cls, doms, data, dtype):
    """real numbers for the cells (vals[id] is the number of the cell whose id is `id`)"""
    size = len(data)
    L = len(doms[-1])
    pos = []
    if dtype == "probint":
        kinds = ["det"]
    elif cls in PROB_CLS:
        kinds = [rng.choice(["tiny", "tiny", "nondyadic", "nondyadic", "off", "det"]) for _ in range(size // L)]
    else:
        kinds = None
    if kinds is not None:
        for r in range(size // L):
            pos += gen_row(rng, L, kinds[r % len(kinds)])
        if dtype == "probint":
            pos = [int(x) for x in pos]
    else:
        # value tables: large magnitudes with relative gaps of 1e-6 between distinct cells, some tiny / zero / negative
        base = rng.choice([1e3, 1e6, 1e9])
        order = rng.sample(range(size), size)
        pos = [base * (1 + k * 1e-6) * rng.choice([1, 1, -1]) for k in order]
        for j in rng.sample(range(size), min(size, 2)):
            pos[j] = rng.choice([0.0, 2.0 ** -60, 1e-300, 0.1, 1 / 3])
    vals = [None] * size
    for p_, k in enumerate(data):
        vals[k] = pos[p_]
    return [v.hex() if isinstance(v, float) else v for v in vals]


def gen_table(rng, outer_size=None):
    cls = rng.choice(["Table", "Table", "ProbabilityTable", "ProbabilityTable", "StateTable", "StateActionTable",
                      "StateActionNextStateTable", "TabularPolicy", "TabularPolicy", "StateNextStateTable"])
    n = {"StateTable": 1, "StateActionTable": 2, "TabularPolicy": 2, "StateActionNextStateTable": 3,
         "StateNextStateTable": 2}.get(cls) or rng.choice([1, 2, 2, 3, 3])
    theme = rng.sample(POOL, rng.choice([5, 7, 9, 12]) if outer_size is None else 14)
    doms = [draw_domain(rng, theme, rng.randint(1, 4)) for _ in range(n)]
    if outer_size is not None:
        doms[0] = draw_domain(rng, theme, outer_size)
        while len(doms[0]) < outer_size:       # theme exhausted by ==-collisions: top up with fresh values
            doms[0].append("k%d" % len(doms[0]))
        doms[1:] = [d[:2] for d in doms[1:]]
    # collisions: put into the outermost domain a tuple that is also a field-wise key / a whole domain / a subset
    r = rng.random()
    cand = None
    if n >= 2 and r < .35:
        m = rng.randint(2, n) if rng.random() < .7 else n
        cand = tuple(rng.choice(d) for d in doms[:m])
    elif r < .45:
        cand = tuple(doms[rng.randrange(n)])
    elif r < .55:
        cand = tuple(rng.sample(doms[0], rng.randint(1, len(doms[0]))))
    elif r < .6:
        cand = (rng.choice(doms[0]),)
    if cand is not None and cand not in doms[0] and outer_size is None:
        if len(doms[0]) < 4:
            doms[0].insert(rng.randrange(len(doms[0]) + 1), cand)
        else:
            doms[0][rng.randrange(4)] = cand
    if n >= 2 and rng.random() < .15:
        c2 = tuple(rng.sample(doms[1], rng.randint(1, len(doms[1]))))
        if c2 not in doms[1] and len(doms[1]) < 4:
            doms[1].append(c2)
    if outer_size is None:
        r = rng.random()
        if r < .08:                                     # one state, one action, one everything
            doms = [d[:1] for d in doms]
        elif r < .2 and n >= 2:                         # as many actions as states
            m = max(2, min(len(doms[0]), len(doms[1])))
            if len(doms[0]) >= m and len(doms[1]) >= m:
                doms[0], doms[1] = doms[0][:m], doms[1][:m]
        elif r < .28 and n >= 2 and cls in ("Table", "ProbabilityTable"):
            doms[1] = list(doms[0])                     # the same sequence (and, in the runner, the same object) twice
    if cls == "StateActionNextStateTable":
        doms[2] = list(doms[0])
    if cls == "StateNextStateTable":
        doms[1] = list(doms[0])
    if cls in STATE_CLS:
        names = ["state", "next_state"] if cls == "StateNextStateTable" else ["state", "action", "next_state"][:n]
    else:
        names = rng.choice([["f0", "f1", "f2"], ["a", "b", "c"], ["x", "x", "y"], [0, 1, 2], ["", 0, False]])[:n]
    # representation of the same table on the way in: how the domains are passed, which constructor,
    # integer or float cells, and whether the objects were already used by another table (caches)
    rep = {"doms_as": rng.choice(["list", "tuple", "domaintuple"]), "dtype": rng.choice(["int", "int", "float"]),
           "reuse": rng.random() < .3, "ctor": "default", "share_doms": True}
    r = rng.random()
    if r < .3:      # numpy array + TableIndex(fields=[Field(name, domain)]): the caller's containers are kept
        rep["ctor"] = "fields"
    elif cls in ("StateTable", "StateActionTable", "TabularPolicy") and r < .55:
        rep["ctor"] = "from_dict"
        if n == 2:
            rep["dtype"] = "float"          # StateActionTable.from_dict fills a float array
    elif cls in STATE_CLS and r < .7:
        rep["ctor"] = "listdata"
    size = 1
    for d in doms:
        size *= len(d)
    data = list(range(size))
    if rng.random() < .5:
        rng.shuffle(data)                   # distinct cells that are NOT the row-major position
    case = {"cls": cls, "names": [enc(x) for x in names], "doms": [[enc(x) for x in d] for d in doms],
            "rep": rep, "data": data}
    if rep["ctor"] == "fields":
        case["kinds"] = [rng.choice(["dt", "t", "t", "l", "l"]) for _ in doms]
    rep["table_obs"] = rng.choice(["before", "after"])     # parent's keys/len/items taken before or after the selections
    if rep["ctor"] in ("default", "fields") and rng.random() < .25:
        rep["dtype"] = "object"                             # cells are Python objects (tuples, lists, frozensets, None, str)
        case["vals"] = gen_objs(rng, size)
    elif rng.random() < (.65 if cls in PROB_CLS else .3):
        # cells are real numbers (probability rows / large values), compared bit-exactly
        rep["dtype"] = "prob64" if (rep["ctor"] == "from_dict" and n == 2) else rng.choice(["prob64", "prob64", "prob64", "prob32", "prob32", "probint"])
        case["vals"] = gen_vals(rng, cls, doms, data, rep["dtype"])
        if rep["dtype"] == "probint" and cls not in PROB_CLS:
            case["vals"] = [int(float.fromhex(v)) if isinstance(v, str) else v for v in case["vals"]]
    if rep["ctor"] == "from_dict" and n == 2 and rng.random() < .5:
        # some (state, action) pairs absent from the dict (filled with default_value), every action present once
        pairs = [(i, j) for i in range(len(doms[0])) for j in range(len(doms[1]))]
        miss = [pq for pq in pairs if rng.random() < .3]
        for j in range(len(doms[1])):
            if all((i, j) in miss for i in range(len(doms[0]))):
                miss.remove((0, j))
        case["missing"] = [list(m) for m in miss]
    # a variant of the domains that Table._validate_table must reject: an ==-duplicate in one domain
    fi = rng.randrange(n)
    x = doms[fi][rng.randrange(len(doms[fi]))]
    bad = [list(d) for d in doms]
    bad[fi] = bad[fi] + [alias(rng, x)]
    case["ctor_dup"] = [[enc(e) for e in d] for d in bad]
    return case


def foreign_for(rng, dom, scalar=True):
    opts = [x for x in POOL + ["zz", 7, 3.5, frozenset({7})] if x not in dom and (is_scalar_key(x) or not scalar)]
    return rng.choice(opts)


def selector_families(rng, doms, thorough):
    """-> list of (family, chain) ; chain = list of Python selectors applied one after the other"""
    n = len(doms)
    out = []
    prods = list(itertools.product(*doms))
    if len(prods) > (64 if thorough else 10):
        prods = rng.sample(prods, 64 if thorough else 10)
    for k in prods:
        out.append(("full", [tuple(k)]))
        out.append(("nested", [x for x in k]))
        if rng.random() < .4:
            out.append(("full", [tuple(alias(rng, x) for x in k)]))
        if rng.random() < .3:
            out.append(("nested", [alias(rng, x) for x in k]))
        if rng.random() < .3:
            out.append(("ext", [DT(k)]))
        if rng.random() < .15:
            out.append(("ext", [list(k)]))
        if n >= 2 and rng.random() < .5:
            m = rng.randint(1, n - 1)
            out.append(("full", [tuple(k[:m])]))
            out.append(("nested", list(k[:m])))
            out.append(("ext", [tuple(k[:m]), tuple(k[m:])]))
    for k in doms[0]:
        out.append(("outer", [k]))
        a = alias(rng, k)
        if enc(a) != enc(k):
            out.append(("outer", [a]))
        if isinstance(k, tuple):
            out.append(("ext", [DT(k)]))
            out.append(("ext", [list(k)]))
    # lists of outer keys
    d0 = doms[0]
    for _ in range(6 if thorough else 3):
        sub = rng.sample(d0, rng.randint(1, len(d0)))
        out.append(("outer_list", [list(sub)]))
        if rng.random() < .5:
            out.append(("outer_list", [[alias(rng, x) for x in sub]]))
        if rng.random() < .5:
            out.append(("ext", [list(sub), rng.choice(sub)] + ([rng.choice(doms[1])] if n >= 2 and rng.random() < .5 else [])))
        if rng.random() < .4:
            out.append(("ext", [DT(sub)]))
        if rng.random() < .4:
            out.append(("ext", [tuple(sub)]))
        if rng.random() < .3:
            out.append(("ext", [(list(sub),)]))
    out.append(("outer_list", [list(d0)]))
    out.append(("ext", [[]]))
    out.append(("ext", [()]))
    out.append(("ext", [[d0[0], d0[0]]]))
    out.append(("foreign_list", [[d0[0], foreign_for(rng, d0)]]))
    out.append(("foreign_list", [[foreign_for(rng, d0)]]))
    out.append(("ext", [[list(d0[:1])]]))
    # foreign keys
    for _ in range(6 if thorough else 3):
        out.append(("foreign_scalar", [foreign_for(rng, d0)]))
        k = list(rng.choice(list(itertools.product(*doms))))
        i = rng.randrange(n)
        k[i] = foreign_for(rng, doms[i])
        out.append(("foreign_tuple", [tuple(k)]))
        out.append(("ext", [DT(k)]))
        if i > 0:
            out.append(("foreign_nested", k[:i + 1]))
        k2 = list(rng.choice(list(itertools.product(*doms))))
        out.append(("ext", [tuple(k2 + [rng.choice(k2)])]))                     # too many
        out.append(("ext", [tuple(k2 + [foreign_for(rng, d0, scalar=False)])]))
        out.append(("ext", [foreign_for(rng, d0, scalar=False)]))
    # slices and ellipses
    S, E, B = slice(None), Ellipsis, slice(0, 1)
    k = [rng.choice(d) for d in doms]
    sl = [[S], [E], [(S,)], [[S]], [[E]], [(E,)], [B], [(B,)], [[B]], [(E, E)], [[E, E]], [[S, S]],
          [DT((S,))], [DT((E,))], [DT((B,))], [DT((S, S))], [DT((E, k[0]))],
          [(tuple(doms[0]),)], [(DT(doms[0]),)], [(list(doms[0]),)], [(k[0], []), S], [(k[0], []), k[-1]], [([],)], [([],), k[0]], [(k[0], E)], [(E, k[-1])], [(k[0], E, E)], [(S,) * n], [(S,) * (n + 1)],
          [tuple(k) + (E,)], [(E,) + tuple(k)], [tuple(k) + (E, k[0])], [(k[0], B)], [(B, k[0])],
          [S, k[0]], [E, E, k[0]], [(S,), tuple(k)], [[E], [k[0]]]]
    if n >= 2:
        sl += [[(S, k[1])], [(k[0], S)], [(E, k[1])], [(S, k[1]), k[0]], [(k[0], S), k[1]], [(S, S)], [(S, E)], [(E, S)],
               [(k[0], E, k[-1])], [(S, B)], [(k[0], k[1], S)]]
    if n >= 2:      # MultipleIndexError: two sequences / whole-domain tuples
        sl += [[(tuple(doms[0]), tuple(doms[1]))], [([k[0]], [k[1]])], [(tuple(doms[0]), [k[1]])], [([k[0]], DT(doms[1]))],
               [(k[0], []), k[1]], [(S, []), k[0]]]
    if n >= 3:
        sl += [[(k[0], S, k[2])], [(S, k[1], S)], [(S, S, k[2])], [(k[0], E, k[2])], [(E, k[1], k[2])], [(S, E, k[2])],
               [(k[0], S, k[2]), k[1]], [(S, S, k[2]), k[0], k[1]]]
    for ch in (sl if thorough else rng.sample(sl, min(len(sl), 12))):
        out.append(("ext", ch))
    # sequences inside tuples (subsets of inner domains), whole-domain tuples, several sequences
    for _ in range(8 if thorough else 3):
        i = rng.randrange(n)
        sub = rng.sample(doms[i], rng.randint(0, len(doms[i])))
        kind = rng.choice([list, list, tuple, DT])
        key = [rng.choice(d) for d in doms]
        key[i] = kind(sub)
        m = rng.randint(i + 1, n)
        key = key[:m]
        for j in range(len(key)):
            if j != i and rng.random() < .3:
                key[j] = rng.choice([S, S, tuple(doms[j]), DT(doms[j]), list(doms[j])])
        out.append(("ext", [tuple(key)]))
        if rng.random() < .3:
            out.append(("ext", [DT(key)]))
        if rng.random() < .4:
            rest = [rng.choice(doms[j]) for j in range(n) if j >= len(key) or not is_scalar_key(key[j])]
            out.append(("ext", [tuple(key)] + rest[:rng.randint(1, max(1, len(rest)))]))
    if n >= 3:
        sub = rng.sample(doms[2], rng.randint(1, len(doms[2])))
        out.append(("ext", [(rng.choice(doms[0]), S, list(sub))]))       # numpy moves the broadcast axis first
        out.append(("ext", [(rng.choice(doms[0]), E, list(sub))]))
        out.append(("ext", [(list(rng.sample(doms[0], 1)), S, rng.choice(doms[2]))]))
    # junk: random compositions
    def junk(depth):
        r = rng.random()
        if depth == 0 or r < .45:
            return rng.choice(rng.choice(doms)) if rng.random() < .7 else rng.choice(POOL + [S, E, B])
        kind = rng.choice([tuple, tuple, list, DT])
        return kind(junk(depth - 1) for _ in range(rng.randint(0, 4)))
    for _ in range(30 if thorough else 6):
        out.append(("ext", [junk(2) for _ in range(rng.choice([1, 1, 1, 2, 3]))]))
    return out


def gen_perm_case(rng, size):
    """outer domain of `size` (4 or 5) with ALL duplicate-free ordered lists of outer keys of length 3 and 4
    (size 4: also lengths 1, 2 = all 64 lists): non-monotone partial key lists need >= 4 outer keys"""
    t = gen_table(rng, outer_size=size)
    d0 = [dec(e) for e in t["doms"][0]]
    fams = []
    for m in ((1, 2, 3, 4) if size == 4 else (3, 4)):
        for perm in itertools.permutations(range(size), m):
            ks = [d0[p] for p in perm]
            fams.append(("outer_list", [ks]))
    # a few of them with ==-aliases, and followed by a key of the restricted table
    for _ in range(8):
        perm = rng.sample(range(size), rng.choice([3, 4]))
        ks = [d0[p] for p in perm]
        fams.append(("outer_list", [[alias(rng, k) for k in ks]]))
        fams.append(("ext", [ks, rng.choice(ks)]))
    t["chains"] = [[enc(s) for s in ch] for _, ch in fams]
    t["fams"] = [f for f, _ in fams]
    return t


def gen_case(rng, tier):
    thorough = tier == "thorough"
    t = gen_table(rng)
    doms = [[dec(e) for e in d] for d in t["doms"]]
    fams = selector_families(rng, doms, thorough)
    if not thorough and len(fams) > 26:
        keep = {}
        for f, ch in fams:
            keep.setdefault(f, []).append(ch)
        sel = []
        for f, chs in keep.items():
            q = {"ext": 14, "full": 5, "nested": 3}.get(f, 2)
            sel += [(f, ch) for ch in (rng.sample(chs, q) if len(chs) > q else chs)]
        fams = sel
    t["chains"] = [[enc(s) for s in ch] for _, ch in fams]
    t["fams"] = [f for f, _ in fams]
    return t


# ---------------------------------------------------------------------------------------------
# property oracle (independent of the Coq model; real Python == on the harness side)
# ---------------------------------------------------------------------------------------------
def cell(shape, ps):
    acc = 0
    for d, p in zip(shape, ps):
        acc = acc * d + p
    return acc


def expected_prefix(case, names, ps):
    """what selecting positions ps of the first len(ps) fields must give: scalar or the sub-table"""
    doms = case["doms"]
    shape = [len(d) for d in doms]
    m = len(ps)
    if m == len(doms):
        return ["scalar", case["data"][cell(shape, ps)]]
    rest = [range(s) for s in shape[m:]]
    data = [case["data"][cell(shape, list(ps) + list(r))] for r in itertools.product(*rest)]
    cls = case["cls"]
    probs = []
    if cls in PROB_CLS and len(doms) - m == 1:
        cls = "TableDistribution"
        probs = [["scalar", x] for x in data]
    return ["table", cls, names[m:], doms[m:], data, probs]


def same_result(exp, got):
    if exp[0] != got[0]:
        return False
    if exp[0] == "scalar":
        return exp[1] == got[1]
    return exp[1:6] == got[1:6]


def dist_clause(got):
    """a TableDistribution's events / probabilities are its domain / entries"""
    if got[0] != "table" or got[1] != "TableDistribution":
        return None
    extra, dom, data = got[6], got[3][0], got[4]
    if extra.get("support") != dom:
        return "row distribution: support is not the row's domain"
    if got[5] != [["scalar", x] for x in data]:
        return "row distribution: prob(event) is not the row's entry"
    if extra.get("items") != [[k, ["scalar", x]] for k, x in zip(dom, data)] or extra.get("len") != len(dom):
        return "row distribution: items/len disagree with the row"
    if extra.get("prob_foreign") != 0.0:
        return "row distribution: a foreign event has non-zero probability"
    return None


def subtable_clause(got):
    """a RETURNED table is a table: its keys / len / items run over its own outermost domain, items pairing the j-th key
    with the j-th slice of its own data (judged on what the returned table itself reports; independent of the model)"""
    if got[0] != "table":
        return None
    cls, names, doms, data, meta = got[1], got[2], got[3], got[4], got[7]
    if meta.get("keys") != doms[0] or meta.get("len") != len(doms[0]):
        return "keys/len of a returned sub-table are not its outermost domain"
    n0 = len(doms[0])
    stride = len(data) // n0 if n0 else 0
    exp = []
    for j in range(n0):
        if len(doms) == 1:
            exp.append([doms[0][j], ["scalar", data[j]]])
        else:
            c = "TableDistribution" if (cls in PROB_CLS and len(doms) == 2) else cls
            exp.append([doms[0][j], ["table", c, names[1:], doms[1:], data[j * stride:(j + 1) * stride]]])
    if meta.get("items") != exp:
        return "items of a returned sub-table do not pair its outer keys with its rows"
    return None


def oracle_chain(case, names, fam, chain, out):
    """-> None (clause holds / family has no clause) or the text of the violated clause"""
    doms = [[dec(e) for e in d] for d in case["doms"]]
    n = len(doms)
    steps = out["steps"]
    last = steps[-1]
    state = case["cls"] in STATE_CLS
    sels = [dec(s) for s in chain]

    def positions(keys):
        return [doms[i].index(k) for i, k in enumerate(keys)]

    if fam == "full":
        ks = sels[0]
        if ks in doms[0]:          # the key is itself an element of the outermost domain: that element
            exp = expected_prefix(case, names, [doms[0].index(ks)])
            what = "a key that is an element of the outermost domain does not select that element"
        else:
            exp = expected_prefix(case, names, positions(ks))
            what = "indexing with one key per field does not return the cell at the keys' positions"
        if not same_result(exp, last):
            return what
        return dist_clause(last)
    if fam == "outer":
        exp = expected_prefix(case, names, [doms[0].index(sels[0])])
        if not same_result(exp, last):
            return "a key that is an element of the outermost domain does not select that element"
        if "action_dist" in out and not same_result(exp, out["action_dist"]):
            return "action_dist(s) is not the policy's row for s"
        if not same_result(exp, out["get"]):
            return "get(key) differs from table[key] for a key of the outermost domain"
        return dist_clause(last)
    if fam == "nested":
        ps = positions(sels)
        for j in range(len(sels)):
            if len(steps) <= j:
                return "nested single-field indexing stops early"
            exp = expected_prefix(case, names, ps[:j + 1])
            if not same_result(exp, steps[j]):
                return "nested single-field indexing does not give the same cell / sub-table as the full key"
            c = dist_clause(steps[j])
            if c:
                return c
        return None
    if fam == "outer_list":
        ks = sels[0]
        ps = [doms[0].index(k) for k in ks]
        shape = [len(d) for d in doms]
        rest = [range(s) for s in shape[1:]]
        data = [case["data"][cell(shape, [p] + list(r))] for p in ps for r in itertools.product(*rest)]
        ndoms = [[case["doms"][0][p] for p in ps]] + case["doms"][1:]
        cls = "TableDistribution" if (case["cls"] in PROB_CLS and n == 1) else case["cls"]
        if last[0] == "self":       # the whole table: only right if the list is the whole domain in order
            ok = ps == list(range(len(doms[0])))
        else:
            ok = last[0] == "table" and last[1] == cls and last[2] == names and last[4] == data and \
                [[dec(e) for e in d] for d in last[3]] == [[dec(e) for e in d] for d in ndoms] and \
                [enc(doms[0][p]) for p in ps] == last[3][0]
        return None if ok else "a list of outer keys does not return the sub-table restricted to those keys in the given order"
    if fam in ("foreign_scalar", "foreign_tuple", "foreign_nested", "foreign_list"):
        if fam == "foreign_tuple" and sels[0] in doms[0]:
            return None
        if last[0] != "err":
            return "a key outside the domain returns a value instead of raising"
        on_dist = fam == "foreign_nested" and case["cls"] in PROB_CLS and len(sels) == n   # last step indexes a row distribution
        if state and not on_dist and last[1] != "StateActionIndexError":
            return "a key outside the domain of an MDP table raises %s, not the state/action index error" % last[1]
        if fam != "foreign_nested" and out["get"][0] not in ("err", "default"):
            return "get(foreign key) returns a value"
        return None
    return None


def oracle_table(case, names, res):
    doms = case["doms"]
    if res["keys"] != doms[0] or res["iter"] != doms[0] or res["item_keys"] != doms[0]:
        return "keys/items/iteration do not run over the outermost domain in order"
    if res["len"] != len(doms[0]):
        return "len is not the size of the outermost domain"
    for j in range(len(doms[0])):
        exp = expected_prefix(case, names, [j])
        if j >= len(res["items"]) or j >= len(res["values"]) or not same_result(exp, res["items"][j]) or not same_result(exp, res["values"][j]):
            return "items/values do not pair each outer key with table[key]"
        c = dist_clause(res["items"][j])
        if c:
            return c
    return None


# ---------------------------------------------------------------------------------------------
def case_term(case, names):
    kinds = case.get("kinds") if case.get("rep", {}).get("ctor") == "fields" else None
    kinds = kinds or ["dt"] * len(case["doms"])
    fs = coqlist("(%s, %s, %s)" % (gal(nm), coqlist(gal(e) for e in d), {"dt": "DKDom", "t": "DKTuple", "l": "DKList"}[k])
                 for nm, d, k in zip(names, case["doms"], kinds))
    chains = coqlist(coqlist(gal(s) for s in ch) for ch in case["chains"])
    dup = coqlist("(%s, %s)" % (gal(["i", i]), coqlist(gal(e) for e in d)) for i, d in enumerate(case["ctor_dup"]))
    return "(run_case (data_table %s %s %s) %s, ctor_valid %s)" % (CLS2COQ[case["cls"]], fs, coqlist("%d" % x for x in case["data"]), chains, dup)


def valmap(case):
    """cell id -> exact rational [num, den] of the number msdm was given for that cell (None: cells are the ids)"""
    if "vals" not in case:
        return None
    dt = case["rep"]["dtype"]
    if dt == "object":
        return lambda k: ["o", case["vals"][k]]

    def vm(k):
        if k >= len(case["vals"]):
            x = 999.0                       # from_dict's default_value
        else:
            v = case["vals"][k]
            x = float.fromhex(v) if isinstance(v, str) else v
        if dt == "prob32":
            x = f32(x)
        fr = Fraction(x)
        return [fr.numerator, fr.denominator]
    return vm


def mapobs(o, vm):
    if vm is None or not o:
        return o
    if o[0] == "scalar":
        return ["scalar", vm(o[1])]
    if o[0] == "table":
        return o[:4] + [[vm(k) for k in o[4]], [mapobs(p, vm) for p in o[5]]] + o[6:]
    return o


def effective(case, res):
    """the table msdm actually built, as the model must see it: for StateActionTable.from_dict the action order
    is msdm's (a set) and absent pairs hold default_value; everything else must be exactly what was passed in.
    -> (effective case, None) or (None, reason)"""
    rep = case.get("rep", {})
    if rep.get("ctor") == "from_dict" and len(case["doms"]) == 2:
        if res["doms"][0] != case["doms"][0]:
            return None, "from_dict: state list is not the dict's key order"
        gen = [repr(e) for e in case["doms"][1]]
        if sorted(repr(e) for e in res["doms"][1]) != sorted(gen):
            return None, "from_dict: action list is not the set of the dicts' keys"
        perm = [gen.index(repr(e)) for e in res["doms"][1]]
        nA = len(gen)
        miss = set(tuple(m) for m in case.get("missing", []))
        data = [999 if (i, j) in miss else case["data"][i * nA + j] for i in range(len(case["doms"][0])) for j in perm]
        eff = dict(case, doms=[case["doms"][0], res["doms"][1]], data=data)
    else:
        eff = case
        if res["doms"] != case["doms"]:
            return None, "constructed table's domains differ from the ones passed in"
    vm = valmap(eff)
    eff = dict(eff, odata=[vm(k) for k in eff["data"]] if vm else eff["data"])
    if res["data"] != eff["odata"]:      # not fatal: the property oracle then judges every cell against what was passed in
        return eff, "constructed table's data differ from the ones passed in"
    if res["shape"] != [len(d) for d in eff["doms"]] or res["ndim"] != len(eff["doms"]):
        return None, "shape/ndim of the table are not the domain sizes"
    return eff, None


def feats(case, orig, res, F):
    """measured input features (evidence: coverage.input_features)"""
    def inc(k, n=1):
        F[k] = F.get(k, 0) + n
    sizes = [len(d) for d in case["doms"]]
    rep = case.get("rep", {})
    inc("tables")
    if all(x == 1 for x in sizes): inc("all_domains_size_1")
    if sizes[0] == 1: inc("one_outer_key(one_state)")
    if len(sizes) >= 2 and sizes[1] == 1: inc("one_action")
    if len(sizes) >= 2 and sizes[0] == sizes[1] and sizes[0] >= 2: inc("n_states_eq_n_actions>=2")
    if len(sizes) >= 2 and sizes[0] != sizes[1]: inc("non_square")
    if len(sizes) >= 2 and case["doms"][0] == case["doms"][1]: inc("same_domain_object_for_two_fields")
    if rep.get("reuse"): inc("built_from_objects_of_a_used_twin_table")
    if "rerun_of" in orig: inc("same_table_rebuilt_later_in_same_process")
    inc("caller_objects_snapshotted(domains,data,selectors)")
    inc("first_results_requeried_after_other_table", sum(1 for c in res["chains"] if "stale_ok" in c))
    inc("dtype=" + rep.get("dtype", "int"))
    if rep.get("ctor") == "fields":
        for k in case.get("kinds", []):
            inc("fields_ctor_domain_held_in=" + {"dt": "domaintuple", "t": "plain tuple", "l": "plain list"}[k])
        if any(k != "dt" for k in case.get("kinds", [])):
            inc("tables_with_plain_sequence_domains")
    inc("parent_keys_len_items_taken_%s_the_selections" % rep.get("table_obs", "before"))
    if rep.get("dtype") == "object":
        inc("object_dtype_tables")
        for x in case["data"]:
            inc("object_cells_of_type_" + {"t": "tuple", "l": "list", "fs": "frozenset", "n": "None", "s": "str"}.get(x[1][0], x[1][0]))
    elif "vals" in case:
        vs = [Fraction(*x) for x in case["data"]]
        isprob = case["cls"] in PROB_CLS
        L = sizes[-1]
        if isprob:
            tiny = sum(1 for v in vs if 0 < v < Fraction(1, 10 ** 8))
            inc("prob_entries_tiny_positive(<1e-8)", tiny)
            inc("prob_entries_exact_zero", sum(1 for v in vs if v == 0))
            rows = [vs[i:i + L] for i in range(0, len(vs), L)]
            inc("prob_rows", len(rows))
            inc("prob_rows_with_tiny_entry", sum(1 for r in rows if any(0 < v < Fraction(1, 10 ** 8) for v in r)))
            inc("prob_rows_float_sum_not_exactly_1", sum(1 for r in rows if sum(float(v) for v in r) != 1.0))
            inc("prob_rows_nondyadic", sum(1 for r in rows if any(v.denominator & (v.denominator - 1) == 0 and v.denominator > 2 ** 40 and v > Fraction(1, 100) for v in r)))
            inc("prob_rows_mass_off_1_by>1e-8", sum(1 for r in rows if abs(sum(r) - 1) > Fraction(1, 10 ** 8)))
            if rep.get("dtype") == "probint": inc("prob_tables_int_typed")
        else:
            inc("value_tables_large_near_ties(rel_gap_1e-6)")
            inc("value_entries_abs>=1e6", sum(1 for v in vs if abs(v) >= 10 ** 6))
        if rep.get("dtype") == "prob32": inc("float32_tables")


def strip(o):
    """an implementation observation in the shape of a model observation: class, names, domains, data, row
    probabilities, and the Python container type of every domain"""
    return o[:6] + [o[7]["dom_types"], o[7]["keys"], o[7]["len"]] if o and o[0] == "table" else o


def run(ctx):
    tier = ctx.tier
    seen_sig = {}
    report = ctx.violation

    def violation(sig, detail, found=True):      # at most 3 replay files per signature
        seen_sig[sig] = seen_sig.get(sig, 0) + 1
        if seen_sig[sig] <= 3:
            report(sig, detail, found=found)
    ctx_violation = violation
    ncases = 70 if tier == "quick" else 500
    if ctx.replay_case:
        cases = [ctx.replay_case["detail"]["case"]]
    else:
        cases = [gen_case(ctx.rng, tier) for _ in range(ncases)]
        nperm = (5, 2) if tier == "quick" else (30, 10)      # tables with 4 / 5 outer keys and all ordered key lists
        cases += [gen_perm_case(ctx.rng, 4) for _ in range(nperm[0])] + [gen_perm_case(ctx.rng, 5) for _ in range(nperm[1])]
    nshards = 8 if tier == "quick" else 16
    if not ctx.replay_case:
        # the same table constructed a second time later in the SAME process (class/module-level caches), with a
        # varying number of unrelated constructions in between: copies land in the shard of their original
        base = len(cases)
        for _ in range(12 if tier == "quick" else 60):
            j = len(cases)
            src = (j % nshards) + nshards * ctx.rng.randrange(max(1, base // nshards - 1))
            cases.append(dict(cases[src], rerun_of=src))
    impl = ctx.impl("c12_impl.py", {"cases": cases}, shards=nshards)["results"]
    terms, idx, effs = [], [], {}
    for i, (case, res) in enumerate(zip(cases, impl)):
        if "error" in res:
            ctx_violation("C12:impl-error:" + res["error"].split(":")[0], {"case": case, "error": res["error"]}, found=False)
            continue
        eff, bad = effective(case, res)
        if bad:
            ctx_violation("C12:" + bad, {"case": case, "impl": {k: res[k] for k in ("doms", "data", "shape", "ndim")}}, found=False)
            if eff is None:
                continue
        effs[i] = eff
        terms.append(case_term(eff, res["names"]))
        idx.append(i)
    vals = ctx.coq(PRE, terms, shard=4 if tier == "quick" else 8)
    stats = {"chains": 0, "mirror_equal": 0, "by_family": {}, "by_kind": {}, "by_error": {}, "by_class": {},
             "by_rep": {}, "oracle_checked": 0, "outer_element_wins_collisions": 0, "incoherent_subtables_outside_quantifier": 0}
    distinct = set()
    F = {}

    def one_chain(case):
        return lambda j: dict(case, chains=[case["chains"][j]], fams=[case["fams"][j]])

    for i, v in zip(idx, vals):
        orig, res = cases[i], impl[i]
        case = dict(effs[i], data=effs[i]["odata"])       # what the oracle sees: the numbers the table was given
        vm = valmap(effs[i])
        names = res["names"]
        sns = case["cls"] == "StateNextStateTable"
        for k_, v_ in case.get("rep", {}).items():
            stats["by_rep"]["%s=%s" % (k_, v_)] = stats["by_rep"].get("%s=%s" % (k_, v_), 0) + 1
        stats["by_class"][case["cls"]] = stats["by_class"].get(case["cls"], 0) + 1
        if isinstance(v, vlib.CoqError):
            ctx_violation("C12:coq-evaluation-failed", {"case": case, "error": str(v)[:800]}, found=False)
            continue
        try:
            mkeys, mlen, mitems, mchains, mvalid = v
            mkeys = [pv_of(k) for k in mkeys]
            mitems = [mapobs(obs_of(o, sns), vm) for o in mitems]
            mchains = [([mapobs(obs_of(o, sns), vm) for o in st], mapobs(obs_of(g, sns), vm)) for st, g in mchains]
        except Exception as e:   # parse problem = broken correspondence
            ctx_violation("C12:coq-output-unparsed", {"case": orig, "error": repr(e)[:400]}, found=False)
            continue
        if res.get("mutated"):
            ctx_violation("C12:caller-object-mutated:" + "+".join(res["mutated"]), {"case": dict(orig, chains=orig["chains"][:3], fams=orig["fams"][:3])}, found=False)
        feats(case, orig, res, F)
        # -- construction-time validation and fixed error paths
        if (res.get("ctor_dup") == "ValueError") != (mvalid is False) or res.get("ctor_shape") != "ValueError":
            ctx_violation("C12:mirror-differs:constructor-validation", {"case": dict(orig, chains=[], fams=[]),
                          "impl": [res.get("ctor_dup"), res.get("ctor_shape")], "model_valid": mvalid}, found=False)
        if res.get("sat_from_state_list", "NotImplementedError") != "NotImplementedError":
            ctx_violation("C12:mirror-differs:StateActionTable.from_state_list", {"case": dict(orig, chains=[], fams=[])}, found=False)
        # -- table-level observations
        why = oracle_table(case, names, res)
        if why:
            ctx_violation("C12:" + why, {"case": dict(orig, chains=[], fams=[]), "impl": {k: res[k] for k in ("keys", "len", "items")}}, found=True)
        elif mkeys != res["keys"] or mlen != res["len"] or mitems != [strip(o) for o in res["items"]]:
            ctx_violation("C12:mirror-differs:keys-items-len", {"case": dict(orig, chains=[], fams=[]),
                          "model": [mkeys, mlen, mitems], "impl": [res["keys"], res["len"], res["items"]]}, found=False)
        # -- per chain
        sub = one_chain(orig)
        for j, (ch, fam, out, (msteps, mget)) in enumerate(zip(case["chains"], case["fams"], res["chains"], mchains)):
            stats["chains"] += 1
            stats["by_family"][fam] = stats["by_family"].get(fam, 0) + 1
            distinct.add(vlib.structural_hash([case["cls"], case["doms"], ch]))
            last = out["steps"][-1]
            kind = last[0] if last[0] != "table" else ("dist" if last[1] == "TableDistribution" else "sub-table")
            stats["by_kind"][kind] = stats["by_kind"].get(kind, 0) + 1
            if last[0] == "err":
                stats["by_error"][last[1]] = stats["by_error"].get(last[1], 0) + 1
            for o in out["steps"]:
                if o[0] == "table":
                    meta = o[7]
                    if meta["data_shape"] != [len(d) for d in o[3]]:
                        ctx_violation("C12:returned-table-shape-disagrees-with-its-index", {"case": sub(j), "impl": out}, found=True)
            why = oracle_chain(case, names, fam, ch, out)
            for o in out["steps"]:
                why = why or subtable_clause(o)
                if o[0] == "table":
                    F["returned_tables_keys_len_items_checked"] = F.get("returned_tables_keys_len_items_checked", 0) + 1
            if fam != "ext":
                stats["oracle_checked"] += 1
                if fam == "full" and dec(ch[0]) in [dec(e) for e in case["doms"][0]]:
                    stats["outer_element_wins_collisions"] += 1
            isteps = [strip(o) for o in out["steps"]]
            iget = strip(out["get"])
            same = (isteps == msteps and iget == mget and
                    ("action_dist" not in out or strip(out["action_dist"]) == msteps[0]) and
                    strip(out["repeat"]) == msteps[0] and                           # second call on the same object
                    out.get("stale_ok", True) and           # first results re-queried after a different table was used
                    out["get_none"] == ("err" if mget[0] == "err" else (mget == ["default"] or mget == ["scalar", ["o", ["n"]]])))   # get(key) without a default (a cell may be None)
            if why:
                ctx_violation("C12:" + why, {"case": sub(j), "family": fam, "impl": out, "model": [msteps, mget]}, found=True)
            elif not same:
                ctx_violation("C12:mirror-differs:" + fam + ":" + kind,
                              {"case": sub(j), "family": fam, "impl": [isteps, iget, out.get("action_dist"), out.get("repeat"), out.get("get_none")], "model": [msteps, mget],
                               "note": "model/Table.v and msdm disagree on this selector; no clause of the property is violated by msdm's answer"},
                              found=False)
            else:
                stats["mirror_equal"] += 1
            # report-only: sub-tables whose cells are not the cells of the original at the merged key
            if fam == "ext" and len(ch) == 1 and last[0] == "table" and len(last[3]) >= 2:
                sel = dec(ch[0])
                if isinstance(sel, tuple) and len(sel) == 3 and is_scalar_key(sel[0]) and isinstance(sel[2], list) \
                        and (sel[1] == slice(None) or sel[1] is Ellipsis) and len(case["doms"]) == 3:
                    pd = [[dec(e) for e in d] for d in case["doms"]]
                    if sel[0] in pd[0] and all(c in pd[2] for c in sel[2]):
                        shape = [len(d) for d in pd]
                        want = [case["data"][cell(shape, [pd[0].index(sel[0]), b, pd[2].index(c)])] for b in range(shape[1]) for c in sel[2]]
                        if last[4] != want:
                            stats["incoherent_subtables_outside_quantifier"] += 1
                            stats.setdefault("incoherent_example", {"case": sub(j), "returned": last[:5], "cells_of_the_original_at_those_keys": want})
    ctx.coverage.update({
        "evaluations": stats["chains"],
        "distinct_nontrivial": len(distinct),
        "rule": "tables of 1-3 fields (Table, ProbabilityTable, StateTable, StateActionTable, StateNextStateTable, StateActionNextStateTable, TabularPolicy) "
                "built through every public form (TableIndex(field_names, field_domains) with list/tuple/domaintuple domains, TableIndex(fields=), "
                "from_state_list / from_state_action_lists with ndarray or nested-list data, from_dict incl. absent pairs), integer or float cells, "
                "cells = a random permutation of 0..N-1 for half the tables, 30% built from the objects of an already used twin table; "
                "for 65% of the probability tables / 30% of the others the cells are real numbers compared bit-exactly (rows with tiny positive entries "
                "2^-27..2^-60 next to exact zeros, non-dyadic rows, one-hot rows, rows with mass off 1 by 1e-9..1e-4, float32 and int-typed tables, "
                "values ~1e3..1e9 with relative gaps 1e-6); sizes at the edges (all domains of size 1, as many actions as states, the same sequence "
                "for two fields); every table's first results are re-queried after a different table was indexed with the same selector objects, the "
                "caller's domains/data/selectors are snapshotted for mutation, 12 tables are rebuilt later in the same process; "
                "domains of 1-4 values drawn without ==-duplicates from a pool built to collide (0/False/0.0, 1/True/1.0, '1', (1,), (1,2), "
                "(1.0,2), frozensets, None, ...), the outermost domain seeded with tuples that are also field-wise keys / whole domains; "
                "plus tables with 4 (and a few with 5) outer keys indexed with ALL duplicate-free ordered lists of outer keys of length 3 and 4 "
                "(size 4: all 64 ordered lists); selector chains: all or sampled full keys and their ==-aliases, nested keys, outer elements, outer-key lists, foreign scalars/"
                "tuples, slices, ellipses, sequences inside tuples, domaintuples, random compositions; distinct = structural hash of "
                "(class, domains, chain); every chain is non-trivial (a table with >= 1 cell and a selector)",
        "samples": [{"case": dict(cases[0], chains=cases[0]["chains"][:3], fams=cases[0]["fams"][:3]),
                     "impl": {"chains": impl[0].get("chains", [])[:3]}}] if cases else [],
        "tables": len(cases), "input_features": F, **stats,
    })
