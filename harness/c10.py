"""C10 — TD learners' Q-tables are exactly their update rule applied to the experience.

Correspondence: generated proper MDPs x learner x parameters x seed -> msdm learner with a recording
event listener (harness/impl/c10_impl.py) -> model/TD.v:c10_check evaluated by vm_compute on Q:
  * valid_experience  every recorded step starts in a non-absorbing state, uses an available action,
                      a positive-probability successor and the MDP's reward
  * chain_ok          steps chain into episodes that end exactly on absorbing states (SARSA: a_{t+1} = na_t)
  * dq_picks_ok       double Q: every argmax pick is an available maximiser of the updated table
  * keys_same         lazily initialised key set of the model's table = msdm's (insertion ORDER for the
                      single-table learners, as a set for double Q whose result is built from a set)
  * table_close       update rule folded over the recorded experience = returned table, 1e-12 relative
  * policy_close      returned policy = uniform over exact maximisers of the RETURNED table / all actions
theory/TDTransfer.v:c10_main turns an all-true verdict into the property's clauses over R.

Expected SARSA at non-zero softmax temperature: exp() enters the target.  Those cases are folded with
esarsag_step (the behaviour distribution is part of the step) on the RECORDED distribution rounded to
2^-44, with tolerance 1e-9, and the recorded distribution is compared (1e-9) against
eps/n + (1-eps)*softmax(Q(ns,.)/temp) computed here from the MODEL's own row at ns (table_rows trace).
"""
import math
from fractions import Fraction as F
import vlib
from vlib import q, qlist, qmat, qten, nat, natlist, bmat, blist, coqlist, b
import gen_mdp

INFO = {
    "level": "proof",
    "coq_files": ["model/TD.v", "theory/TDTransfer.v"],
    "trusted_base": [
        "model/TD.v c10_check is evaluated on Q (NumQ); theorems are on R; tied by paramcoq transfer (theory/TDTransfer.v c10_check_transfer, train_transfer, c10_main)",
        "harness/impl/c10_impl.py recording listener: experience read from the learner's own locals at end_of_timestep; double-Q coin/pick observed by wrapping the module-level name tdlearning.argmax",
        "generated parameters (gamma, step size, epsilon, rewards, initial Q) reach the model exactly and msdm as nearest doubles (dyadic except eps=1/20)",
        "expected SARSA with softmax temperature != 0: recorded behaviour distribution (rounded to 2^-44) is an input of the fold; its softmax form is checked in Python floats against the model's row (1e-9)",
    ],
    "assumptions": ["MDP arrays of the model are built from the generator's definition with state/action ids as indices; mdp.actions(s) is the sorted id list"],
}

PRE = """From Coq Require Import QArith List Bool.
From MSDM Require Import base.Num base.NumInst model.MDP model.VI model.TD.
Import ListNotations.
Local Open Scope Q_scope.
Definition S_ (s a : nat) (r : Q) (ns na : nat) (c : bool) (p : nat) (d : list (nat * Q)) : event Q :=
  EStep (mkStep s a r ns na c p d).
Definition B_ (s : nat) : event Q := EStart s.
Definition chk nS nA P R av ab ini g q0 al ep L evs ik iq ip tol :=
  @c10_check Q NumQ (mk_mdp nS nA P R av ab ini g) q0 al ep L evs ik iq ip tol.
(* numbers leave Coq as (numerator, denominator) pairs: 8.16 prints dyadic Q values in hexadecimal notation *)
Definition qz (x : Q) : bool * Z * Z := (Z.ltb (Qnum x) 0, Z.abs (Qnum x), Zpos (Qden x)).
(* rows Q(ns, .) of the model's table just before each step (expected SARSA, temperature check) *)
Fixpoint rows_before (m : mdp Q) al (qt : qtab Q) (evs : list (event Q)) : list (list Q) :=
  match evs with
  | [] => []
  | EStart _ :: r => rows_before m al qt r
  | EStep e :: r => q_row m qt (st_ns e) :: rows_before m al (esarsag_step m al qt e) r
  end.
Definition rowsb nS nA P R av ab ini g q0 al evs :=
  let m := @mk_mdp Q NumQ nS nA P R av ab ini g in
  map (map qz) (rows_before m al (q_empty m (untab2 q0)) evs).
"""

CLAUSES = ["valid_experience", "chain_ok", "dq_picks_ok", "keys_same", "table_close", "policy_close"]
LEARNER = {"ql": "LQ", "sarsa": "LSarsa", "esarsa": "LESarsa", "esarsag": "LESarsaGen", "dq": "LDouble"}
ALPHAS = ["0", "1/8", "1/2", "1"]
EPSS = ["0", "1/20", "1"]
TEMPS = ["0", "1/2", "2"]
GAMMAS = ["1/2", "3/4", "7/8"]
# exact rationals grow by a few bits per step along update chains and Qred is quadratic in their length:
# longer experiences are decided by the Python oracle only (counted separately, not as evaluations)
MAX_STEPS = 300
MAX_STEPS_GEN = 80
TOL = F(1, 10**12)
TOL_GEN = F(1, 10**9)


# ---------------------------------------------------------------------------------------------
# generation
# ---------------------------------------------------------------------------------------------
SCALE = 2**20


def scale_value(rng):
    """2^20 + k*2^-12: exact doubles whose pairwise relative gaps are ~2e-10 (strictly ordered, nearly tied)"""
    return F(SCALE) + F(rng.randint(0, 3), 2**12)


def gen_case(rng, tier):
    gamma = rng.choice(GAMMAS) if rng.random() < .9 else "1"
    m = gen_mdp.gen_mdp(rng, nmax=5 if tier == "quick" else 6, amax=3, gamma=gamma, proper=True, min_states=2)
    learner = rng.choice(["ql", "sarsa", "esarsa", "dq"])
    r = rng.random()
    n, nA = m["n"], m["nA"]
    if r < .35:
        iq = {"kind": "const", "value": str(F(rng.randint(-24, 24), 4))}
    elif r < .45:
        iq = {"kind": "int", "value": str(rng.randint(-3, 10))}
    else:
        if rng.random() < .5:   # few distinct values: ties between actions survive
            vals = [F(rng.randint(-8, 8), 2) for _ in range(2)]
            tbl = [[str(rng.choice(vals)) for _ in range(nA)] for _ in range(n)]
        else:
            tbl = [[str(F(rng.randint(-40, 40), 8)) for _ in range(nA)] for _ in range(n)]
        iq = {"kind": "table", "table": tbl}
    temp = rng.choice(TEMPS) if rng.random() < .5 else "0"
    alpha, eps = rng.choice(ALPHAS), rng.choice(EPSS)
    episodes = rng.choice([1, 1, 2, 3, 5, 8, 12, 20])
    family = "plain"
    if rng.random() < .2:
        # reward-scale family: Q-values around 2^20 that differ by multiples of 2^-12 (relative gap < 1e-9):
        # the greedy policy must separate them exactly.  Step size 1 => Q = reward on terminal transitions.
        family = "scale"
        for k, row in m["trans"].items():
            s, a = map(int, k.split(","))
            if not m["absorbing"][s]:
                for ns, p in row:
                    if F(p) > 0:
                        m["reward"]["%d,%d,%d" % (s, a, ns)] = str(scale_value(rng))
        alpha = "1" if rng.random() < .7 else rng.choice(ALPHAS)
        eps = "1" if rng.random() < .7 else rng.choice(EPSS)
        temp = "0"
        episodes = rng.choice([5, 8, 12, 20])
        if rng.random() < .6:
            iq = {"kind": "table", "table": [[str(scale_value(rng)) for _ in range(nA)] for _ in range(n)]}
    if learner == "esarsa" and temp != "0":
        episodes = rng.choice([1, 1, 2, 3])     # recorded 44-bit probabilities enter the fold: keep it short
    case = {"mdp": m, "learner": learner, "alpha": alpha, "eps": eps, "temp": temp, "family": family,
            "initial_q": iq, "episodes": episodes, "seed": rng.randrange(10**6)}
    if rng.random() < .3:
        # object reuse: the SAME learner object is trained on A, then on B (same state and action labels,
        # independently drawn absorbing set / action sets / transitions / rewards / discount), then on A again
        for _ in range(40):
            mb = gen_mdp.gen_mdp(rng, nmax=n, amax=3, gamma=rng.choice(GAMMAS), proper=True, min_states=n)
            if mb["nA"] == nA:
                case["stages"] = [m, mb, m]
                case["episodes"] = min(episodes, 8)
                break
    return case


def q0_table(case):
    n, nA = case["mdp"]["n"], case["mdp"]["nA"]
    iq = case["initial_q"]
    if iq["kind"] in ("const", "int"):
        return [[F(iq["value"])] * nA for _ in range(n)]
    return [[F(x) for x in row] for row in iq["table"]]


# ---------------------------------------------------------------------------------------------
# Gallina terms
# ---------------------------------------------------------------------------------------------
def round_dyadic(x, bits=44):
    x = vlib.frac(x)
    return F(round(x * 2**bits), 2**bits)


def events_term(case, res, gen=False):
    out = []
    for ep in res["episodes"]:
        out.append("B_ %s" % nat(ep["start"]))
        for st in ep["steps"]:
            dist = "[]"
            if gen:
                dist = coqlist("(%s, %s)" % (nat(a), q(round_dyadic(p))) for a, p in st["dist"])
            out.append("S_ %s %s %s %s %s %s %s %s" % (
                nat(st["s"]), nat(st["a"]), q(st["r"]), nat(st["ns"]), nat(st.get("na", 0)),
                b(st.get("coin", False)), nat(st.get("pick", 0) or 0), dist))
    return coqlist(out)


def mdp_term(case):
    m = case["mdp"]
    P, R, av, absf, ini = gen_mdp.arrays(m, list(range(m["n"])), list(range(m["nA"])))
    return " ".join([nat(m["n"]), nat(m["nA"]), qten(P), qten(R), bmat(av), blist(absf), qlist(ini), q(m["gamma"])])


def dense(case, rows):
    """rows: {s: {a: Fraction}} -> n x nA table, 0 where absent"""
    n, nA = case["mdp"]["n"], case["mdp"]["nA"]
    return [[rows.get(s, {}).get(a, F(0)) for a in range(nA)] for s in range(n)]


def model_kind(case):
    if case["learner"] == "esarsa" and F(case["temp"]) != 0:
        return "esarsag"
    return case["learner"]


# ---------------------------------------------------------------------------------------------
# independent exact oracle (violation search only): the update rules on Fractions
# ---------------------------------------------------------------------------------------------
def oracle(case, res):
    """folds the published update rules over the recorded experience; returns
    (tables, first_bad_step or None, clause or None)"""
    m = case["mdp"]
    g, al, ep = F(m["gamma"]), F(case["alpha"]), F(case["eps"])
    q0 = q0_table(case)
    kind = case["learner"]
    temp0 = F(case["temp"]) == 0

    def fresh():
        return {}

    def row(t, s):
        if s not in t:
            t[s] = {a: (F(0) if m["absorbing"][s] else q0[s][a]) for a in m["actions"][s]}
        return t[s]
    t1, t2 = fresh(), fresh()
    idx = 0
    for ep_i, epi in enumerate(res["episodes"]):
        if kind == "sarsa":
            row(t1, epi["start"])
        for st in epi["steps"]:
            s, a, ns, r = st["s"], st["a"], st["ns"], vlib.frac(st["r"])
            where = {"episode": ep_i, "step_index": idx, "step": st}
            if m["absorbing"][s]:
                return None, where, "experienced step starts in an absorbing state"
            if a not in m["actions"][s]:
                return None, where, "experienced action is not available in the state"
            succ = {x: F(p) for x, p in m["trans"]["%d,%d" % (s, a)]}
            if succ.get(ns, F(0)) <= 0:
                return None, where, "experienced successor has probability 0"
            if r != F(m["reward"].get("%d,%d,%d" % (s, a, ns), "0")):
                return None, where, "experienced reward is not the MDP's reward"
            if kind == "dq":
                row(t1, s), row(t2, s), row(t1, ns), row(t2, ns)
                upd, oth = (t1, t2) if st["coin"] else (t2, t1)
                pick = st["pick"]
                if pick not in upd[ns] or upd[ns][pick] != max(upd[ns].values()):
                    return None, where, "double-Q argmax pick is not a maximiser of the updated table"
                tgt = oth[ns][pick]
                upd[s][a] = upd[s][a] + al * (r + g * tgt - upd[s][a])
                exp_after = [t1[s][a], t2[s][a]]
            else:
                row(t1, s)
                rn = row(t1, ns)
                if kind == "ql":
                    tgt = max(rn.values())
                elif kind == "sarsa":
                    if st["na"] not in rn:
                        return None, where, "SARSA next action not available in the next state"
                    tgt = rn[st["na"]]
                else:
                    if temp0:
                        mx = max(rn.values())
                        k = sum(1 for v in rn.values() if v == mx)
                        tgt = sum(v * (ep / len(rn) + ((1 - ep) / k if v == mx else 0)) for v in rn.values())
                    else:
                        vals = [float(v) / float(F(case["temp"])) for v in rn.values()]
                        mxv = max(vals)
                        ws = [math.exp(v - mxv) for v in vals]
                        tot = sum(ws)
                        tgt = sum(v * (ep / len(rn) + (1 - ep) * F(w / tot)) for v, w in zip(rn.values(), ws))
                t1[s][a] = t1[s][a] + al * (r + g * tgt - t1[s][a])
                exp_after = [t1[s][a]]
            got = [vlib.frac(x) for x in st["after"]]
            for gx, ex in zip(got, exp_after):
                if abs(gx - ex) > F(1, 10**8) * (1 + abs(ex)):
                    where.update({"written": [str(x) for x in got], "update_rule_gives": [str(x) for x in exp_after]})
                    return None, where, "entry written at a step is not the update rule applied to the table"
            idx += 1
    if kind == "dq":
        keys = set(t1) | set(t2)
        t = {s: {a: row(t1, s)[a] / 2 + row(t2, s)[a] / 2 for a in m["actions"][s]} for s in keys}
    else:
        t = t1
    return t, None, None


def interval_bounds(case):
    m = case["mdp"]
    g = F(m["gamma"])
    if g >= 1:
        return None
    q0 = q0_table(case)
    init = [q0[s][a] for s in range(m["n"]) for a in m["actions"][s] if not m["absorbing"][s]] + [F(0)]
    # rewards a step can actually carry: from a non-absorbing state, along a positive-probability transition
    rews = []
    for k, row in m["trans"].items():
        s, a = map(int, k.split(","))
        if not m["absorbing"][s]:
            rews += [F(m["reward"].get("%d,%d,%d" % (s, a, ns), "0")) for ns, p in row if F(p) > 0]
    if not rews:
        rews = [F(0)]
    return min(init + [min(rews) / (1 - g)]), max(init + [max(rews) / (1 - g)])


def search_failing(case, res, impl_rows, impl_pol):
    """concrete failing clause of the property on this run, or None"""
    m = case["mdp"]
    kind = case["learner"]
    t, where, clause = oracle(case, res)
    if clause:
        return clause, where
    # absorbing states fixed at 0
    for s, rowv in impl_rows.items():
        if m["absorbing"][s] and any(v != 0 for v in rowv.values()):
            if kind == "sarsa":
                return "SIG:C10:sarsa:absorbing-initial-state-initialised-from-initial_q", {"state": s, "row": {a: str(v) for a, v in rowv.items()}}
            return "absorbing state has a non-zero Q-value", {"state": s, "row": {a: str(v) for a, v in rowv.items()}}
    if set(t) != set(impl_rows):
        return "returned table's key set is not the set of states read during training", {"expected": sorted(t), "returned": sorted(impl_rows)}
    for s in t:
        if set(t[s]) != set(impl_rows[s]):
            return "returned row does not span the available actions", {"state": s}
        for a in t[s]:
            if abs(t[s][a] - impl_rows[s][a]) > F(1, 10**8) * (1 + abs(t[s][a])):
                return "returned Q-value is not the update rule folded over the experience", \
                       {"state": s, "action": a, "returned": str(impl_rows[s][a]), "fold": str(t[s][a])}
    # policy w.r.t. the returned table
    for s in range(m["n"]):
        pol = impl_pol[s]
        if s in impl_rows:
            mx = max(impl_rows[s].values())
            want = [a for a in m["actions"][s] if impl_rows[s][a] == mx]
            sig = "returned policy is not uniform over exactly the maximal-Q actions of a table state"
        else:
            want = list(m["actions"][s])
            sig = "SIG:C10:policy:unvisited-state-not-uniform-over-all-actions"
        got = {a: p for a, p in pol.items() if p != 0}
        if set(got) != set(want) or any(abs(p - F(1, len(want))) > F(1, 10**12) for p in got.values()):
            return sig, {"state": s, "policy": {a: str(p) for a, p in pol.items()}, "expected_support": want}
    return None, None


# ---------------------------------------------------------------------------------------------
def run(ctx):
    tier = ctx.tier
    ncases = 220 if tier == "quick" else 3000
    if ctx.replay_case:
        cases = [ctx.replay_case["detail"]["case"]]
    else:
        cases = [gen_case(ctx.rng, tier) for _ in range(ncases)]
    shards = min(ctx.jobs, 8 if tier == "quick" else 16)
    impl = ctx.impl("c10_impl.py", {"cases": cases}, shards=max(1, shards))["results"]
    # every stage of a multi-stage case is judged on its own, against its own MDP; the view keeps the whole
    # case (all stages) so that a replay re-runs the same learner object through the same sequence
    ngen, nmulti = len(cases), sum(1 for c in cases if c.get("stages"))
    vcases, vimpl = [], []
    for case, res in zip(cases, impl):
        stages = case.get("stages") or [case["mdp"]]
        if "error" in res:
            vcases.append(case), vimpl.append(res)
            continue
        for k, (mm, r) in enumerate(zip(stages, res["stages"])):
            vcases.append(dict(case, mdp=mm, stage=k)), vimpl.append(r)
    cases, impl = vcases, vimpl

    terms, meta = [], []
    parsed = {}
    stats = {"by_learner": {}, "alpha": {}, "eps": {}, "temp": {}, "initial_q": {}, "steps_total": 0, "max_steps": 0,
             "absorbing_start_episodes": 0, "sarsa_absorbing_start_first_seen": 0, "unvisited_state_cases": 0,
             "unvisited_nonconstant_init_cases": 0, "gamma_one": 0, "self_loop_steps": 0,
             "ties_in_returned_rows": 0, "esarsa_softmax_cases": 0, "keys_mutated_by_policy_query": 0, "long_runs_oracle_only": 0,
             "family": {}, "stage": {}, "near_tie_rows_distinct_within_1e-9": 0, "reuse_absorbing_set_differs": 0,
             "reuse_action_sets_differ": 0}
    distinct = set()
    for i, (case, res) in enumerate(zip(cases, impl)):
        kind = case["learner"]
        if "error" in res:
            ctx.violation("C10:%s:raises:%s" % (kind, res["error"].split(":")[0]),
                          {"case": case, "error": res["error"], "trace": res.get("trace", "")}, found=True)
            continue
        m = case["mdp"]
        # ---- structural checks on what came back (cheap, Python) ----
        bad = None
        impl_rows = {}
        for s, rowv in res["table"]:
            vals = {}
            for a, v in rowv:
                if isinstance(v, str):
                    bad = ("non-finite Q-value", {"state": s, "action": a, "value": v})
                else:
                    vals[a] = vlib.frac(v)
            impl_rows[s] = vals
            if sorted(vals) != sorted(m["actions"][s]) and not bad:
                bad = ("returned row does not span the available actions", {"state": s, "row_actions": sorted(vals)})
        impl_pol = [{a: vlib.frac(p) for a, p in row} for row in res["policy"]]
        for s, pol in enumerate(impl_pol):
            if any(a not in m["actions"][s] for a in pol) and not bad:
                bad = ("policy supports an unavailable action", {"state": s})
        if len(res["episodes"]) != int(case["episodes"]) and not bad:
            bad = ("number of episodes differs from the configured one", {"episodes": len(res["episodes"])})
        if res["keys_after_policy"] != res["keys"]:
            stats["keys_mutated_by_policy_query"] += 1
            if not bad:
                bad = ("SIG:C10:policy:unvisited-state-not-uniform-over-all-actions",
                       {"keys_before": res["keys"], "keys_after_policy_query": res["keys_after_policy"]})
        if bad:
            sig = bad[0][4:] if bad[0].startswith("SIG:") else "C10:%s:%s" % (kind, bad[0])
            ctx.violation(sig, {"case": case, "clause": bad[0], "where": bad[1], "impl": res}, found=True)
            continue
        parsed[i] = (impl_rows, impl_pol)
        mk = model_kind(case)
        gen = mk == "esarsag"
        nsteps = sum(len(e["steps"]) for e in res["episodes"])
        if nsteps > (MAX_STEPS_GEN if gen else MAX_STEPS):
            stats["long_runs_oracle_only"] += 1
            clause, where = search_failing(case, res, impl_rows, impl_pol)
            if clause:
                sig = clause[4:] if clause.startswith("SIG:") else "C10:%s:%s" % (kind, clause)
                ctx.violation(sig, {"case": case, "failing_clause": clause, "where": where, "impl": res}, found=True)
            continue
        # ---- terms ----
        mt = mdp_term(case)
        q0t = qmat(q0_table(case))
        evs = events_term(case, res, gen=gen)
        iq = qmat(dense(case, impl_rows))
        ip = qmat(dense(case, {s: pol for s, pol in enumerate(impl_pol)}))
        tol = TOL_GEN if gen else TOL
        terms.append("chk %s %s %s %s %s %s %s %s %s %s" % (
            mt, q0t, q(case["alpha"]), q(case["eps"]), LEARNER[mk], evs, natlist(res["keys"]), iq, ip, q(tol)))
        meta.append(("chk", i))
        if gen:
            terms.append("rowsb %s %s %s %s" % (mt, q0t, q(case["alpha"]), evs))
            meta.append(("rows", i))
        # ---- input distribution ----
        stats["by_learner"][kind] = stats["by_learner"].get(kind, 0) + 1
        stats["family"][case.get("family", "plain")] = stats["family"].get(case.get("family", "plain"), 0) + 1
        if case.get("stages"):
            stats["stage"][str(case["stage"])] = stats["stage"].get(str(case["stage"]), 0) + 1
            if case["stage"] == 1:
                ma, mb = case["stages"][0], case["stages"][1]
                stats["reuse_absorbing_set_differs"] += int(ma["absorbing"] != mb["absorbing"])
                stats["reuse_action_sets_differ"] += int(ma["actions"] != mb["actions"])
        for rv in impl_rows.values():
            mxv = max(rv.values())
            if any(v != mxv and abs(v - mxv) <= F(1, 10**9) * abs(mxv) for v in rv.values()):
                stats["near_tie_rows_distinct_within_1e-9"] += 1
        for k in ("alpha", "eps", "temp"):
            stats[k][case[k]] = stats[k].get(case[k], 0) + 1
        stats["initial_q"][case["initial_q"]["kind"]] = stats["initial_q"].get(case["initial_q"]["kind"], 0) + 1
        stats["steps_total"] += nsteps
        stats["max_steps"] = max(stats["max_steps"], nsteps)
        stats["gamma_one"] += int(F(m["gamma"]) == 1)
        stats["esarsa_softmax_cases"] += int(gen)
        seen = set()
        for e in res["episodes"]:
            if m["absorbing"][e["start"]]:
                stats["absorbing_start_episodes"] += 1
                if kind == "sarsa" and e["start"] not in seen:
                    stats["sarsa_absorbing_start_first_seen"] += 1
            seen.add(e["start"])
            for st in e["steps"]:
                seen.add(st["s"]), seen.add(st["ns"])
                stats["self_loop_steps"] += int(st["s"] == st["ns"])
        unvisited = [s for s in range(m["n"]) if s not in impl_rows]
        if unvisited:
            stats["unvisited_state_cases"] += 1
            q0 = q0_table(case)
            if any(len({q0[s][a] for a in m["actions"][s]}) > 1 for s in unvisited):
                stats["unvisited_nonconstant_init_cases"] += 1
        if any(len(rv) > 1 and list(rv.values()).count(max(rv.values())) > 1 for rv in impl_rows.values()):
            stats["ties_in_returned_rows"] += 1
        if nsteps > 0:
            distinct.add(vlib.structural_hash([case["mdp"], kind, case["alpha"], case["eps"], case["temp"],
                                               case["initial_q"], res["episodes"]]))

    vals = ctx.coq(PRE, terms, shard=6 if tier == "quick" else 20)
    nchk = 0
    interval_checked = 0
    rows_by_case = {i: v for (k, i), v in zip(meta, vals) if k == "rows"}
    for (k, i), v in zip(meta, vals):
        if k != "chk":
            continue
        case, res = cases[i], impl[i]
        kind = case["learner"]
        impl_rows, impl_pol = parsed[i]
        if isinstance(v, vlib.CoqError):
            ctx.violation("C10:coq-evaluation-failed", {"case": case, "error": str(v)[:800]}, found=False)
            continue
        nchk += 1
        failed = [c for c, okv in zip(CLAUSES, v) if okv is not True]
        # expected SARSA with a softmax temperature: the recorded distribution must be the eps-softmax of the
        # model's own row Q(ns, .)
        if not failed and model_kind(case) == "esarsag":
            rb = rows_by_case.get(i)
            if isinstance(rb, vlib.CoqError) or rb is None:
                ctx.violation("C10:coq-evaluation-failed", {"case": case, "error": str(rb)[:800]}, found=False)
                continue
            steps = [st for e in res["episodes"] for st in e["steps"]]
            ep, temp = float(F(case["eps"])), float(F(case["temp"]))
            for st, rowq in zip(steps, rb):
                acts = case["mdp"]["actions"][st["ns"]]
                rowq = [F(-nd[1] if nd[0] else nd[1], nd[2]) for nd in rowq]
                xs = [float(x) / temp for x in rowq]
                mx = max(xs)
                ws = [math.exp(x - mx) for x in xs]
                tot = sum(ws)
                want = {a: ep / len(acts) + (1 - ep) * w / tot for a, w in zip(acts, ws)}
                got = {a: float(vlib.frac(p)) for a, p in st["dist"]}
                if set(got) != set(want) or any(abs(got[a] - want[a]) > 1e-9 for a in want):
                    ctx.violation("C10:esarsa:behaviour distribution in the target is not the epsilon-softmax of Q(ns,.)",
                                  {"case": case, "step": st, "model_row": [str(x) for x in rowq], "expected": want}, found=True)
                    break
        if failed:
            clause, where = search_failing(case, res, impl_rows, impl_pol)
            detail = {"case": case, "failed_checks": failed, "impl": res}
            if clause:
                detail["failing_clause"], detail["where"] = clause, where
                sig = clause[4:] if clause.startswith("SIG:") else "C10:%s:%s" % (kind, clause)
                ctx.violation(sig, detail, found=True)
            else:
                detail["correspondence"] = "model/TD.v:c10_check rejects the run; the Python oracle found no failing clause"
                ctx.violation("C10:%s:model-differs:%s" % (kind, "+".join(failed)), detail, found=False)
            continue
        # the interval clause, on the implementation's returned numbers (theorem td_interval covers the model)
        bnd = interval_bounds(case)
        if bnd and 0 <= F(case["alpha"]) <= 1:
            interval_checked += 1
            lo, hi = bnd
            slack = F(1, 10**9) * (1 + max(abs(lo), abs(hi)))
            for s, rv in impl_rows.items():
                for a, x in rv.items():
                    if not (lo - slack <= x <= hi + slack):
                        ctx.violation("C10:%s:Q-value outside the interval spanned by initial values and discounted reward bounds" % kind,
                                      {"case": case, "state": s, "action": a, "value": str(x), "interval": [str(lo), str(hi)], "impl": res}, found=True)

    ctx.coverage.update({
        "evaluations": nchk,
        "distinct_nontrivial": len(distinct),
        "rule": "proper MDPs from harness/gen_mdp.py (2..%d states, 1..3 actions, state-dependent action sets, k/8 probabilities, "
                "integer/quarter rewards of either sign, absorbing states possibly in the initial distribution, gamma in {1/2,3/4,7/8} or 1) "
                "x learner in {QLearning, SARSA, ExpectedSARSA, DoubleQLearning} x step size {0,1/8,1/2,1} x epsilon {0,1/20,1} "
                "x softmax temperature {0,1/2,2} x initial_q {float const, int const, callable table} x episodes 1..20 x seed; "
                "20%% reward-scale family (rewards / initial Q = 2^20 + k*2^-12, step size 1, epsilon 1: distinct Q-values with relative gap < 1e-9); "
                "30%% object-reuse sequences (ONE learner object trained on A, B, A with the same labels and independently drawn "
                "absorbing sets / action sets / rewards; each stage is one evaluation against its own MDP); "
                "distinct = structural hash of (MDP, learner, parameters, recorded experience); non-trivial = at least one experienced step"
                % (5 if tier == "quick" else 6),
        "samples": [{"case": cases[0], "impl": impl[0]}] if cases else [],
        "cases": len(cases), "generated_cases": ngen, "multi_stage_cases": nmulti,
        "interval_checked": interval_checked, "input_features": stats,
    })
