"""C10 — TD learners' Q-tables are exactly their update rule applied to the experience.

Correspondence: generated proper MDPs x learner x parameters x seed -> msdm learner with a recording
event listener (harness/impl/c10_impl.py) -> model/TD.v:c10_check evaluated by vm_compute on Q:
  * valid_experience  every recorded step starts in a non-absorbing state, uses an available action,
                      a positive-probability successor and the MDP's reward
  * chain_ok          steps chain into episodes that end exactly on absorbing states (SARSA: a_{t+1} = na_t)
  * dq_picks_ok       double Q: every argmax pick is an available maximiser of the updated table
  * keys_same         lazily initialised key set of the model's table = msdm's (insertion ORDER for the
                      single-table learners, as a set for double Q whose result is built from a set)
  * table_close       update rule folded over the recorded experience = returned table, 1e-12 relative
  * policy_close      returned policy = uniform over exact maximisers of the RETURNED table / all actions
theory/TDTransfer.v:c10_main turns an all-true verdict into the property's clauses over R.

Expected SARSA at non-zero softmax temperature: exp() enters the target.  Those cases are folded with
esarsag_step (the behaviour distribution is part of the step) on the RECORDED distribution rounded to
2^-44, with tolerance 1e-9, and the recorded distribution is compared (1e-9) against
eps/n + (1-eps)*softmax(Q(ns,.)/temp) computed here from the MODEL's own row at ns (table_rows trace).
"""
import json
import math
from fractions import Fraction as F
import vlib
from vlib import q, qlist, qmat, qten, nat, natlist, bmat, blist, coqlist, b
import gen_mdp

INFO = {
    "level": "proof",
    "coq_files": ["model/TD.v", "theory/TDTransfer.v"],
    "trusted_base": [
        "model/TD.v c10_check is evaluated on Q (NumQ); theorems are on R; tied by paramcoq transfer (theory/TDTransfer.v c10_check_transfer, train_transfer, c10_main)",
        "harness/impl/c10_impl.py recording listener: (s, a, r, ns) read from the locals msdm hands to end_of_timestep (the names its own EpisodeRewardEventListener relies on), the entry Q(s,a) after the step from whatever state->action->value tables those locals contain (found by structure, not by name); no msdm helper is wrapped, no assumption on the random stream",
        "choice-level data is inferred by harness/c10.py:annotate (SARSA next action = next step's action; double-Q (table, argmax pick) = the candidate reproducing the observed entries; softmax behaviour distribution = computed from the model's own row) and then CHECKED by the Coq fold (dq_picks_ok, chain_ok, table_close)",
        "generated parameters (gamma, step size, epsilon, rewards, initial Q) reach the model exactly and msdm as nearest doubles (dyadic except eps=1/20)",
        "expected SARSA with softmax temperature != 0: the eps-softmax of the model's own row (Python floats, rounded to 2^-44) is an input of the fold; checked again against the rows Coq computes (1e-9)",
    ],
    "assumptions": ["MDP arrays of the model are built from the generator's definition with state/action ids as indices; mdp.actions(s) is the sorted id list"],
}

PRE = """From Coq Require Import QArith List Bool.
From MSDM Require Import base.Num base.NumInst model.MDP model.VI model.TD.
Import ListNotations.
Local Open Scope Q_scope.
Definition S_ (s a : nat) (r : Q) (ns na : nat) (c : bool) (p : nat) (d : list (nat * Q)) : event Q :=
  EStep (mkStep s a r ns na c p d).
Definition B_ (s : nat) : event Q := EStart s.
Definition chk nS nA P R av ab ini g q0 al ep L evs ik iq ip tol atol :=
  @c10_check Q NumQ (mk_mdp nS nA P R av ab ini g) q0 al ep L evs ik iq ip tol atol.
(* numbers leave Coq as (numerator, denominator) pairs: 8.16 prints dyadic Q values in hexadecimal notation *)
Definition qz (x : Q) : bool * Z * Z := (Z.ltb (Qnum x) 0, Z.abs (Qnum x), Zpos (Qden x)).
(* rows Q(ns, .) of the model's table just before each step (expected SARSA, temperature check) *)
Fixpoint rows_before (m : mdp Q) al (qt : qtab Q) (evs : list (event Q)) : list (list Q) :=
  match evs with
  | [] => []
  | EStart _ :: r => rows_before m al qt r
  | EStep e :: r => q_row m qt (st_ns e) :: rows_before m al (esarsag_step m al qt e) r
  end.
Definition rowsb nS nA P R av ab ini g q0 al evs :=
  let m := @mk_mdp Q NumQ nS nA P R av ab ini g in
  map (map qz) (rows_before m al (q_empty m (untab2 q0)) evs).
"""

CLAUSES = ["valid_experience", "chain_ok", "dq_picks_ok", "keys_same", "table_close", "policy_close"]
LEARNER = {"ql": "LQ", "sarsa": "LSarsa", "esarsa": "LESarsa", "esarsag": "LESarsaGen", "dq": "LDouble"}
ALPHAS = ["0", "1/8", "1/2", "1"]
EPSS = ["0", "1/20", "1"]
TEMPS = ["0", "1/2", "2"]
GAMMAS = ["1/2", "3/4", "7/8"]
# exact rationals grow by a few bits per step along update chains and Qred is quadratic in their length:
# longer experiences are decided by the Python oracle only (counted separately, not as evaluations)
MAX_STEPS = 300
MAX_STEPS_GEN = 40
MAX_STEPS_EDGE = 40     # boundary family: 20..70 bits per step
TOL = F(1, 10**12)
TOL_GEN = F(1, 10**9)


# ---------------------------------------------------------------------------------------------
# generation
# ---------------------------------------------------------------------------------------------
SCALE = 2**20


SCALE_BASES = [(2**20, 2**12), (2**20, 2**12), (2**20, 2**12), (2**10, 2**8), (0, 2**30)]


def scale_value(rng, base=None):
    """base + k/den, exact doubles, strictly ordered but nearly tied:
       2^20 + k*2^-12 (relative gap 2e-10: below rel_tol 1e-9 and rtol 1e-5),
       2^10 + k*2^-8  (relative gap 4e-6: inside np.isclose's default rtol 1e-5 only),
       0    + k*2^-30 (absolute gap 9e-10: below np.isclose's default atol 1e-8)"""
    b0, den = base or SCALE_BASES[0]
    return F(b0) + F(rng.randint(0, 3), den)


def gen_case(rng, tier):
    gamma = rng.choice(GAMMAS) if rng.random() < .9 else "1"
    if rng.random() < .06:     # one-state MDP (its only state is absorbing: every episode is empty)
        m = gen_mdp.gen_mdp(rng, nmax=1, amax=3, gamma=gamma, proper=True, min_states=1)
    else:
        m = gen_mdp.gen_mdp(rng, nmax=5 if tier == "quick" else 6, amax=3, gamma=gamma, proper=True, min_states=2)
    # expected SARSA gets two families of its own below: keep the other learners' share of the plain family up
    learner = rng.choice(["ql", "ql", "sarsa", "sarsa", "sarsa", "dq", "dq", "esarsa"])
    r = rng.random()
    n, nA = m["n"], m["nA"]
    if r < .35:
        iq = {"kind": "const", "value": str(F(rng.randint(-24, 24), 4))}
    elif r < .45:
        iq = {"kind": "int", "value": str(rng.randint(-3, 10))}
    else:
        if rng.random() < .5:   # few distinct values: ties between actions survive
            vals = [F(rng.randint(-8, 8), 2) for _ in range(2)]
            tbl = [[str(rng.choice(vals)) for _ in range(nA)] for _ in range(n)]
        else:
            tbl = [[str(F(rng.randint(-40, 40), 8)) for _ in range(nA)] for _ in range(n)]
        iq = {"kind": "table", "table": tbl}
    temp = rng.choice(TEMPS) if rng.random() < .5 else "0"
    alpha, eps = rng.choice(ALPHAS), rng.choice(EPSS)
    if learner == "esarsa" and rng.random() < .3:   # both branches of epsilon_softmax_dist at a temperature
        temp, eps = rng.choice(["1/2", "2"]), rng.choice(["0", "0", "1/20"])
    episodes = rng.choice([1, 1, 2, 3, 5, 8, 12, 20])
    family = "plain"
    ties = rng.random() < .18
    if ties:
        # tie family: several actions share a NON-ZERO maximal Q-value at non-absorbing next states (optimistic /
        # pessimistic constant or per-state-constant initial_q on >= 2 actions everywhere, multi-step episodes),
        # greedy or nearly greedy behaviour at temperature 0.  Tie handling enters expected SARSA's target
        # (distribution over the tied maximisers must stay normalised), double Q's argmax pick, the behaviour
        # sampler and the returned policy; ties at 0 (default initial_q, absorbing states) hide such errors.
        family = "ties"
        for _ in range(50):
            m = gen_mdp.gen_mdp(rng, nmax=5 if tier == "quick" else 6, amax=3, gamma=rng.choice(GAMMAS), proper=True,
                                min_states=3, uniform_actions=True)
            if m["nA"] >= 2:
                break
        n, nA = m["n"], m["nA"]
        learner = rng.choice(["esarsa", "esarsa", "esarsa", "dq", "ql", "sarsa"])
        nz = [x for x in range(-12, 13) if x != 0]
        if rng.random() < .5:
            iq = {"kind": "const", "value": str(F(rng.choice(nz), 4))}
        else:
            iq = {"kind": "table", "table": [[str(F(v, 4))] * nA for v in (rng.choice(nz) for _ in range(n))]}
        temp, eps = "0", rng.choice(["0", "1/20", "1/20"])
        alpha = rng.choice(["1/8", "1/2", "1"])
        episodes = rng.choice([3, 5, 8])
    soft = (not ties) and rng.random() < .16
    if soft:
        # softmax-expectation family: expected SARSA whose target really is a softmax-weighted average (moderate
        # temperature, eps 0 or small, step size > 0, unequal rows, several multi-step episodes): distinguishes the
        # expectation from max / mean / a sampled entry, including on the eps == 0 early-return branch
        family = "softexp"
        m = gen_mdp.gen_mdp(rng, nmax=5 if tier == "quick" else 6, amax=3, gamma=rng.choice(GAMMAS), proper=True,
                            min_states=3, uniform_actions=rng.random() < .7)
        n, nA = m["n"], m["nA"]
        learner = "esarsa"
        iq = {"kind": "table", "table": [[str(F(rng.randint(-16, 16), 4)) for _ in range(nA)] for _ in range(n)]}
        temp, eps = rng.choice(["1/2", "2"]), rng.choice(["0", "0", "1/20"])
        alpha = rng.choice(["1/8", "1/2", "1"])
        if rng.random() < .3:
            # mixture weight 2^-27 / 2^-30 at temperature 0: below np.isclose's atol 1e-8, yet it moves the target
            # by ~1e-9 * (max - mean), far above the 1e-12 fold tolerance
            temp, eps, alpha = "0", str(F(1, 2**rng.choice([27, 30]))), rng.choice(["1/2", "1"])
    if not ties and not soft and rng.random() < .3:
        # reward-scale family: Q-values around 2^20 that differ by multiples of 2^-12 (relative gap < 1e-9):
        # the greedy policy must separate them exactly.  Step size 1 => Q = reward on terminal transitions.
        family = "scale"
        sbase = rng.choice(SCALE_BASES)
        for k, row in m["trans"].items():
            s, a = map(int, k.split(","))
            if not m["absorbing"][s]:
                for ns, p in row:
                    if F(p) > 0:
                        m["reward"]["%d,%d,%d" % (s, a, ns)] = str(scale_value(rng, sbase))
        alpha = "1" if rng.random() < .7 else rng.choice(ALPHAS)
        eps = "1" if rng.random() < .7 else rng.choice(EPSS)
        temp = "0"
        episodes = rng.choice([5, 8, 12, 20])
        if rng.random() < .6:
            iq = {"kind": "table", "table": [[str(scale_value(rng, sbase)) for _ in range(nA)] for _ in range(n)]}
    if family == "scale" and rng.random() < .25:
        # large Q / temperature (> 709) on the softmax branch of the behaviour sampler (needs eps < 1): no overflow
        temp, eps = rng.choice(["1/2", "2"]), rng.choice(["0", "1/20"])
    if family == "plain" and rng.random() < .06:
        temp, eps = "1/64", rng.choice(["0", "1/20"])   # |Q| up to ~32 => Q/temp up to ~2000
    if family == "plain" and rng.random() < .1:
        # boundary family: parameters within 2^-20 / 2^-30 of 0 or 1, a transition row (1 - k*2^-20, 2^-20, ...)
        family = "edge"
        tiny, near1 = F(1, 2**20), 1 - F(1, 2**20)
        m["gamma"] = str(near1)
        alpha = str(rng.choice([tiny, near1, F(1), F(0)]))
        # 2^-27 / 2^-30: below np.isclose's atol 1e-8 yet visible (1e-9 relative) in expected SARSA's mixture weight
        eps = str(rng.choice([F(1, 2**30), F(1, 2**27), near1, F(0), F(1)]))
        skew_row(rng, m, rng.choice([tiny, F(1, 2**40)]))
        episodes = rng.choice([1, 2, 3])
        if learner == "esarsa" and rng.random() < .6:
            alpha, eps, temp = rng.choice(["1/2", "1"]), str(rng.choice([F(1, 2**30), F(1, 2**27)])), "0"
            m["gamma"] = rng.choice(GAMMAS)
    if family == "plain" and rng.random() < .16:
        # non-dyadic family: thirds, tenths, sevenths everywhere (float row sums != 1.0, 0.1-type parameters incl.
        # msdm's default step size); the model gets the rationals, msdm their nearest doubles, rewards are compared
        # bit-exactly with the doubles msdm was given
        family = "decimal"
        learner = rng.choice(["ql", "sarsa", "esarsa", "dq"])
        m["gamma"] = rng.choice(["9/10", "19/20", "99/100", "2/3"])
        alpha = rng.choice(["1/10", "1/10", "3/10", "1/3", "7/10"])
        eps = rng.choice(["1/10", "1/20", "1/3", "0"])
        splits = {1: [["1"]], 2: [["1/3", "2/3"], ["7/10", "3/10"], ["1/10", "9/10"]],
                  3: [["1/3", "1/3", "1/3"], ["7/10", "1/5", "1/10"], ["1/7", "2/7", "4/7"]]}
        for k, row in m["trans"].items():
            pos = [i for i, (ns, p) in enumerate(row) if F(p) > 0]
            sp = list(rng.choice(splits[len(pos)]))
            rng.shuffle(sp)
            for i, pr in zip(pos, sp):
                row[i][1] = pr
            s_, a_ = map(int, k.split(","))
            if not m["absorbing"][s_]:
                for ns, p in row:
                    if F(p) > 0 and rng.random() < .8:
                        m["reward"]["%d,%d,%d" % (s_, a_, ns)] = str(F(rng.randint(-30, 30), rng.choice([10, 10, 3, 7])))
        pos = [i for i, (s_, p) in enumerate(m["init"]) if F(p) > 0]
        sp = list(rng.choice(splits[len(pos)]))
        for i, pr in zip(pos, sp):
            m["init"][i][1] = pr
        if rng.random() < .6:
            iq = {"kind": "table", "table": [[str(F(rng.randint(-20, 20), 10)) for _ in range(nA)] for _ in range(n)]}
        episodes = rng.choice([2, 3, 5, 8])
    if family == "plain" and rng.random() < .06 and n >= 2:
        # long-episode family: one state keeps looping onto itself w.p. 1 - 2^-11 under every action (~2000-step
        # episodes; beyond the exact-fold cap, decided by the Fraction oracle)
        family = "long"
        sl = rng.choice([s_ for s_ in range(n) if not m["absorbing"][s_]])
        ab = rng.choice([s_ for s_ in range(n) if m["absorbing"][s_]])
        for a_ in m["actions"][sl]:
            m["trans"]["%d,%d" % (sl, a_)] = [[sl, "2047/2048"], [ab, "1/2048"]]
        m["init"] = [[sl, "1"]]
        m["gamma"] = "1/2"
        alpha, temp, episodes = rng.choice(["0", "1/2"]), "0", 1
    if learner == "esarsa" and temp != "0":
        episodes = rng.choice([1, 1, 2, 3])     # 44-bit probabilities enter the fold: keep it short
    if family == "softexp":
        episodes = rng.choice([2, 3, 4])
    r = rng.random()
    if r < .03:
        episodes = 0                             # range(0): empty table, policy uniform everywhere
    r = rng.random()
    seed, gseed = rng.randrange(10**6), None
    if r < .08:
        seed = 0                                 # falsy seed
    elif r < .13:
        seed, gseed = None, rng.randrange(10**6)  # module-level `random`, seeded by the runner
    case = {"mdp": m, "learner": learner, "alpha": alpha, "eps": eps, "temp": temp, "family": family,
            "initial_q": iq, "episodes": episodes, "seed": seed, "global_seed": gseed,
            "labels": gen_labels(rng, m), "form": rng.choice(["quick", "quick", "class", "quickmdp", "quick_init_state"]),
            "int_params": rng.random() < .3, "pretouch": rng.random() < .2, "int_rewards": rng.random() < .25,
            "shared_actions": rng.random() < .6, "reuse_mdp_object": rng.random() < .5,
            # construction with positional hyper-parameters in the documented order
            # (episodes, step_size, rand_choose, softmax_temp, initial_q, seed)
            "positional": rng.random() < .4,
            # next_state_dist / initial_state_dist hand out ONE DictDistribution object, rewritten on every call
            "scratch_dists": rng.random() < .25}
    if iq["kind"] == "table" and family not in ("scale",) and rng.random() < .4:
        # callable initial_q that is not a pure function (k-th question about (s,a) answered base + k/4; for double Q
        # a call-counting one with pure values: which of its two tables gets which answer is not specified)
        iq["kind"], iq["delta"] = "stateful", ("0" if learner == "dq" else "1/4")
    if rng.random() < .3:
        # object reuse: the SAME learner object is trained on A, then on B (same state and action labels,
        # independently drawn absorbing set / action sets / transitions / rewards / discount), then on A again;
        # the runner also reuses the MDP OBJECT of A for the third call
        nb = max(2, min(6, n + rng.choice([0, 0, -1, 1]))) if family != "long" else n   # B may differ in size
        if family != "long" and rng.random() < .35:
            # B = the SAME MDP object edited in place between the calls (memoised distributions refilled, rewards,
            # discount changed): same states / action sets / absorbing set, every transition row redrawn
            case["stages"] = [m, rewire(rng, m), m]
            case["episodes"] = min(episodes, 8)
            case["edit_in_place"] = True
            return case
        for _ in range(40):
            mb = gen_mdp.gen_mdp(rng, nmax=nb, amax=3, gamma=rng.choice(GAMMAS), proper=True, min_states=nb)
            if mb["nA"] == nA and family != "long":
                case["stages"] = [m, mb, m]
                case["episodes"] = min(episodes, 8)
                big = m if n >= nb else mb
                case["labels"] = gen_labels(rng, big)
                case["labels"]["a_order"] = None   # action sets differ between the stages: ids in sorted order
                if iq["kind"] in ("table", "stateful"):
                    while len(iq["table"]) < nb:
                        iq["table"].append(list(rng.choice(iq["table"])))
                break
    return case


S_POOL_SIZE, A_POOL_SIZE = 7, 3
FALSY_S = {"str": [0], "tuple": [0], "mixed": [0, 1, 2], "boolmixed": [0, 1, 2]}
FALSY_A = {"str": [0], "tuple": [0], "mixed": [0, 1, 2], "boolmixed": [0]}


def gen_labels(rng, m):
    """label scheme (pools live in harness/impl/c10_impl.py): ids themselves, or strings / tuples / mixed
    types, always containing a falsy label (0, "", (), False) among the states and among the actions;
    per-state action order sorted / reversed / shuffled"""
    n, nA = m["n"], m["nA"]
    ss = rng.choice(["int", "int", "str", "tuple", "mixed", "boolmixed"])
    sa = rng.choice(["int", "int", "str", "tuple", "mixed", "boolmixed"])
    lab = {"s": ss, "a": sa}
    if ss != "int":
        idx = rng.sample(range(S_POOL_SIZE), n)
        if not any(i in FALSY_S[ss] for i in idx):
            idx[rng.randrange(n)] = rng.choice(FALSY_S[ss])
        lab["s_idx"] = idx
    if sa != "int":
        idx = rng.sample(range(A_POOL_SIZE), nA)
        if not any(i in FALSY_A[sa] for i in idx):
            idx[rng.randrange(nA)] = rng.choice(FALSY_A[sa])
        lab["a_idx"] = idx
    mode = rng.choice(["sorted", "reversed", "shuffled"])
    order = []
    for s in range(n):
        ids = list(m["actions"][s])
        if mode == "reversed":
            ids.reverse()
        elif mode == "shuffled":
            rng.shuffle(ids)
        order.append(ids)
    lab["a_order"] = order
    return lab


def skew_row(rng, m, tiny):
    """one transition row of a non-absorbing state becomes (1 - k*tiny, tiny, ..., tiny); the big mass goes to the
    successor nearest to the absorbing set so that episodes stay short"""
    n = m["n"]
    dist = {s: 0 for s in range(n) if m["absorbing"][s]}
    changed = True
    while changed:
        changed = False
        for k, row in m["trans"].items():
            s = int(k.split(",")[0])
            if s in dist:
                continue
            ds = [dist[ns] for ns, p in row if F(p) > 0 and ns in dist]
            if ds:
                dist[s] = min(ds) + 1
                changed = True
    # only rows that can end the episode directly: the big mass goes to an absorbing successor, so the skew can
    # never starve the only progressing transition of a greedy learner (that produced 10^6-step episodes)
    cands = [k for k, row in m["trans"].items()
             if not m["absorbing"][int(k.split(",")[0])] and sum(1 for ns, p in row if F(p) > 0) >= 2
             and any(F(p) > 0 and m["absorbing"][ns] for ns, p in row)]
    if not cands:
        return
    k = rng.choice(cands)
    row = m["trans"][k]
    pos = [ns for ns, p in row if F(p) > 0]
    best = min(pos, key=lambda ns: dist.get(ns, n + 1))
    m["trans"][k] = [[ns, (str(1 - (len(pos) - 1) * tiny) if ns == best else str(tiny)) if F(p) > 0 else "0"] for ns, p in row]


def exact_rewards(case, res):
    """msdm was given float(rational) for every reward; a recorded reward that is bit-identical to that double denotes
    the generator's rational (1/10, not the 55-bit rational of 0.1); any other float stays what it is and fails the
    'the MDP's reward' clause.  Returns the number of non-dyadic rewards mapped."""
    m, cnt = case["mdp"], 0
    for e in res["episodes"]:
        for st in e["steps"]:
            if isinstance(st["r"], str):
                continue
            spec = F(m["reward"].get("%d,%d,%d" % (st["s"], st["a"], st["ns"]), "0"))
            got = vlib.frac(st["r"])
            if got != spec and float(spec) == float(got) and F(float(spec)) == got:
                st["r_float"], st["r"] = st["r"], [spec.numerator, spec.denominator]
                cnt += 1
    return cnt


def observe_initial_q(case, res):
    """stateful callable initial_q: builds the stage's initial table from the FIRST answer given for each (s, a) and checks
    that every entry of a non-absorbing table state was asked exactly once per table (2 tables for double Q) and nothing
    else was asked.  Returns (clause, where) or (None, None)."""
    m, iq = case["mdp"], case["initial_q"]
    base = [[F(x) for x in row] for row in iq["table"]]
    obs = [list(row) for row in base]
    counts = {}
    for s, a, v in res["iq_calls"]:
        if (s, a) not in counts:
            obs[s][a] = vlib.frac(v)
        counts[(s, a)] = counts.get((s, a), 0) + 1
    case["q0_observed"] = obs
    want = {}
    per = 2 if case["learner"] == "dq" else 1
    for s in res["keys"]:
        if 0 <= s < m["n"] and not m["absorbing"][s]:
            for a in m["actions"][s]:
                want[(s, a)] = per
    if counts != want:
        diff = sorted(set(counts.items()) ^ set(want.items()))[:6]
        return "callable initial_q is not asked exactly once per entry of the table (a stateful initial_q gives other values)", \
               {"asked": {"%d,%d" % k: v for k, v in counts.items()}, "expected": {"%d,%d" % k: v for k, v in want.items()}, "first_differences": str(diff)}
    return None, None


def rewire(rng, m):
    """another problem on the SAME states, action sets, absorbing set: every row of a non-absorbing state is redrawn
    (fresh successor set, k/8 probabilities, fresh rewards); properness is kept by forcing a successor strictly
    nearer (shortest-path distance in m) to the absorbing set into every row"""
    n = m["n"]
    dist = {s: 0 for s in range(n) if m["absorbing"][s]}
    changed = True
    while changed:
        changed = False
        for k, row in m["trans"].items():
            s = int(k.split(",")[0])
            ds = [dist[ns] + 1 for ns, p in row if F(p) > 0 and ns in dist]
            if ds and (s not in dist or min(ds) < dist[s]) and not m["absorbing"][s]:
                dist[s] = min(ds)
                changed = True
    mb = json.loads(json.dumps(m))
    mb["reward"] = {k: v for k, v in m["reward"].items() if m["absorbing"][int(k.split(",")[0])]}
    for k, row in m["trans"].items():
        s, a = map(int, k.split(","))
        if m["absorbing"][s] or s not in dist:
            continue
        succ = rng.sample(range(n), rng.randint(1, min(3, n)))
        closer = [x for x in range(n) if dist.get(x, n + 1) < dist[s]]
        if not any(x in closer for x in succ):
            succ[0] = rng.choice(closer)
        succ = list(dict.fromkeys(succ))
        cuts = sorted(rng.sample(range(1, 8), len(succ) - 1)) if len(succ) > 1 else []
        parts = [b_ - a_ for a_, b_ in zip([0] + cuts, cuts + [8])]
        mb["trans"][k] = [[ns, str(F(p, 8))] for ns, p in zip(succ, parts)]
        for ns in succ:
            if rng.random() < .8:
                r = F(rng.randint(-16, 16), 4)
                if r != 0:
                    mb["reward"]["%d,%d,%d" % (s, a, ns)] = str(r)
    mb["gamma"] = rng.choice(GAMMAS)
    return mb


def falsy_id(lab, which):
    """id carrying a falsy label (0 / "" / () / False) under the case's label scheme, or None"""
    scheme = lab.get(which, "int")
    if scheme == "int":
        return 0
    fal = (FALSY_S if which == "s" else FALSY_A)[scheme]
    for i, pi in enumerate(lab[which + "_idx"]):
        if pi in fal:
            return i
    return None


def q0_table(case):
    n, nA = case["mdp"]["n"], case["mdp"]["nA"]
    iq = case["initial_q"]
    if case.get("q0_observed") is not None:     # stateful initial_q: the values it actually returned in this stage
        return case["q0_observed"]
    if iq["kind"] in ("const", "int"):
        return [[F(iq["value"])] * nA for _ in range(n)]
    return [[F(x) for x in row] for row in iq["table"]]


# ---------------------------------------------------------------------------------------------
# Gallina terms
# ---------------------------------------------------------------------------------------------
def round_dyadic(x, bits=44):
    x = vlib.frac(x)
    return F(round(x * 2**bits), 2**bits)


def events_term(case, res, gen=False):
    out = []
    for ep in res["episodes"]:
        out.append("B_ %s" % nat(ep["start"]))
        for st in ep["steps"]:
            dist = "[]"
            if gen:
                dist = coqlist("(%s, %s)" % (nat(a), q(round_dyadic(p))) for a, p in st["dist"])
            out.append("S_ %s %s %s %s %s %s %s %s" % (
                nat(st["s"]), nat(st["a"]), q(st["r"]), nat(st["ns"]), nat(st.get("na", 0)),
                b(st.get("coin", False)), nat(st.get("pick", 0) or 0), dist))
    return coqlist(out)


def mdp_term(case):
    m = case["mdp"]
    P, R, av, absf, ini = gen_mdp.arrays(m, list(range(m["n"])), list(range(m["nA"])))
    return " ".join([nat(m["n"]), nat(m["nA"]), qten(P), qten(R), bmat(av), blist(absf), qlist(ini), q(m["gamma"])])


def dense(case, rows):
    """rows: {s: {a: Fraction}} -> n x nA table, 0 where absent"""
    n, nA = case["mdp"]["n"], case["mdp"]["nA"]
    return [[rows.get(s, {}).get(a, F(0)) for a in range(nA)] for s in range(n)]


def model_kind(case):
    if case["learner"] == "esarsa" and F(case["temp"]) != 0:
        return "esarsag"
    return case["learner"]


# ---------------------------------------------------------------------------------------------
# choice-level data of the experienced history, inferred here (not read from msdm's private helpers or locals)
# ---------------------------------------------------------------------------------------------
def softmax_dist_exact(case, acts, rowvals):
    """eps/n + (1-eps)*softmax(Q(ns,.)/temp) of an exact row, in floats, rounded to 2^-44 (expected SARSA, temp != 0)"""
    ep, temp = float(F(case["eps"])), float(F(case["temp"]))
    xs = [float(x) / temp for x in rowvals]
    mx = max(xs)
    ws = [math.exp(x - mx) for x in xs]
    tot = sum(ws)
    return [[a, round_dyadic(ep / len(acts) + (1 - ep) * w / tot)] for a, w in zip(acts, ws)]


def annotate(case, res):
    """Mirror fold on Fractions that fills in, per step, what the model's fold needs beyond (s, a, r, ns):
      SARSA       na    = the action of the following step (any action at the final, absorbing, state), unless recorded
      double Q    coin, pick = the (table, maximiser of that table at ns) whose update reproduces the two entries
                  Q1(s,a), Q2(s,a) observed after the step (best match; no candidate within 1e-9 => failing clause)
      exp. SARSA  dist  = eps-softmax of the model's own row at ns when temperature != 0
    Independent of how many random numbers msdm draws and of which helper draws them.  Returns (clause, where) or (None, None)."""
    m = case["mdp"]
    kind = case["learner"]
    g, al, ep = F(m["gamma"]), F(case["alpha"]), F(case["eps"])
    q0 = q0_table(case)
    soft = kind == "esarsa" and F(case["temp"]) != 0
    t1, t2 = {}, {}

    def row(t, s):
        if s not in t:
            t[s] = {a: (F(0) if m["absorbing"][s] else q0[s][a]) for a in m["actions"][s]}
        return t[s]
    ok = True
    idx = 0
    mag = [F(0)]

    def see(*xs):
        mag[0] = max([mag[0]] + [abs(x) for x in xs])
    res["_mag"] = F(0)
    for ep_i, epi in enumerate(res["episodes"]):
        steps = epi["steps"]
        if kind == "sarsa" and 0 <= epi["start"] < m["n"]:
            row(t1, epi["start"])
        for j, st in enumerate(steps):
            s, a, ns = st["s"], st["a"], st["ns"]
            valid = ok and 0 <= s < m["n"] and 0 <= ns < m["n"] and a in m["actions"][s] and not isinstance(st["r"], str)
            if kind == "sarsa" and st.get("na") is None:
                st["na"] = steps[j + 1]["a"] if j + 1 < len(steps) else (m["actions"][ns][0] if 0 <= ns < m["n"] and m["actions"][ns] else 0)
            if not valid:
                ok = False          # the validity clauses will name the step; keep the terms well-formed
                if kind == "dq":
                    st.setdefault("coin", False), st.setdefault("pick", 0)
                if soft:
                    st["dist"] = []
                continue
            r = vlib.frac(st["r"])
            if kind == "dq":
                row(t1, s), row(t2, s), row(t1, ns), row(t2, ns)
                got = [vlib.frac(x) for x in st.get("after", []) if not isinstance(x, str)]
                best = None
                for coin in (True, False):
                    upd, oth = (t1, t2) if coin else (t2, t1)
                    mx = max(upd[ns].values())
                    for pick in [b_ for b_ in m["actions"][ns] if upd[ns][b_] == mx]:
                        new = upd[s][a] + al * (r + g * oth[ns][pick] - upd[s][a])
                        exp_after = [new, t2[s][a]] if coin else [t1[s][a], new]
                        if len(got) == 2:
                            err = max(abs(x - y) / (1 + abs(y)) for x, y in zip(got, exp_after))
                        else:
                            err = F(0)
                        if best is None or err < best[0]:
                            best = (err, coin, pick, new)
                if len(got) != 2:
                    return "double Q-learning step does not expose its two tables to the event listener", \
                           {"episode": ep_i, "step_index": idx, "step": st}
                if best is None or best[0] > F(1, 10**9):
                    return "entry written at a step is not the update rule applied to the table", \
                           {"episode": ep_i, "step_index": idx, "step": st, "written": [str(x) for x in got],
                            "closest_candidate_relative_error": str(float(best[0])) if best else None}
                _, coin, pick, new = best
                st["coin"], st["pick"] = coin, pick
                see(r, t1[s][a], t2[s][a], new, *t1[ns].values(), *t2[ns].values())
                (t1 if coin else t2)[s][a] = new
            else:
                row(t1, s)
                rn = row(t1, ns)
                if kind == "ql":
                    tgt = max(rn.values())
                elif kind == "sarsa":
                    tgt = rn.get(st["na"], F(0))
                elif soft:
                    acts = list(m["actions"][ns])
                    st["dist"] = softmax_dist_exact(case, acts, [rn[b_] for b_ in acts])
                    tgt = sum(rn[b_] * p for b_, p in st["dist"])
                else:
                    mx = max(rn.values())
                    k = sum(1 for v in rn.values() if v == mx)
                    tgt = sum(v * (ep / len(rn) + ((1 - ep) / k if v == mx else 0)) for v in rn.values())
                see(r, t1[s][a], tgt, *rn.values())
                t1[s][a] = t1[s][a] + al * (r + g * tgt - t1[s][a])
                see(t1[s][a])
            idx += 1
            res["_mag"] = mag[0]
    return None, None


# ---------------------------------------------------------------------------------------------
# independent exact oracle (violation search only): the update rules on Fractions
# ---------------------------------------------------------------------------------------------
def oracle_tol(case):
    """the oracle is exact (Fractions) except for the softmax of expected SARSA at a temperature (Python floats):
    same relative bounds as the Coq comparison, one decade looser, so that it can name what Coq rejects"""
    soft = case["learner"] == "esarsa" and F(case["temp"]) != 0
    return F(1, 10**8) if soft else F(1, 10**11)


def oracle(case, res):
    """folds the published update rules over the recorded experience; returns
    (tables, first_bad_step or None, clause or None)"""
    m = case["mdp"]
    g, al, ep = F(m["gamma"]), F(case["alpha"]), F(case["eps"])
    q0 = q0_table(case)
    kind = case["learner"]
    temp0 = F(case["temp"]) == 0

    def fresh():
        return {}

    def row(t, s):
        if s not in t:
            t[s] = {a: (F(0) if m["absorbing"][s] else q0[s][a]) for a in m["actions"][s]}
        return t[s]
    t1, t2 = fresh(), fresh()
    idx = 0
    for ep_i, epi in enumerate(res["episodes"]):
        if kind == "sarsa":
            row(t1, epi["start"])
        cur, prev_na = epi["start"], None
        for st in epi["steps"]:
            s, a, ns, r = st["s"], st["a"], st["ns"], vlib.frac(st["r"])
            where = {"episode": ep_i, "step_index": idx, "step": st}
            if s != cur:
                return None, where, "experienced step does not start where the previous one ended"
            if kind == "sarsa" and prev_na is not None and a != prev_na:
                return None, where, "SARSA action taken is not the next action sampled in the previous step"
            cur, prev_na = ns, st.get("na")
            if m["absorbing"][s]:
                return None, where, "experienced step starts in an absorbing state"
            if a not in m["actions"][s]:
                return None, where, "experienced action is not available in the state"
            succ = {x: F(p) for x, p in m["trans"]["%d,%d" % (s, a)]}
            if succ.get(ns, F(0)) <= 0:
                return None, where, "experienced successor has probability 0"
            if r != F(m["reward"].get("%d,%d,%d" % (s, a, ns), "0")):
                return None, where, "experienced reward is not the MDP's reward"
            if kind == "dq":
                row(t1, s), row(t2, s), row(t1, ns), row(t2, ns)
                upd, oth = (t1, t2) if st["coin"] else (t2, t1)
                pick = st["pick"]
                if pick not in upd[ns] or upd[ns][pick] != max(upd[ns].values()):
                    return None, where, "double-Q argmax pick is not a maximiser of the updated table"
                tgt = oth[ns][pick]
                upd[s][a] = upd[s][a] + al * (r + g * tgt - upd[s][a])
                exp_after = [t1[s][a], t2[s][a]]
            else:
                row(t1, s)
                rn = row(t1, ns)
                if kind == "ql":
                    tgt = max(rn.values())
                elif kind == "sarsa":
                    if st["na"] not in rn:
                        return None, where, "SARSA next action not available in the next state"
                    tgt = rn[st["na"]]
                else:
                    if temp0:
                        mx = max(rn.values())
                        k = sum(1 for v in rn.values() if v == mx)
                        tgt = sum(v * (ep / len(rn) + ((1 - ep) / k if v == mx else 0)) for v in rn.values())
                    else:
                        vals = [float(v) / float(F(case["temp"])) for v in rn.values()]
                        mxv = max(vals)
                        ws = [math.exp(v - mxv) for v in vals]
                        tot = sum(ws)
                        tgt = sum(v * (ep / len(rn) + (1 - ep) * F(w / tot)) for v, w in zip(rn.values(), ws))
                t1[s][a] = t1[s][a] + al * (r + g * tgt - t1[s][a])
                exp_after = [t1[s][a]]
            got = [vlib.frac(x) for x in st.get("after", []) if not isinstance(x, str)]
            for gx, ex in zip(got if len(got) == len(exp_after) else [], exp_after):
                if abs(gx - ex) > oracle_tol(case) * (1 + abs(ex) + res.get("_mag", F(0))):
                    where.update({"written": [str(x) for x in got], "update_rule_gives": [str(x) for x in exp_after]})
                    return None, where, "entry written at a step is not the update rule applied to the table"
            idx += 1
        if not m["absorbing"][cur]:
            return None, {"episode": ep_i, "last_state": cur}, "episode ends in a non-absorbing state"
    if kind == "dq":
        keys = set(t1) | set(t2)
        t = {s: {a: row(t1, s)[a] / 2 + row(t2, s)[a] / 2 for a in m["actions"][s]} for s in keys}
    else:
        t = t1
    return t, None, None


def tied_nonzero_targets(case, res):
    """number of expected-SARSA (temperature 0) steps whose next-state row has >= 2 tied maximal NON-ZERO values
    while eps < 1 and step size > 0 (input-class counter: there the normalisation over tied maximisers matters)"""
    m = case["mdp"]
    if case["learner"] != "esarsa" or F(case["temp"]) != 0:
        return 0
    al, g, ep = F(case["alpha"]), F(m["gamma"]), F(case["eps"])
    if ep >= 1 or al <= 0:
        return 0
    q0, t, cnt = q0_table(case), {}, 0

    def row(s):
        if s not in t:
            t[s] = {a: (F(0) if m["absorbing"][s] else q0[s][a]) for a in m["actions"][s]}
        return t[s]
    for e in res["episodes"]:
        for st in e["steps"]:
            if st["s"] >= m["n"] or st["ns"] >= m["n"] or st["a"] not in row(st["s"]):
                return cnt
            rn = row(st["ns"])
            mx = max(rn.values())
            k = sum(1 for v in rn.values() if v == mx)
            cnt += int(k >= 2 and mx != 0)
            tgt = sum(v * (ep / len(rn) + ((1 - ep) / k if v == mx else 0)) for v in rn.values())
            t[st["s"]][st["a"]] += al * (vlib.frac(st["r"]) + g * tgt - t[st["s"]][st["a"]])
    return cnt


def interval_bounds(case):
    m = case["mdp"]
    g = F(m["gamma"])
    if g >= 1:
        return None
    q0 = q0_table(case)
    init = [q0[s][a] for s in range(m["n"]) for a in m["actions"][s] if not m["absorbing"][s]] + [F(0)]
    # rewards a step can actually carry: from a non-absorbing state, along a positive-probability transition
    rews = []
    for k, row in m["trans"].items():
        s, a = map(int, k.split(","))
        if not m["absorbing"][s]:
            rews += [F(m["reward"].get("%d,%d,%d" % (s, a, ns), "0")) for ns, p in row if F(p) > 0]
    if not rews:
        rews = [F(0)]
    return min(init + [min(rews) / (1 - g)]), max(init + [max(rews) / (1 - g)])


def search_failing(case, res, impl_rows, impl_pol):
    """concrete failing clause of the property on this run, or None"""
    m = case["mdp"]
    kind = case["learner"]
    t, where, clause = oracle(case, res)
    if clause:
        return clause, where
    # absorbing states fixed at 0
    for s, rowv in impl_rows.items():
        if m["absorbing"][s] and any(v != 0 for v in rowv.values()):
            if kind == "sarsa":
                return "SIG:C10:sarsa:absorbing-initial-state-initialised-from-initial_q", {"state": s, "row": {a: str(v) for a, v in rowv.items()}}
            return "absorbing state has a non-zero Q-value", {"state": s, "row": {a: str(v) for a, v in rowv.items()}}
    if set(t) != set(impl_rows):
        return "returned table's key set is not the set of states read during training", {"expected": sorted(t), "returned": sorted(impl_rows)}
    for s in t:
        if set(t[s]) != set(impl_rows[s]):
            return "returned row does not span the available actions", {"state": s}
        for a in t[s]:
            if abs(t[s][a] - impl_rows[s][a]) > oracle_tol(case) * (1 + abs(t[s][a]) + res.get("_mag", F(0))):
                return "returned Q-value is not the update rule folded over the experience", \
                       {"state": s, "action": a, "returned": str(impl_rows[s][a]), "fold": str(t[s][a])}
    # policy w.r.t. the returned table
    for s in range(m["n"]):
        pol = impl_pol[s]
        if s in impl_rows:
            mx = max(impl_rows[s].values())
            want = [a for a in m["actions"][s] if impl_rows[s][a] == mx]
            sig = "returned policy is not uniform over exactly the maximal-Q actions of a table state"
        else:
            want = list(m["actions"][s])
            sig = "SIG:C10:policy:unvisited-state-not-uniform-over-all-actions"
        got = {a: p for a, p in pol.items() if p != 0}
        if set(got) != set(want) or any(abs(p - F(1, len(want))) > F(1, 10**12) for p in got.values()):
            return sig, {"state": s, "policy": {a: str(p) for a, p in pol.items()}, "expected_support": want}
    return None, None


# ---------------------------------------------------------------------------------------------
def run(ctx):
    tier = ctx.tier
    ncases = 200 if tier == "quick" else 3000
    if ctx.replay_case:
        cases = [ctx.replay_case["detail"]["case"]]
    else:
        cases = [gen_case(ctx.rng, tier) for _ in range(ncases)]
        # constructor error path: initial_q neither a number nor callable must raise ValueError
        for bad in ("bad", [1.0], None):
            c = gen_case(ctx.rng, tier)
            c["expect_raise"] = bad if bad is not None else {"not": "callable"}
            cases.append(c)
    shards = min(ctx.jobs, 8 if tier == "quick" else 16)
    impl = ctx.impl("c10_impl.py", {"cases": cases}, shards=max(1, shards))["results"]
    # every stage of a multi-stage case is judged on its own, against its own MDP; the view keeps the whole
    # case (all stages) so that a replay re-runs the same learner object through the same sequence
    ngen, nmulti = len(cases), sum(1 for c in cases if c.get("stages"))
    vcases, vimpl = [], []
    error_path_checked = 0
    for case, res in zip(cases, impl):
        stages = case.get("stages") or [case["mdp"]]
        if case.get("expect_raise") is not None and "error" not in res:
            error_path_checked += 1
            if res.get("raised") != "ValueError":
                ctx.violation("C10:%s:constructor accepts an initial_q that is neither a number nor callable" % case["learner"],
                              {"case": case, "raised": res.get("raised")}, found=True)
            continue
        if "error" in res:
            vcases.append(case), vimpl.append(res)
            continue
        for k, (mm, r) in enumerate(zip(stages, res["stages"])):
            vcases.append(dict(case, mdp=mm, stage=k)), vimpl.append(r)
    cases, impl = vcases, vimpl

    terms, meta = [], []
    parsed = {}
    stats = {"by_learner": {}, "alpha": {}, "eps": {}, "temp": {}, "initial_q": {}, "steps_total": 0, "max_steps": 0,
             "absorbing_start_episodes": 0, "sarsa_absorbing_start_first_seen": 0, "unvisited_state_cases": 0,
             "unvisited_nonconstant_init_cases": 0, "gamma_one": 0, "self_loop_steps": 0,
             "ties_in_returned_rows": 0, "esarsa_softmax_cases": 0, "keys_mutated_by_policy_query": 0, "long_runs_oracle_only": 0,
             "family": {}, "stage": {}, "near_tie_rows_distinct_within_1e-9": 0, "reuse_absorbing_set_differs": 0,
             "reuse_action_sets_differ": 0}
    distinct = set()
    for i, (case, res) in enumerate(zip(cases, impl)):
        kind = case["learner"]
        if "error" in res:
            exc = res["error"].split(":")[0]
            sig = "C10:%s:raises:%s" % (kind, exc)
            if exc == "StepBudgetExceeded":
                sig = "C10:%s:training does not terminate on a proper MDP (step budget of the recording listener exceeded)" % kind
            if exc == "OverflowError" and "epsilon_softmax_sample" in res.get("trace", ""):
                sig = "C10:softmax-sample-overflows-for-large-q-over-temperature"
            ctx.violation(sig, {"case": case, "error": res["error"], "trace": res.get("trace", "")}, found=True)
            continue
        m = case["mdp"]
        # ---- structural checks on what came back (cheap, Python) ----
        bad = None
        impl_rows = {}
        for s, rowv in res["table"]:
            vals = {}
            for a, v in rowv:
                if isinstance(v, str):
                    bad = ("non-finite Q-value", {"state": s, "action": a, "value": v})
                else:
                    vals[a] = vlib.frac(v)
            impl_rows[s] = vals
            if sorted(vals) != sorted(m["actions"][s]) and not bad:
                bad = ("returned row does not span the available actions", {"state": s, "row_actions": sorted(vals)})
        impl_pol = [{a: vlib.frac(p) for a, p in row} for row in res["policy"]]
        for s, pol in enumerate(impl_pol):
            if any(a not in m["actions"][s] for a in pol) and not bad:
                bad = ("policy supports an unavailable action", {"state": s})
        if len(res["episodes"]) != int(case["episodes"]) and not bad:
            bad = ("number of episodes differs from the configured one", {"episodes": len(res["episodes"])})
        if not res.get("twin_ok", True) and not bad:
            bad = ("a second learner object with the default listener on the same MDP object returns a different table or episode rewards",
                   res.get("twin_detail"))
        if not res.get("policy_requery_ok", True) and not bad:
            bad = ("policy answers differently when queried again (also after later train_on calls)", {})
        if not res.get("inputs_untouched", True) and not bad:
            bad = ("train_on / the policy mutated the caller's objects (action lists, distributions, rewards, initial_q table)", {})
        if not res.get("stale_results_ok", True) and not bad:
            bad = ("a returned Q-table changed after a later train_on / policy query", {})
        if res["keys_after_policy"] != res["keys"]:
            stats["keys_mutated_by_policy_query"] += 1
            if not bad:
                bad = ("SIG:C10:policy:unvisited-state-not-uniform-over-all-actions",
                       {"keys_before": res["keys"], "keys_after_policy_query": res["keys_after_policy"]})
        if bad:
            sig = bad[0][4:] if bad[0].startswith("SIG:") else "C10:%s:%s" % (kind, bad[0])
            ctx.violation(sig, {"case": case, "clause": bad[0], "where": bad[1], "impl": res}, found=True)
            continue
        parsed[i] = (impl_rows, impl_pol)
        n_nondyadic_rewards = exact_rewards(case, res)
        if case["initial_q"]["kind"] == "stateful":
            clause, where = observe_initial_q(case, res)
            if clause:
                ctx.violation("C10:%s:%s" % (kind, clause), {"case": case, "failing_clause": clause, "where": where, "impl": res}, found=True)
                continue
        mk = model_kind(case)
        gen = mk == "esarsag"
        nsteps = sum(len(e["steps"]) for e in res["episodes"])
        if nsteps > 40 * MAX_STEPS:
            stats["skipped_too_long_for_exact_arithmetic"] = stats.get("skipped_too_long_for_exact_arithmetic", 0) + 1
            continue
        stats["episodes_longer_than_1000_steps"] = stats.get("episodes_longer_than_1000_steps", 0) + \
            sum(1 for e in res["episodes"] if len(e["steps"]) > 1000)
        stats["family_all"] = stats.get("family_all", {})
        stats["family_all"][case.get("family", "plain")] = stats["family_all"].get(case.get("family", "plain"), 0) + 1
        clause, where = annotate(case, res)
        if clause:
            ctx.violation("C10:%s:%s" % (kind, clause), {"case": case, "failing_clause": clause, "where": where, "impl": res}, found=True)
            continue
        if nsteps > (MAX_STEPS_EDGE if case.get("family") == "edge" else MAX_STEPS_GEN if gen
                     else MAX_STEPS // 2 if case.get("family") == "decimal" else MAX_STEPS):
            stats["long_runs_oracle_only"] += 1
            clause, where = search_failing(case, res, impl_rows, impl_pol)
            if clause:
                sig = clause[4:] if clause.startswith("SIG:") else "C10:%s:%s" % (kind, clause)
                ctx.violation(sig, {"case": case, "failing_clause": clause, "where": where, "impl": res}, found=True)
            continue
        # ---- terms ----
        mt = mdp_term(case)
        q0t = qmat(q0_table(case))
        evs = events_term(case, res, gen=gen)
        iq = qmat(dense(case, impl_rows))
        ip = qmat(dense(case, {s: pol for s, pol in enumerate(impl_pol)}))
        tol = TOL_GEN if gen else TOL
        atol = tol * res.get("_mag", F(0))      # rounding is relative to the largest operand the run has seen
        terms.append("chk %s %s %s %s %s %s %s %s %s %s %s" % (
            mt, q0t, q(case["alpha"]), q(case["eps"]), LEARNER[mk], evs, natlist(res["keys"]), iq, ip, q(tol), q(atol)))
        meta.append(("chk", i))
        if gen:
            terms.append("rowsb %s %s %s %s" % (mt, q0t, q(case["alpha"]), evs))
            meta.append(("rows", i))
        # ---- input distribution ----
        stats["by_learner"][kind] = stats["by_learner"].get(kind, 0) + 1
        stats["family"][case.get("family", "plain")] = stats["family"].get(case.get("family", "plain"), 0) + 1
        lab = case.get("labels") or {}
        for key, val in (("form", case.get("form", "quick")), ("state_labels", lab.get("s", "int")),
                         ("action_labels", lab.get("a", "int")),
                         ("seed_kind", "none" if case["seed"] is None else ("zero" if case["seed"] == 0 else "other")),
                         ):
            stats.setdefault(key, {})
            stats[key][val] = stats[key].get(val, 0) + 1
        stats.setdefault("branches", {})
        br = stats["branches"]

        def hit(name, cond=True):
            br[name] = br.get(name, 0) + int(bool(cond))
        allsteps = [st for e in res["episodes"] for st in e["steps"]]
        ep_, tp_ = F(case["eps"]), F(case["temp"])
        hit("episodes_0", int(case["episodes"]) == 0)
        hit("single_state_mdp", m["n"] == 1)
        hit("int_params", case.get("int_params"))
        hit("pretouched_mdp_object", case.get("pretouch"))
        hit("action_order_not_sorted", lab.get("a_order") and any(o != sorted(o) for o in lab["a_order"]))
        hit("sample:random_branch_possible(eps>0)", ep_ > 0 and allsteps)
        hit("sample:softmax_branch(temp!=0,eps<1)", tp_ != 0 and ep_ < 1 and allsteps)
        hit("sample:hardmax_branch(temp=0,eps<1)", tp_ == 0 and ep_ < 1 and allsteps)
        hit("dist:temp0_eps0_early_return", kind == "esarsa" and tp_ == 0 and ep_ == 0 and allsteps)
        hit("dist:temp0_mixture", kind == "esarsa" and tp_ == 0 and ep_ != 0 and allsteps)
        hit("dist:softmax_eps0_early_return", kind == "esarsa" and tp_ != 0 and ep_ == 0 and allsteps)
        hit("dist:softmax_mixture", kind == "esarsa" and tp_ != 0 and ep_ != 0 and allsteps)
        hit("dq:coin_true_and_false_both_seen", kind == "dq" and {st.get("coin") for st in allsteps} >= {True, False})
        hit("episode_starts_in_absorbing_state", any(m["absorbing"][e["start"]] for e in res["episodes"]))
        hit("step_into_absorbing_state", any(m["absorbing"][st["ns"]] for st in allsteps))
        hit("deterministic_transition_taken", any(sum(1 for x, p in m["trans"]["%d,%d" % (st["s"], st["a"])] if F(p) > 0) == 1 for st in allsteps))
        hit("falsy_action_label_taken", any(st["a"] == falsy_id(lab, "a") for st in allsteps))
        hit("falsy_state_label_visited", any(falsy_id(lab, "s") in (st["s"], st["ns"]) for st in allsteps))
        hit("sarsa_falsy_next_action", kind == "sarsa" and any(st.get("na") == falsy_id(lab, "a") for st in allsteps))
        hit("policy_state_absent_from_table", any(s not in impl_rows for s in range(m["n"])))
        hit("initial_q:" + case["initial_q"]["kind"])
        hit("family_ties:" + kind, case.get("family") == "ties" and allsteps)
        hit("stateful_initial_q_with_steps:" + kind, case["initial_q"]["kind"] == "stateful" and allsteps)
        hit("positional_construction:" + kind, case.get("positional"))
        hit("scratch_distribution_object_rewritten_per_call", case.get("scratch_dists") and allsteps)
        hit("mdp_object_edited_in_place_between_calls", case.get("edit_in_place") and case.get("stage", 0) >= 1 and allsteps)
        # audit round 2 classes
        hit("(1)esarsa_eps_2^-27..2^-30_effective", kind == "esarsa" and 0 < ep_ <= F(1, 2**27) and F(case["alpha"]) > 0 and
            any(not m["absorbing"][st["ns"]] and len(m["actions"][st["ns"]]) >= 2 for st in allsteps))
        hit("(1)transition_row_with_probability_<=2^-20", any(0 < F(p) <= F(1, 2**20) for row in m["trans"].values() for x, p in row))
        hit("(2)scale_base:" + ("none" if case.get("family") != "scale" else
                                "2^20" if any(F(x) >= 2**19 for x in m["reward"].values()) else
                                "2^10" if any(F(x) >= 2**9 for x in m["reward"].values()) else "0"))
        hit("(3)non_dyadic_rewards_experienced", n_nondyadic_rewards > 0)
        hit("(3)family_decimal_with_steps:" + kind, case.get("family") == "decimal" and allsteps)
        hit("(4)one_shared_action_list_object", case.get("form") == "class" and case.get("shared_actions") and
            all(x == m["actions"][0] for x in m["actions"]))
        hit("(4)inputs_snapshot_compared")
        hit("(5)second_problem_of_different_size", case.get("stages") and len({x["n"] for x in case["stages"]}) > 1)
        hit("(5)stale_results_requeried_after_later_calls", bool(case.get("stages")))
        hit("(5)problem_rebuilt_instead_of_reused", case.get("stages") and not case.get("reuse_mdp_object", True) and case.get("stage") == 2)
        hit("(6)one_action_everywhere", m["nA"] == 1 and allsteps)
        hit("(6)n_states_equals_n_actions", m["n"] == m["nA"])
        hit("(6)int_typed_rewards", case.get("int_rewards") and allsteps)
        hit("immediate_repeat_of_same_state_action(self-loop,alpha>0):" + kind, F(case["alpha"]) > 0 and any(
            x["ns"] == x["s"] and y["s"] == x["s"] and y["a"] == x["a"]
            for e in res["episodes"] for x, y in zip(e["steps"], e["steps"][1:])))
        hit("esarsa_softmax_target_effective(alpha>0,next_state_non_absorbing_with>=2_actions)",
            kind == "esarsa" and tp_ != 0 and F(case["alpha"]) > 0 and nsteps <= MAX_STEPS_GEN and
            any(not m["absorbing"][st["ns"]] and len(m["actions"][st["ns"]]) >= 2 for st in allsteps))
        hit("esarsa_softmax_target_effective_eps0", kind == "esarsa" and tp_ != 0 and ep_ == 0 and F(case["alpha"]) > 0
            and nsteps <= MAX_STEPS_GEN and
            any(not m["absorbing"][st["ns"]] and len(m["actions"][st["ns"]]) >= 2 for st in allsteps))
        if nsteps <= MAX_STEPS:
            hit("esarsa_temp0_tied_nonzero_max_at_next_state", tied_nonzero_targets(case, res) > 0)
        hit("scale_family_with_softmax_temperature(q/temp>709)", case.get("family") == "scale" and tp_ != 0 and allsteps)
        hit("falsy_action_taken:" + kind, any(st["a"] == falsy_id(lab, "a") for st in allsteps))
        hit("falsy_state_visited:" + kind, any(falsy_id(lab, "s") in (st["s"], st["ns"]) for st in allsteps))
        if case.get("stages"):
            stats["stage"][str(case["stage"])] = stats["stage"].get(str(case["stage"]), 0) + 1
            if case["stage"] == 1:
                ma, mb = case["stages"][0], case["stages"][1]
                stats["reuse_absorbing_set_differs"] += int(ma["absorbing"] != mb["absorbing"])
                stats["reuse_action_sets_differ"] += int(ma["actions"] != mb["actions"])
        for rv in impl_rows.values():
            mxv = max(rv.values())
            if any(v != mxv and abs(v - mxv) <= F(1, 10**9) * abs(mxv) for v in rv.values()):
                stats["near_tie_rows_distinct_within_1e-9"] += 1
        for k in ("alpha", "eps", "temp"):
            stats[k][case[k]] = stats[k].get(case[k], 0) + 1
        stats["initial_q"][case["initial_q"]["kind"]] = stats["initial_q"].get(case["initial_q"]["kind"], 0) + 1
        stats["steps_total"] += nsteps
        stats["max_steps"] = max(stats["max_steps"], nsteps)
        stats["gamma_one"] += int(F(m["gamma"]) == 1)
        stats["esarsa_softmax_cases"] += int(gen)
        seen = set()
        for e in res["episodes"]:
            if m["absorbing"][e["start"]]:
                stats["absorbing_start_episodes"] += 1
                if kind == "sarsa" and e["start"] not in seen:
                    stats["sarsa_absorbing_start_first_seen"] += 1
            seen.add(e["start"])
            for st in e["steps"]:
                seen.add(st["s"]), seen.add(st["ns"])
                stats["self_loop_steps"] += int(st["s"] == st["ns"])
        unvisited = [s for s in range(m["n"]) if s not in impl_rows]
        if unvisited:
            stats["unvisited_state_cases"] += 1
            q0 = q0_table(case)
            if any(len({q0[s][a] for a in m["actions"][s]}) > 1 for s in unvisited):
                stats["unvisited_nonconstant_init_cases"] += 1
        if any(len(rv) > 1 and list(rv.values()).count(max(rv.values())) > 1 for rv in impl_rows.values()):
            stats["ties_in_returned_rows"] += 1
        if nsteps > 0:
            distinct.add(vlib.structural_hash([case["mdp"], kind, case["alpha"], case["eps"], case["temp"],
                                               case["initial_q"], res["episodes"]]))

    import time as _t
    _t0 = _t.time()
    vals = ctx.coq(PRE, terms, shard=10 if tier == "quick" else 20)
    stats["coq_wall_s"] = round(_t.time() - _t0, 1)
    nchk = 0
    interval_checked = 0
    rows_by_case = {i: v for (k, i), v in zip(meta, vals) if k == "rows"}
    for (k, i), v in zip(meta, vals):
        if k != "chk":
            continue
        case, res = cases[i], impl[i]
        kind = case["learner"]
        impl_rows, impl_pol = parsed[i]
        if isinstance(v, vlib.CoqError):
            ctx.violation("C10:coq-evaluation-failed", {"case": case, "error": str(v)[:800]}, found=False)
            continue
        nchk += 1
        failed = [c for c, okv in zip(CLAUSES, v) if okv is not True]
        # expected SARSA with a softmax temperature: the recorded distribution must be the eps-softmax of the
        # model's own row Q(ns, .)
        if not failed and model_kind(case) == "esarsag":
            rb = rows_by_case.get(i)
            if isinstance(rb, vlib.CoqError) or rb is None:
                ctx.violation("C10:coq-evaluation-failed", {"case": case, "error": str(rb)[:800]}, found=False)
                continue
            steps = [st for e in res["episodes"] for st in e["steps"]]
            ep, temp = float(F(case["eps"])), float(F(case["temp"]))
            for st, rowq in zip(steps, rb):
                acts = case["mdp"]["actions"][st["ns"]]
                rowq = [F(-nd[1] if nd[0] else nd[1], nd[2]) for nd in rowq]
                xs = [float(x) / temp for x in rowq]
                mx = max(xs)
                ws = [math.exp(x - mx) for x in xs]
                tot = sum(ws)
                want = {a: ep / len(acts) + (1 - ep) * w / tot for a, w in zip(acts, ws)}
                got = {a: float(vlib.frac(p)) for a, p in st["dist"]}
                if set(got) != set(want) or any(abs(got[a] - want[a]) > 1e-9 for a in want):
                    ctx.violation("C10:esarsa:behaviour distribution in the target is not the epsilon-softmax of Q(ns,.)",
                                  {"case": case, "step": st, "model_row": [str(x) for x in rowq], "expected": want}, found=True)
                    break
        if failed:
            clause, where = search_failing(case, res, impl_rows, impl_pol)
            detail = {"case": case, "failed_checks": failed, "impl": res}
            if clause:
                detail["failing_clause"], detail["where"] = clause, where
                sig = clause[4:] if clause.startswith("SIG:") else "C10:%s:%s" % (kind, clause)
                ctx.violation(sig, detail, found=True)
            else:
                detail["correspondence"] = "model/TD.v:c10_check rejects the run; the Python oracle found no failing clause"
                ctx.violation("C10:%s:model-differs:%s" % (kind, "+".join(failed)), detail, found=False)
            continue
        # the interval clause, on the implementation's returned numbers (theorem td_interval covers the model)
        bnd = interval_bounds(case)
        if bnd and 0 <= F(case["alpha"]) <= 1:
            interval_checked += 1
            lo, hi = bnd
            slack = F(1, 10**12) * (1 + max(abs(lo), abs(hi)))     # float rounding of the returned values only
            for s, rv in impl_rows.items():
                for a, x in rv.items():
                    if not (lo - slack <= x <= hi + slack):
                        ctx.violation("C10:%s:Q-value outside the interval spanned by initial values and discounted reward bounds" % kind,
                                      {"case": case, "state": s, "action": a, "value": str(x), "interval": [str(lo), str(hi)], "impl": res}, found=True)

    ctx.coverage.update({
        "evaluations": nchk,
        "distinct_nontrivial": len(distinct),
        "rule": "proper MDPs from harness/gen_mdp.py (2..%d states, 1..3 actions, state-dependent action sets, k/8 probabilities, "
                "integer/quarter rewards of either sign, absorbing states possibly in the initial distribution, gamma in {1/2,3/4,7/8} or 1) "
                "x learner in {QLearning, SARSA, ExpectedSARSA, DoubleQLearning} x step size {0,1/8,1/2,1} x epsilon {0,1/20,1} "
                "x softmax temperature {0,1/2,2} x initial_q {float const, int const, callable table} x episodes 1..20 x seed; "
                "20%% reward-scale family (rewards / initial Q = 2^20 + k*2^-12, step size 1, epsilon 1: distinct Q-values with relative gap < 1e-9); "
                "30%% object-reuse sequences (ONE learner object trained on A, B, A with the same labels and independently drawn "
"absorbing sets / action sets / rewards; each stage is one evaluation against its own MDP; the MDP object of A is reused, "
                "20%% with its cached matrix views touched first; every run is repeated by a twin learner with msdm's default listener); "
"non-dyadic family (thirds/tenths/sevenths in probabilities, rewards, gamma, step size, eps); long-episode family (~1000-step episodes, "
                "Fraction oracle only); scale family bases 2^20 (gap 2^-12), 2^10 (gap 2^-8), 0 (gap 2^-30); eps 2^-27/2^-30; B of a different size; "
                "int-typed rewards; one shared action-list object; caller-object snapshots before/after; earlier results re-queried after later calls; "
                "stateful (call-logging, base + k/4) callable initial_q; positional construction in the documented parameter order (40%%); "
                "MDPs handing out one scratch DictDistribution rewritten per call (25%%); sequences whose B is the same MDP object edited in place; "
                "10%% softmax-expectation family (expected SARSA, temperature 1/2 or 2, eps 0 or 1/20, step size > 0, distinct initial Q, 3-6 episodes); "
                "18%% tie family (>= 2 actions everywhere, non-zero constant / per-state-constant initial_q, temperature 0, eps in {0,1/20}: "
                "tied NON-ZERO maximal Q-values at non-absorbing next states; expected SARSA weighted 3x); "
                "10%% boundary family (gamma = 1-2^-20, step size / epsilon in {0, 2^-20, 2^-30, 1-2^-20, 1}, a transition row (1-k*2^-20, 2^-20, ..)); "
                "state and action labels int / str / tuple / mixed incl. falsy 0, '', (), False; per-state action order sorted/reversed/shuffled; "
                "MDP as QuickTabularMDP / QuickMDP / hand-written TabularMDP subclass (list actions, Deterministic/Uniform distributions) / initial_state= form; "
                "numeric parameters as int or float; seed 0 / None / other; episodes 0; single-state MDPs; 3 constructor error-path probes; "
                "distinct = structural hash of (MDP, learner, parameters, recorded experience); non-trivial = at least one experienced step"
                % (5 if tier == "quick" else 6),
        "samples": [{"case": cases[0], "impl": impl[0]}] if cases else [],
        "cases": len(cases), "generated_cases": ngen, "multi_stage_cases": nmulti,
        "interval_checked": interval_checked, "error_path_checked": error_path_checked, "input_features": stats,
    })
