"""vlib — shared harness library for the msdm Coq verification checks.

Every property harness (harness/cNN.py) exposes  run(ctx)  and uses only what
is here:

  ctx.tier, ctx.seed, ctx.rng            one random.Random(seed): every random choice comes from it
  ctx.impl(script, payload, shards=1)    run harness/impl/<script> under /venv/bin/python with
                                         PYTHONPATH=/repo (the ONLY place msdm is imported)
  ctx.coq(preamble, terms, ...)          evaluate Gallina terms with vm_compute inside coqc, sharded,
                                         returns one parsed Python value per term (or CoqError)
  ctx.violation(sig, detail, found)      report a violation (known-findings aware)
  ctx.coverage                           dict the harness fills in (see EVIDENCE.schema.json)

Gallina literal helpers: q, qlist, qmat, qten, nat, natlist, blist, bmat, coqstr, zlit ...
"""
import fractions
import hashlib
import json
import math
import os
import re
import subprocess
import sys
import time
from concurrent.futures import ThreadPoolExecutor

ROOT = os.path.dirname(os.path.dirname(os.path.abspath(__file__)))
COQDIR = os.path.join(ROOT, "coq")
REPO = os.environ.get("MSDM_REPO", "/repo")
PY = os.environ.get("MSDM_PYTHON", "/venv/bin/python")
COQ_WARN = ("-notation-overridden,-deprecated-hint-without-locality,"
            "-deprecated-instance-without-locality,-large-nat,-ambiguous-paths,"
            "-deprecated-hint-rewrite-without-locality")
Fraction = fractions.Fraction


# ----------------------------------------------------------------------------
# numbers
# ----------------------------------------------------------------------------
def frac(x):
    """exact rational of an int / float / 'n/d' string / [n, d] pair / Fraction"""
    if isinstance(x, Fraction):
        return x
    if isinstance(x, bool):
        return Fraction(int(x))
    if isinstance(x, int):
        return Fraction(x)
    if isinstance(x, float):
        if math.isinf(x) or math.isnan(x):
            raise ValueError("non-finite float has no rational: %r" % x)
        return Fraction(x)              # exact: float.as_integer_ratio
    if isinstance(x, str):
        return Fraction(x)
    if isinstance(x, (list, tuple)) and len(x) == 2:
        return Fraction(int(x[0]), int(x[1]))
    raise TypeError("frac: %r" % (x,))


def fjson(x):
    """JSON-able exact encoding of a float produced by the implementation"""
    if x is None:
        return None
    if isinstance(x, (int,)) and not isinstance(x, bool):
        return [int(x), 1]
    x = float(x)
    if math.isnan(x):
        return "nan"
    if math.isinf(x):
        return "inf" if x > 0 else "-inf"
    n, d = x.as_integer_ratio()
    return [n, d]


def q(x):
    """Gallina Q literal"""
    f = frac(x)
    if f.numerator < 0:
        return "((%d) # %d)" % (f.numerator, f.denominator)
    return "(%d # %d)" % (f.numerator, f.denominator)


def qopt(x):
    """option Q: None for -inf/inf/nan tags"""
    if x is None or (isinstance(x, str)):
        return "None"
    if isinstance(x, float) and (math.isinf(x) or math.isnan(x)):
        return "None"
    return "(Some %s)" % q(x)


def coqlist(items):
    items = list(items)
    if not items:
        return "[]"
    return "[" + "; ".join(items) + "]"


def qlist(xs):
    return coqlist(q(x) for x in xs)


def qmat(m):
    return coqlist(qlist(r) for r in m)


def qten(t):
    return coqlist(qmat(m) for m in t)


def nat(n):
    return "%d%%nat" % int(n)


def natlist(xs):
    return coqlist(nat(x) for x in xs)


def zlit(n):
    n = int(n)
    return "(%d)%%Z" % n


def zlist(xs):
    return coqlist(zlit(x) for x in xs)


def b(x):
    return "true" if x else "false"


def blist(xs):
    return coqlist(b(x) for x in xs)


def bmat(m):
    return coqlist(blist(r) for r in m)


def coqstr(s):
    return '"' + s.replace('"', '""') + '"%string'


def pair(*xs):
    return "(" + ", ".join(xs) + ")"


# ----------------------------------------------------------------------------
# parsing what coqc prints for  Eval vm_compute in <term>.
# ----------------------------------------------------------------------------
class CoqError(Exception):
    pass


_tok = re.compile(r"""\s*(?:(?P<num>-?\d+)(?:%[A-Za-z]+)?|(?P<str>"(?:[^"]|"")*")(?:%[A-Za-z]+)?|(?P<id>[A-Za-z_][A-Za-z0-9_'.]*)|(?P<p>[()\[\];,#]))""")


def _tokens(s):
    pos, out = 0, []
    s = s.strip()
    while pos < len(s):
        m = _tok.match(s, pos)
        if not m:
            raise CoqError("cannot tokenise %r at %d" % (s[pos:pos + 40], pos))
        pos = m.end()
        if m.group("num") is not None:
            out.append(("n", int(m.group("num"))))
        elif m.group("str") is not None:
            out.append(("s", m.group("str")[1:-1].replace('""', '"')))
        elif m.group("id") is not None:
            out.append(("i", m.group("id")))
        else:
            out.append(("p", m.group("p")))
    return out


def parse_value(s):
    """Coq value -> Python: numerals -> int, n # d -> Fraction, true/false -> bool,
    (a, b, c) -> tuple (flattened left-nested pairs), [a; b] -> list,
    Some x -> ('Some', x), None -> None, other constructors C a b -> ('C', a, b), strings -> str."""
    toks = _tokens(s)
    pos = [0]

    def peek():
        return toks[pos[0]] if pos[0] < len(toks) else (None, None)

    def eat(kind=None, val=None):
        t = peek()
        if t[0] is None or (kind and t[0] != kind) or (val is not None and t[1] != val):
            raise CoqError("parse error at token %d (%r), wanted %r %r in %r" % (pos[0], t, kind, val, s[:200]))
        pos[0] += 1
        return t

    def atom():
        k, v = peek()
        if k == "n":
            eat()
            return v
        if k == "s":
            eat()
            return v
        if k == "i":
            eat()
            if v == "true":
                return True
            if v == "false":
                return False
            if v == "None":
                return None
            if v == "tt":
                return ()
            return ("@", v)
        if k == "p" and v == "(":
            eat()
            items = [expr()]
            while peek() == ("p", ","):
                eat()
                items.append(expr())
            eat("p", ")")
            return items[0] if len(items) == 1 else tuple(items)
        if k == "p" and v == "[":
            eat()
            items = []
            if peek() != ("p", "]"):
                items.append(expr())
                while peek() == ("p", ";"):
                    eat()
                    items.append(expr())
            eat("p", "]")
            return items
        raise CoqError("unexpected token %r in %r" % ((k, v), s[:200]))

    def app():
        first = atom()
        if isinstance(first, tuple) and len(first) == 2 and first[0] == "@":
            args = []
            while True:
                k, v = peek()
                if k in ("n", "s", "i") or (k == "p" and v in "(["):
                    args.append(atom())
                else:
                    break
            name = first[1]
            if not args:
                return (name,)
            return (name,) + tuple(args)
        return first

    def expr():
        x = app()
        if peek() == ("p", "#"):
            eat()
            d = app()
            return Fraction(x, d)
        return x

    v = expr()
    if pos[0] != len(toks):
        raise CoqError("trailing tokens in %r" % s[:200])
    return v


def _split_evals(out):
    """split coqc stdout into the values printed by successive Eval commands"""
    vals = []
    chunks = re.split(r"(?m)^     = ", "\n" + out)
    for ch in chunks[1:]:
        # strip the trailing type annotation "     : type"
        m = re.search(r"(?m)^     : ", ch)
        body = ch[:m.start()] if m else ch
        vals.append(" ".join(body.split()))
    return vals


# ----------------------------------------------------------------------------
# context
# ----------------------------------------------------------------------------
class Ctx:
    def __init__(self, prop, tier, seed, known):
        import random
        self.prop = prop
        self.tier = tier
        self.seed = seed
        self.rng = random.Random(seed)
        self.known = known            # list of known-finding entries for this property
        self.coverage = {}
        self.violations = []          # (sig, replay_path, found)
        self.known_hits = []
        self.assumptions = []
        # one scratch directory per run: concurrent runs of the same check (seed sweeps, seeded-change
        # trials next to a clean run) must never read each other's generated Coq files
        self.workdir = os.path.join(ROOT, "work", prop, "run%d" % os.getpid())
        os.makedirs(self.workdir, exist_ok=True)
        self.t0 = time.time()
        self.jobs = int(os.environ.get("VERIF_JOBS", "16"))
        self.replay_case = None       # set by ./check --replay

    # -- implementation side ------------------------------------------------
    def impl(self, script, payload, shards=1, timeout=1800, env_extra=None, hashseed="0"):
        """payload: {'cases': [...], ...}.  With shards>1 the 'cases' list is split
        round-robin over that many processes and results re-assembled in order.
        The impl script reads JSON on stdin and writes {'results': [...]} on stdout."""
        path = os.path.join(ROOT, "harness", "impl", script)
        env = dict(os.environ)
        env["PYTHONPATH"] = REPO
        env["PYTHONHASHSEED"] = str(hashseed)
        env["MSDM_VERIF"] = "1"
        env.setdefault("OMP_NUM_THREADS", "1")
        env.setdefault("MKL_NUM_THREADS", "1")
        env.setdefault("OPENBLAS_NUM_THREADS", "1")
        if env_extra:
            env.update(env_extra)
        cases = payload.get("cases", [])
        shards = max(1, min(shards, len(cases) or 1))
        parts = [list(range(i, len(cases), shards)) for i in range(shards)]

        def one(idx):
            pl = dict(payload)
            pl["cases"] = [cases[i] for i in idx]
            p = subprocess.run([PY, path], input=json.dumps(pl), capture_output=True,
                               text=True, timeout=timeout, env=env, cwd=ROOT)
            if p.returncode != 0:
                raise RuntimeError("impl runner %s failed (rc %d):\n%s" % (script, p.returncode, p.stderr[-4000:]))
            # last line that parses as JSON is the result (libraries may print)
            for line in reversed(p.stdout.strip().splitlines()):
                line = line.strip()
                if line.startswith("{"):
                    return json.loads(line)
            raise RuntimeError("impl runner %s printed no JSON:\n%s\n%s" % (script, p.stdout[-2000:], p.stderr[-2000:]))

        with ThreadPoolExecutor(max_workers=shards) as ex:
            outs = list(ex.map(one, parts))
        results = [None] * len(cases)
        for idx, o in zip(parts, outs):
            for i, r in zip(idx, o["results"]):
                results[i] = r
        merged = {k: v for k, v in outs[0].items() if k != "results"} if outs else {}
        merged["results"] = results
        return merged

    # -- model side -----------------------------------------------------------
    def coq(self, preamble, terms, shard=200, timeout=900, tag="cases", parse=True):
        """Evaluate each Gallina term with  Eval vm_compute in (term).  inside coqc
        (preamble = Require/Import/Definition lines shared by all shards).
        Returns a list, one entry per term: the parsed value, or a CoqError."""
        terms = list(terms)
        if not terms:
            return []
        files = []
        for k in range(0, len(terms), shard):
            name = "%s_%s_%d" % (self.prop, tag, k // shard)
            fn = os.path.join(self.workdir, name + ".v")
            with open(fn, "w") as f:
                f.write(preamble + "\n")
                for t in terms[k:k + shard]:
                    f.write("Eval vm_compute in (%s).\n" % t)
            files.append((fn, len(terms[k:k + shard])))

        def one(item):
            fn, n = item
            try:
                p = subprocess.run(["coqc", "-q", "-Q", COQDIR, "MSDM", "-w", COQ_WARN, fn],
                                   capture_output=True, text=True, timeout=timeout, cwd=self.workdir)
            except subprocess.TimeoutExpired:
                return [CoqError("coqc timeout on %s" % fn)] * n
            vals = _split_evals(p.stdout)
            if p.returncode != 0 or len(vals) != n:
                err = CoqError("coqc failed on %s (rc %d, %d/%d values): %s" % (fn, p.returncode, len(vals), n, (p.stderr or p.stdout)[-1500:]))
                vals = vals[:n] + [err] * (n - len(vals))
                if p.returncode != 0 and len(vals) == n:
                    pass
            out = []
            for v in vals[:n]:
                if isinstance(v, CoqError) or not parse:
                    out.append(v)
                else:
                    try:
                        out.append(parse_value(v))
                    except CoqError as e:
                        out.append(e)
            return out

        with ThreadPoolExecutor(max_workers=self.jobs) as ex:
            res = list(ex.map(one, files))
        flat = [v for r in res for v in r]
        for fn, _ in files:
            for ext in (".vo", ".glob", ".vok", ".vos"):
                try:
                    os.remove(fn[:-2] + ext)
                except OSError:
                    pass
            try:
                os.remove(os.path.join(os.path.dirname(fn), "." + os.path.basename(fn)[:-2] + ".aux"))
            except OSError:
                pass
        return flat

    def coq_script(self, text, name="script", timeout=900):
        """compile an arbitrary .v text (e.g. generated Goals proved by interval);
        returns (ok, stdout, stderr)"""
        fn = os.path.join(self.workdir, "%s_%s.v" % (self.prop, name))
        with open(fn, "w") as f:
            f.write(text)
        try:
            p = subprocess.run(["coqc", "-q", "-Q", COQDIR, "MSDM", "-w", COQ_WARN, fn],
                               capture_output=True, text=True, timeout=timeout, cwd=self.workdir)
        except subprocess.TimeoutExpired:
            return False, "", "timeout"
        return p.returncode == 0, p.stdout, p.stderr

    # -- verdicts ---------------------------------------------------------------
    def violation(self, sig, detail, found=True):
        """sig: stable signature string of WHAT fails (call site / input class), used to
        match known findings; detail: JSON-able replay content; found=False when the
        correspondence/proof broke but no concrete failing input was found."""
        for k in self.known:
            if k.get("status", "known") == "known" and k["signature"] == sig:
                if sig not in [h[0] for h in self.known_hits]:
                    self.known_hits.append((sig, k.get("what", "")))
                    print("KNOWN-FINDING: property=%s %s [%s]" % (self.prop, k.get("what", ""), sig), flush=True)
                return False
        h = hashlib.sha1(json.dumps([sig, detail], sort_keys=True, default=str).encode()).hexdigest()[:12]
        os.makedirs(os.path.join(ROOT, "replays"), exist_ok=True)
        path = os.path.join("replays", "%s_%s.json" % (self.prop, h))
        with open(os.path.join(ROOT, path), "w") as f:
            json.dump({"property": self.prop, "signature": sig, "failing_input_found": bool(found),
                       "seed": self.seed, "tier": self.tier, "detail": detail}, f, indent=1, default=str)
        if len(self.violations) < 20:
            print("VIOLATION property=%s replay=%s%s" % (self.prop, path, "" if found else " no-failing-input-found"), flush=True)
        self.violations.append((sig, path, found))
        return True


def structural_hash(obj):
    return hashlib.sha1(json.dumps(obj, sort_keys=True, default=str).encode()).hexdigest()[:16]


def load_known(prop):
    p = os.path.join(ROOT, "known_findings.json")
    if not os.path.exists(p):
        return []
    with open(p) as f:
        data = json.load(f)
    return [e for e in data.get("findings", []) if e.get("property") == prop]
