"""extract_sites — FAIL-CLOSED extractor of randomness / hash-order sites for property C13.

Reads the CURRENT source of the twelve files anchored by C13 (under $MSDM_REPO, default /repo) with
Python's `ast` and lists every expression that can consume randomness or depend on hash order:

  * draws on the process-global generators:  random.<f>(..), np.random.<f>(..), torch.rand*/randint/..,
    and the bare module `random` / `np.random` used as a VALUE (assigned, passed, default of a parameter)
  * calls  X.sample(..) / X.run_on(..) / X.evaluate_on(..)  with or without `rng=` (their default is the
    global generator)
  * draws on generator-bound names (rng.*, rnd.*, self.rng.*, self._rng.*) — private by binding: every
    way the global generator can get INTO such a name is itself a site of the first kind
  * constructions random.Random(..) / np.random.default_rng(..) / torch manual_seed inside fork_rng and
    what they are seeded with; `seed or <global draw>` (=> global generator when the seed is falsy, e.g. 0);
    global draws guarded by `seed is None`
  * hash(..), obj_seed(..) (seed derived from the salted hash), iteration over sets (for / comprehension /
    list(..) / sorted(..) / set.pop() ...), where "set" = set(..), {..}, set.union(..), a|b with a set
    operand, local names and attributes assigned such values.

Every site gets a component (one of the twelve named in the property, or "other" for explicitly listed
scopes that are outside every named component), file, line, kind and the source text.

Anything randomness-looking that is not classified raises Unclassified: the check then reports a broken
obligation (fail closed).  The result is written as coq/gen/Sites.v.
"""
import ast
import os
import re
import subprocess
import sys

ROOT = os.path.dirname(os.path.dirname(os.path.abspath(__file__)))

COMPONENTS = ["laostar", "lrtdp", "astar", "bfs", "td", "rmax", "bpi", "ga", "semimdp", "implicit",
              "mdp_rollout", "pomdp_rollout"]

KINDS = ["KPrivate", "KParamDefaultGlobal", "KGlobalIfSeedNone", "KAuditedOrderFree",
         "KGlobal", "KGlobalIfSeedFalsy", "KUnseeded", "KHashOrder", "KHash", "KHashDerivedSeed",
         "KPersistentAcrossCalls", "KShufflesCallerObject", "KHashOfInstanceCounter"]

# file -> (default components, {scope-prefix: components})
# A scope is "Class.method" / "function" (nested functions and lambdas belong to their enclosing scope).
# Scopes not listed fall to the file's default, so new code in an anchored file is never ignored.
SAMPLING_USERS = ["lrtdp", "td", "rmax", "semimdp", "mdp_rollout", "pomdp_rollout"]
FILES = {
    "msdm/algorithms/laostar.py": (["laostar"], {}),
    "msdm/algorithms/lrtdp.py": (["lrtdp"], {}),
    "msdm/algorithms/search.py": (["astar", "bfs"], {"BreadthFirstSearch": ["bfs"], "AStarSearch": ["astar"]}),
    "msdm/algorithms/tdlearning.py": (["td"], {}),
    "msdm/algorithms/rmax.py": (["rmax"], {}),
    "msdm/algorithms/fscboundedpolicyiteration.py": (["bpi"], {}),
    # BPI evaluates controllers with stochastic_fsc_policy_evaluation_exact from the gradient-ascent file
    "msdm/algorithms/fscgradientascent.py": (["ga"], {"stochastic_fsc_policy_evaluation_exact": ["ga", "bpi"]}),
    "msdm/core/semimdp/semimdp.py": (["semimdp"], {}),
    "msdm/core/distributions/utils.py": (["semimdp"], {}),
    # not one of the twelve anchored files, but obj_seed hashes Option objects: their __hash__ and what feeds it belong
    # to the semi-MDP's seed derivation
    "msdm/core/semimdp/option.py": (["semimdp"], {}),
    "msdm/core/distributions/distributions.py": (
        SAMPLING_USERS + ["implicit"],
        {"ImplicitDistribution": ["implicit"],
         "Distribution.sample": SAMPLING_USERS, "FiniteDistribution.sample": SAMPLING_USERS,
         # distribution algebra: not part of any randomised component named by C13
         "FiniteDistribution.__and__": ["other"], "FiniteDistribution.isclose": ["other"]}),
    "msdm/core/mdp/policy.py": (
        ["mdp_rollout", "semimdp"],
        {"Policy.action": ["other"]}),     # one-off convenience draw, no rng parameter by design; not a roll-out
    "msdm/core/pomdp/policy.py": (["pomdp_rollout"], {}),
}

# audited set iterations whose RESULT provably does not depend on the iteration order (only the insertion
# order of an output dict does).  Matched by (file, scope, source text) — never by line number.
AUDITED_ORDER_FREE = {
    ("msdm/algorithms/tdlearning.py", "DoubleQLearning._training", "set(q1.keys()) | set(q2.keys())"):
        "loop body only writes q[s] for the loop variable s; the returned dict's content is order independent "
        "(DESIGN C10 double_q_keyset_indep); trusted audit",
}

# generator constructions outside the per-call entry point that are BY DESIGN the object's state
AUDITED_STATEFUL = {
    ("msdm/core/distributions/distributions.py", "ImplicitDistribution._rng", "random.Random(self._seed)"):
        "an ImplicitDistribution IS a seeded generator: sample() must advance it (msdm's own tests draw repeatedly from one "
        "object); reproducibility is per freshly constructed object, like the rng= argument of a roll-out; trusted audit",
}
PER_OBJECT_SCOPES = {"__init__", "__post_init__", "__new__", "__init_subclass__"}
CACHING_DECORATORS = {"cached_property", "lru_cache", "cache", "method_cache"}

DRAW_METHODS = {"random", "randint", "seed", "setstate", "getstate", "jumpahead", "randrange", "choice", "choices", "shuffle", "sample", "uniform", "gauss",
                "normalvariate", "lognormvariate", "expovariate", "betavariate", "gammavariate", "triangular",
                "vonmisesvariate", "paretovariate", "weibullvariate", "getrandbits", "randbytes", "integers",
                "normal", "standard_normal", "permutation", "permuted", "bytes", "binomial", "poisson",
                "exponential", "beta", "gamma", "dirichlet", "multinomial", "rand", "randn", "random_sample"}
RNG_DEFAULT_METHODS = {"sample", "run_on", "evaluate_on"}          # msdm methods whose `rng` defaults to the global generator
TORCH_RANDOM = {"rand", "randn", "randint", "randperm", "rand_like", "randn_like", "randint_like", "bernoulli",
                "multinomial", "normal", "poisson", "manual_seed", "seed", "initial_seed", "get_rng_state",
                "set_rng_state", "dropout"}
NONDRAW_RECEIVERS = {"DictDistribution", "UniformDistribution", "cls"}   # X.uniform(..) etc. build distributions
GEN_PARAM_NAMES = {"rng", "rnd", "_rng"}
SUSPICIOUS = re.compile(r"rand|seed|shuffle|sample|choice|rng|entropy|urandom|uuid|getstate|setstate|hash\b", re.I)
ITER_CALLS = {"list", "tuple", "sorted", "enumerate", "zip", "iter", "next", "min", "max", "sum", "map",
              "filter", "reversed", "dict", "array", "asarray", "fromiter", "join", "extend", "deque"}


class Unclassified(Exception):
    pass


def src(node):
    return " ".join(ast.unparse(node).split())


def dotted(node):
    """a.b.c -> 'a.b.c' for Name/Attribute chains, else None"""
    parts = []
    while isinstance(node, ast.Attribute):
        parts.append(node.attr)
        node = node.value
    if isinstance(node, ast.Name):
        parts.append(node.id)
        return ".".join(reversed(parts))
    return None


def seedlike(node):
    if isinstance(node, ast.Call) and dotted(node.func) in ("int", "abs") and len(node.args) == 1 and not node.keywords:
        return seedlike(node.args[0])
    d = dotted(node)
    return d is not None and "seed" in d.split(".")[-1].lower()


class FileScan:
    def __init__(self, rel, text, registry=None):
        self.rel = rel
        self.registry = registry if registry is not None else {"repo": None, "scans": {}, "callees": {}}
        self.msdm_imports = {}    # local name -> (module, original name) for `from msdm... import f`
        self._scanned = None
        import warnings
        with warnings.catch_warnings():
            warnings.simplefilter("ignore")
            self.tree = ast.parse(text)
        self.sites = []           # dicts: scope, line, kind, what
        self.parents = {}
        for p in ast.walk(self.tree):
            for c in ast.iter_child_nodes(p):
                self.parents[c] = p
        self.mod_random = set()   # local names of the stdlib module random
        self.mod_numpy = set()
        self.mod_torch = set()
        self.imports()
        self.scope_of = {}
        self.assign_scopes(self.tree, "")
        self.guards = {}          # node -> set of guards
        self.compute_guards()
        self.gen_names, self.gen_attrs, self.gen_funcs = set(GEN_PARAM_NAMES), set(), set()
        self.compute_generators()
        self.set_names, self.set_attrs = {}, set()
        self.compute_sets()
        self.claimed = set()
        self.rng_default_callees = {}     # callee name -> parameter name (filled by extract() across all files)

    def global_default_params(self):
        """{callee name: parameter} for every def in this file one of whose parameters defaults to the global generator
        (a class's __init__ is called through the class name)"""
        out = {}
        for n in ast.walk(self.tree):
            if isinstance(n, (ast.FunctionDef, ast.AsyncFunctionDef)):
                a = n.args
                pos = a.posonlyargs + a.args
                pairs = list(zip(pos[len(pos) - len(a.defaults):], a.defaults)) + \
                    [(k, d) for k, d in zip(a.kwonlyargs, a.kw_defaults) if d is not None]
                for arg, d in pairs:
                    if self.is_global_module_value(d):
                        name = n.name
                        if name == "__init__" and isinstance(self.parents.get(n), ast.ClassDef):
                            name = self.parents[n].name
                        out[name] = arg.arg
        return out

    # ---- imports -----------------------------------------------------------
    def imports(self):
        for n in ast.walk(self.tree):
            if isinstance(n, ast.Import):
                for a in n.names:
                    local = a.asname or a.name.split(".")[0]
                    if a.name == "random":
                        self.mod_random.add(local)
                    elif a.name == "numpy":
                        self.mod_numpy.add(local)
                    elif a.name == "torch":
                        self.mod_torch.add(local)
                    elif a.name.split(".")[0] in ("random", "numpy", "torch", "secrets", "uuid") and a.name not in ("numpy", "torch"):
                        raise Unclassified("%s:%d: import form `%s` not handled" % (self.rel, n.lineno, src(n)))
            elif isinstance(n, ast.ImportFrom):
                top = (n.module or "").split(".")[0]
                if top == "msdm" and n.level == 0:
                    for a in n.names:
                        self.msdm_imports[a.asname or a.name] = (n.module, a.name)
                if top in ("random", "secrets", "uuid") or (n.module or "").startswith(("numpy.random", "torch.random")):
                    raise Unclassified("%s:%d: import form `%s` not handled" % (self.rel, n.lineno, src(n)))
                if top in ("numpy", "torch"):
                    for a in n.names:
                        if SUSPICIOUS.search(a.name):
                            raise Unclassified("%s:%d: import form `%s` not handled" % (self.rel, n.lineno, src(n)))

    # ---- scopes ------------------------------------------------------------
    def assign_scopes(self, node, scope):
        for c in ast.iter_child_nodes(node):
            s = scope
            if isinstance(c, (ast.ClassDef, ast.FunctionDef, ast.AsyncFunctionDef)) and scope.count(".") < 1:
                # top-level class/function and its direct methods name a scope; deeper nesting belongs to it
                if scope == "" or isinstance(node, ast.ClassDef):
                    s = (scope + "." if scope else "") + c.name
            self.scope_of[c] = s
            self.assign_scopes(c, s)

    def scope(self, node):
        return self.scope_of.get(node, "") or "<module>"

    def func_of(self, node):
        """innermost enclosing function-like node (def / lambda), or the module"""
        p = self.parents.get(node)
        while p is not None and not isinstance(p, (ast.FunctionDef, ast.AsyncFunctionDef, ast.Lambda)):
            p = self.parents.get(p)
        return p

    # ---- guards ------------------------------------------------------------
    def mark(self, nodes, g):
        for b in nodes:
            for n in ast.walk(b):
                self.guards.setdefault(n, set()).add(g)

    @staticmethod
    def seed_none_test(t):
        """-> 'is' for `<seed> is None`, 'isnot' for `<seed> is not None`, else None"""
        if isinstance(t, ast.Compare) and len(t.ops) == 1 and seedlike(t.left) \
                and isinstance(t.comparators[0], ast.Constant) and t.comparators[0].value is None:
            if isinstance(t.ops[0], ast.Is):
                return "is"
            if isinstance(t.ops[0], ast.IsNot):
                return "isnot"
        return None

    def compute_guards(self):
        for n in ast.walk(self.tree):
            if isinstance(n, (ast.If, ast.IfExp)):
                k = self.seed_none_test(n.test)
                body = n.body if isinstance(n.body, list) else [n.body]
                orelse = n.orelse if isinstance(n.orelse, list) else [n.orelse]
                if k == "is":
                    self.mark(body, "seed_none")
                elif k == "isnot":
                    self.mark(orelse, "seed_none")
            elif isinstance(n, ast.BoolOp) and isinstance(n.op, ast.Or) and seedlike(n.values[0]):
                self.mark(n.values[1:], "seed_falsy")
            elif isinstance(n, ast.With):
                for it in n.items:
                    ce = it.context_expr
                    if isinstance(ce, ast.Call) and (dotted(ce.func) or "").endswith("fork_rng") \
                            and (dotted(ce.func) or "").split(".")[0] in self.mod_torch:
                        # forked AND re-seeded from a seed-like expression before any draw?
                        first = n.body[0] if n.body else None
                        ok = isinstance(first, ast.Expr) and isinstance(first.value, ast.Call) \
                            and (dotted(first.value.func) or "").endswith("manual_seed") \
                            and len(first.value.args) == 1 and seedlike(first.value.args[0])
                        self.mark(n.body, "forked_seeded" if ok else "forked_unseeded")

    # ---- generator-bound names ---------------------------------------------
    def is_global_module_value(self, e):
        d = dotted(e)
        if d is None:
            return False
        if d in self.mod_random:
            return True
        parts = d.split(".")
        return len(parts) == 2 and parts[0] in self.mod_numpy and parts[1] == "random"

    def is_construction(self, e):
        if not isinstance(e, ast.Call):
            return False
        d = dotted(e.func) or ""
        parts = d.split(".")
        if len(parts) == 2 and parts[0] in self.mod_random and parts[1] in ("Random", "SystemRandom"):
            return True
        if len(parts) == 3 and parts[0] in self.mod_numpy and parts[1] == "random" and parts[2] in ("default_rng", "RandomState", "Generator"):
            return True
        if len(parts) == 2 and parts[0] in self.mod_torch and parts[1] == "Generator":
            return True
        return False

    def is_genexpr(self, e):
        if self.is_construction(e) or self.is_global_module_value(e):
            return True
        if isinstance(e, ast.Name):
            return e.id in self.gen_names
        if isinstance(e, ast.Attribute):
            return e.attr in self.gen_attrs
        if isinstance(e, ast.Call):
            d = dotted(e.func)
            if d is not None and d in self.msdm_imports and SUSPICIOUS.search(d):
                return True          # imported factory with a generator-like name: resolved (or failed closed) at the call
            return d is not None and d.split(".")[-1] in self.gen_funcs
        if isinstance(e, ast.IfExp):
            return self.is_genexpr(e.body) or self.is_genexpr(e.orelse)
        return False

    def compute_generators(self):
        for n in ast.walk(self.tree):
            if isinstance(n, ast.arg) and n.annotation is not None and (dotted(n.annotation) or "").endswith("random.Random"):
                self.gen_names.add(n.arg)
        for _ in range(4):
            for n in ast.walk(self.tree):
                if isinstance(n, ast.Assign) and self.is_genexpr(n.value):
                    for t in n.targets:
                        if isinstance(t, ast.Name):
                            self.gen_names.add(t.id)
                        elif isinstance(t, ast.Attribute):
                            self.gen_attrs.add(t.attr)
                elif isinstance(n, ast.Return) and n.value is not None and self.is_genexpr(n.value):
                    f = self.func_of(n)
                    if isinstance(f, ast.FunctionDef):
                        self.gen_funcs.add(f.name)
                        if any((dotted(d) or "").split(".")[-1] in ("property", "cached_property") for d in f.decorator_list):
                            self.gen_attrs.add(f.name)
        self.gen_attrs |= {a for a in GEN_PARAM_NAMES}

    # ---- set-typed expressions ---------------------------------------------
    def is_setexpr(self, e, fn=None):
        if isinstance(e, (ast.Set, ast.SetComp)):
            return True
        if isinstance(e, ast.Call):
            d = dotted(e.func) or ""
            if d in ("set", "frozenset") or d.startswith(("set.", "frozenset.")):
                return True
            if isinstance(e.func, ast.Attribute) and e.func.attr in ("union", "intersection", "difference", "symmetric_difference", "copy") \
                    and self.is_setexpr(e.func.value, fn):
                return True
            return False
        if isinstance(e, ast.BinOp) and isinstance(e.op, (ast.BitOr, ast.BitAnd, ast.Sub, ast.BitXor)):
            return self.is_setexpr(e.left, fn) or self.is_setexpr(e.right, fn)
        if isinstance(e, ast.IfExp):
            return self.is_setexpr(e.body, fn) or self.is_setexpr(e.orelse, fn)
        if isinstance(e, ast.Name):
            return e.id in self.set_names.get(fn, set())
        if isinstance(e, ast.Attribute):
            return e.attr in self.set_attrs
        return False

    def compute_sets(self):
        for _ in range(3):
            for n in ast.walk(self.tree):
                fn = self.scope(n)
                if isinstance(n, ast.Assign) and self.is_setexpr(n.value, fn):
                    for t in n.targets:
                        if isinstance(t, ast.Name):
                            self.set_names.setdefault(fn, set()).add(t.id)
                        elif isinstance(t, ast.Attribute):
                            self.set_attrs.add(t.attr)
                elif isinstance(n, ast.AugAssign) and self.is_setexpr(n.value, fn) and isinstance(n.target, ast.Name):
                    self.set_names.setdefault(fn, set()).add(n.target.id)
                elif isinstance(n, ast.keyword) and n.arg and self.is_setexpr(n.value, self.scope(n.value)):
                    # Node(parent_states=set(..)) : attribute/field of that name holds a set
                    call = self.parents.get(n)
                    callee = dotted(call.func) if isinstance(call, ast.Call) else None
                    if callee and callee.split(".")[-1][:1].isupper():      # constructor-like call
                        self.set_attrs.add(n.arg)

    # ---- emitting ------------------------------------------------------------
    def emit(self, node, kind, what=None):
        g = self.guards.get(node, set())
        if kind == "KGlobal":
            if "seed_falsy" in g:
                kind = "KGlobalIfSeedFalsy"
            elif "seed_none" in g:
                kind = "KGlobalIfSeedNone"
        self.sites.append({"scope": self.scope(node), "line": node.lineno, "kind": kind, "what": what or src(node),
                           "_defs": self.enclosing_defs(node)})

    def enclosing_defs(self, node):
        out, f = [], self.func_of(node)
        while f is not None:
            if not isinstance(f, ast.Lambda):
                out.append(f)
            f = self.func_of(f)
        return out

    # ---- helper functions / methods of the same module --------------------------------------------
    def module_defs(self):
        if not hasattr(self, "_module_defs"):
            self._module_defs = {}
            for x in ast.walk(self.tree):
                if isinstance(x, (ast.FunctionDef, ast.AsyncFunctionDef)):
                    self._module_defs.setdefault(x.name, []).append(x)
        return self._module_defs

    def resolve_helper(self, call):
        """the def(s) of THIS module a call can only refer to: a plain name  f(..), or  self.f(..) / cls.f(..) /
        <ClassOfThisModule>.f(..).  Calls on any other receiver stay unresolved."""
        f = call.func
        defs = self.module_defs()
        if isinstance(f, ast.Name):
            return defs.get(f.id, [])
        if isinstance(f, ast.Attribute) and isinstance(f.value, ast.Name):
            classes = {x.name for x in ast.walk(self.tree) if isinstance(x, ast.ClassDef)}
            if f.value.id in ("self", "cls") or f.value.id in classes:
                return [d for d in defs.get(f.attr, []) if isinstance(self.parents.get(d), ast.ClassDef)]
        return []

    # ---- __hash__ fed by class-level counters --------------------------------------------------------
    def scan_hash_counters(self):
        """class C: ... C.<n> / self.__class__.<n> / cls.<n> / type(self).<n>  += ...   (a class-level counter)
        and __hash__ reads self.<a>, and the LAST assignment of self.<a> in __init__ takes a value that mentions the
        counter, directly or through a local name assigned from it  =>  hash(obj) depends on how many objects exist"""
        def class_attr(e, cls):
            if isinstance(e, ast.Attribute):
                b = src(e.value)
                if b in ("self.__class__", "cls", "type(self)", cls.name):
                    return e.attr
            return None
        for cls in [x for x in ast.walk(self.tree) if isinstance(x, ast.ClassDef)]:
            counters = {class_attr(x.target, cls) for x in ast.walk(cls) if isinstance(x, ast.AugAssign)} - {None}
            hashf = next((f for f in cls.body if isinstance(f, ast.FunctionDef) and f.name == "__hash__"), None)
            init = next((f for f in cls.body if isinstance(f, ast.FunctionDef) and f.name == "__init__"), None)
            if not counters or hashf is None or init is None:
                continue
            read = {x.attr for x in ast.walk(hashf) if isinstance(x, ast.Attribute) and src(x.value) == "self"}
            mentions = lambda e: any(class_attr(x, cls) in counters for x in ast.walk(e))
            tainted = set()
            for _ in range(3):
                for x in ast.walk(init):
                    if isinstance(x, ast.Assign) and (mentions(x.value) or any(isinstance(y, ast.Name) and y.id in tainted for y in ast.walk(x.value))):
                        tainted |= {t.id for t in x.targets if isinstance(t, ast.Name)}
            for a in sorted(read):
                assigns = [x for x in ast.walk(init) if isinstance(x, ast.Assign)
                           and any(isinstance(t, ast.Attribute) and t.attr == a and src(t.value) == "self" for t in x.targets)]
                if not assigns:
                    continue
                last = max(assigns, key=lambda x: x.lineno)
                if mentions(last.value) or any(isinstance(y, ast.Name) and y.id in tainted for y in ast.walk(last.value)):
                    self.sites.append({"scope": self.scope(hashf), "line": hashf.lineno, "kind": "KHashOfInstanceCounter",
                                       "what": "%s.__hash__ reads self.%s, set at line %d from the class-level counter %s"
                                               % (cls.name, a, last.lineno, "/".join(sorted(counters))), "_defs": [hashf]})

    SEVERITY = ["KPrivate", "KParamDefaultGlobal", "KGlobalIfSeedNone", "KAuditedOrderFree", "KHashOrder", "KHash",
                "KHashDerivedSeed", "KUnseeded", "KPersistentAcrossCalls", "KShufflesCallerObject", "KHashOfInstanceCounter", "KGlobalIfSeedFalsy", "KGlobal"]

    def helper_kinds(self, d, depth=2, seen=None):
        """kinds of the sites inside helper d and inside the module helpers it calls (depth levels down)"""
        seen = seen if seen is not None else set()
        if d in seen:
            return set()
        seen.add(d)
        kinds = {s["kind"] for s in self.sites if d in s.get("_defs", [])}
        if depth > 0:
            for x in ast.walk(d):
                if isinstance(x, ast.Call):
                    for d2 in self.resolve_helper(x):
                        kinds |= self.helper_kinds(d2, depth - 1, seen)
        return kinds

    def is_torch_global_generator(self, e, at):
        """torch.manual_seed(..) / torch.random.manual_seed(..) RETURN the global default generator; torch.default_generator
        is it; so is a local name assigned from either"""
        d = (dotted(e.func) if isinstance(e, ast.Call) else dotted(e)) or ""
        parts = d.split(".")
        if parts and parts[0] in self.mod_torch and parts[-1] in ("manual_seed", "default_generator"):
            return True
        if isinstance(e, ast.Name):
            f = self.func_of(at)
            for x in ast.walk(f if f is not None else self.tree):
                if isinstance(x, ast.Assign) and any(isinstance(t, ast.Name) and t.id == e.id for t in x.targets) \
                        and not isinstance(x.value, ast.Name) and self.is_torch_global_generator(x.value, at):
                    return True
        return False

    def torch_generator_kind(self, call):
        """torch.Generator(..): takes no seed; private iff the name it is bound to gets  .manual_seed(<seed>)  in the same
        function before any other use; .seed() / no seeding at all = operating-system entropy"""
        st = self.stmt_of(call)
        names = [src(t) for t in st.targets if isinstance(t, (ast.Name, ast.Attribute))] if isinstance(st, ast.Assign) else []
        f = self.func_of(call)
        if names and f is not None:
            for x in ast.walk(f):
                if isinstance(x, ast.Call) and isinstance(x.func, ast.Attribute) and x.func.attr == "manual_seed" \
                        and src(x.func.value) in names and x.lineno >= call.lineno:
                    if len(x.args) == 1 and (seedlike(x.args[0]) or isinstance(x.args[0], ast.Constant)):
                        return "KPrivate"
                    raise Unclassified("%s:%d: `%s`: seed expression not recognised" % (self.rel, x.lineno, src(x)))
        return "KUnseeded"

    def seed_kind_of_construction(self, call):
        d = (dotted(call.func) or "").split(".")
        if len(d) == 2 and d[0] in self.mod_torch and d[1] == "Generator":
            return self.torch_generator_kind(call)
        args = list(call.args) + [k.value for k in call.keywords]
        if not args or (isinstance(args[0], ast.Constant) and args[0].value is None):
            return "KUnseeded"
        a = args[0]
        if isinstance(a, ast.Constant):
            return "KPrivate"
        if seedlike(a):
            return "KPrivate"
        if any(isinstance(x, ast.Call) and (dotted(x.func) or "").split(".")[-1] in ("obj_seed", "hash") for x in ast.walk(a)):
            return "KHashDerivedSeed"            # seeded from a (salted) object hash
        raise Unclassified("%s:%d: generator constructed from `%s`: seed expression not recognised" % (self.rel, call.lineno, src(a)))

    def persistent_scope(self, node):
        """where a generator construction outlives one call: __init__-like methods, cached properties/functions,
        class bodies and module level; None when it sits in an ordinary (per-call) function"""
        f = self.func_of(node)
        if f is None:
            return "module/class level"
        while f is not None:
            if not isinstance(f, ast.Lambda):
                if f.name in PER_OBJECT_SCOPES:
                    return f.name
                for d in f.decorator_list:
                    dd = dotted(d.func if isinstance(d, ast.Call) else d) or ""
                    if dd.split(".")[-1] in CACHING_DECORATORS:
                        return "@%s %s" % (dd.split(".")[-1], f.name)
            f = self.func_of(f)
        return None

    def scan(self):
        if self._scanned is None:
            self._scanned = "in progress"
            self._scanned = self.scan_()
        elif self._scanned == "in progress":
            raise Unclassified("%s: circular helper imports between modules" % self.rel)
        return self._scanned

    # ---- helpers imported from other msdm modules (one level) ---------------------------------------
    def imported_helper(self, call):
        """(other FileScan, def) for a call  f(..)  where f was imported with `from msdm.x.y import f` and is a def of
        that module; None when f is not such a name.  Fails closed when the module or the def cannot be found."""
        f = call.func
        if not isinstance(f, ast.Name) or f.id not in self.msdm_imports:
            return None
        module, name = self.msdm_imports[f.id]
        repo = self.registry.get("repo")
        if repo is None:
            raise Unclassified("%s:%d: `%s` is imported from %s but no repository root is known" % (self.rel, call.lineno, f.id, module))
        base = os.path.join(*module.split("."))
        rel = next((r for r in (base + ".py", os.path.join(base, "__init__.py")) if os.path.exists(os.path.join(repo, r))), None)
        if rel is None:
            raise Unclassified("%s:%d: module %s of imported helper `%s` not found" % (self.rel, call.lineno, module, f.id))
        scans = self.registry["scans"]
        if rel not in scans:
            with open(os.path.join(repo, rel)) as fh:
                scans[rel] = FileScan(rel, fh.read(), self.registry)
            scans[rel].rng_default_callees = self.registry["callees"]
        other = scans[rel]
        defs = [d for d in other.module_defs().get(name, []) if other.parents.get(d) is other.tree]
        if not defs:
            raise Unclassified("%s:%d: `%s` imported from %s is not a function defined there (re-export?): not resolvable"
                               % (self.rel, call.lineno, f.id, module))
        other.scan()
        return other, defs[0]

    def scan_(self):
        for n in ast.walk(self.tree):
            if isinstance(n, ast.Call):
                self.scan_call(n)
            elif isinstance(n, ast.arguments):
                self.scan_defaults(n)
        for n in ast.walk(self.tree):
            if not (isinstance(n, (ast.Name, ast.Attribute)) and self.is_global_module_value(n)):
                continue
            if n in self.claimed or self.in_annotation(n):
                continue
            par = self.parents.get(n)
            if isinstance(par, ast.Attribute) and par.value is n:
                # random.<attr> / np.random.<attr>: calls were classified (and claimed) in scan_call
                if par in self.claimed or self.in_annotation(par):
                    continue
                raise Unclassified("%s:%d: `%s` referenced without being called" % (self.rel, n.lineno, src(par)))
            # the global generator object used as a VALUE: assigned / passed / returned
            self.emit(n, "KGlobal", "global generator `%s` used as a value in `%s`" % (src(n), src(self.stmt_of(n))[:80]))
        self.scan_set_iteration()
        self.scan_hash_counters()
        self.scan_leftovers()
        return self.sites

    def stmt_of(self, n):
        while n in self.parents and not isinstance(n, ast.stmt):
            n = self.parents[n]
        return n

    def in_annotation(self, n):
        c = n
        while c in self.parents:
            p = self.parents[c]
            if isinstance(p, ast.arg) and p.annotation is c:
                return True
            if isinstance(p, ast.AnnAssign) and p.annotation is c:
                return True
            if isinstance(p, (ast.FunctionDef, ast.AsyncFunctionDef)) and p.returns is c:
                return True
            c = p
        return False

    def scan_defaults(self, a):
        pos = a.posonlyargs + a.args
        pairs = list(zip(pos[len(pos) - len(a.defaults):], a.defaults)) + \
            [(k, d) for k, d in zip(a.kwonlyargs, a.kw_defaults) if d is not None]
        for arg, d in pairs:
            if self.is_global_module_value(d):
                self.claimed.add(d)
                self.sites.append({"scope": self.scope(d), "line": d.lineno, "kind": "KParamDefaultGlobal",
                                   "what": "parameter default %s=%s" % (arg.arg, src(d))})
            elif self.is_genexpr(d) or (isinstance(d, ast.Call) and SUSPICIOUS.search(dotted(d.func) or "")):
                raise Unclassified("%s:%d: parameter default `%s=%s`" % (self.rel, d.lineno, arg.arg, src(d)))

    def claim(self, node):
        for x in ast.walk(node):
            self.claimed.add(x)

    def scan_call(self, n):
        f = n.func
        d = dotted(f) or ""
        parts = d.split(".") if d else []
        g = self.guards.get(n, set())
        # hash / obj_seed
        if d == "hash":
            self.claimed.add(n)
            return self.emit(n, "KHash")
        if parts and parts[-1] == "obj_seed":
            self.claimed.add(n)
            return self.emit(n, "KHashDerivedSeed")
        # constructions
        if self.is_construction(n):
            self.claim(f)
            self.claimed.add(n)
            kind = self.seed_kind_of_construction(n)
            where = self.persistent_scope(n)
            if where and kind == "KPrivate":
                key = (self.rel, self.scope(n), src(n))
                if key in AUDITED_STATEFUL:
                    return self.emit(n, "KPrivate", src(n) + "   [object-level generator, audited: %s]" % AUDITED_STATEFUL[key][:50])
                return self.emit(n, "KPersistentAcrossCalls", src(n) + "   [constructed in %s: state carries over between calls on the same object]" % where)
            return self.emit(n, kind)
        # OPERATING-SYSTEM ENTROPY / TIME: a generator (re)seeded without a seed, or raw entropy.  Non-deterministic even inside
        # torch.random.fork_rng() and even on a private generator
        no_seed = not n.args and not n.keywords or (len(n.args) == 1 and isinstance(n.args[0], ast.Constant) and n.args[0].value is None)
        entropy = None
        if parts and parts[0] in self.mod_torch and parts[-1] == "seed":
            entropy = "torch.seed() RESEEDS the generator from OS entropy (it is not a getter)"
        elif len(parts) == 2 and parts[0] in self.mod_random and parts[1] == "seed" and no_seed:
            entropy = "random.seed() without a seed: OS entropy / time"
        elif len(parts) == 3 and parts[0] in self.mod_numpy and parts[1] == "random" and parts[2] == "seed" and no_seed:
            entropy = "np.random.seed() without a seed: OS entropy"
        elif d in ("os.urandom", "os.getrandom", "uuid.uuid1", "uuid.uuid4") or (parts and parts[0] == "secrets"):
            entropy = "operating-system entropy"
        elif isinstance(f, ast.Attribute) and f.attr == "seed" and no_seed and self.is_genexpr(f.value) \
                and not self.is_global_module_value(f.value):
            entropy = "<generator>.seed() without a seed: OS entropy / time"
        if entropy:
            self.claim(f)
            self.claimed.add(n)
            self.sites.append({"scope": self.scope(n), "line": n.lineno, "kind": "KUnseeded",
                               "what": "%s   [%s]" % (src(n)[:90], entropy), "_defs": self.enclosing_defs(n)})
            return None
        # stdlib random module
        if len(parts) == 2 and parts[0] in self.mod_random:
            self.claim(f)
            self.claimed.add(n)
            return self.emit(n, "KGlobal")
        # numpy.random
        if len(parts) == 3 and parts[0] in self.mod_numpy and parts[1] == "random":
            self.claim(f)
            self.claimed.add(n)
            return self.emit(n, "KGlobal")
        # torch
        if parts and parts[0] in self.mod_torch:
            last = parts[-1]
            if last == "fork_rng":
                self.claim(f)
                self.claimed.add(n)
                return None
            if last in TORCH_RANDOM or (len(parts) >= 2 and parts[1] == "random"):
                self.claim(f)
                self.claimed.add(n)
                gen = [k.value for k in n.keywords if k.arg == "generator"]
                if gen and self.is_torch_global_generator(gen[0], n):
                    return self.emit(n, "KGlobal", src(n)[:110] + "   [generator= torch's GLOBAL default generator]")
                if gen and not (isinstance(gen[0], ast.Constant) and gen[0].value is None):
                    if self.is_genexpr(gen[0]) and not self.is_global_module_value(gen[0]):
                        return self.emit(n, "KPrivate", src(n)[:110] + "   [generator= a private torch.Generator]")
                    raise Unclassified("%s:%d: `%s`: generator argument `%s` is not a known generator" % (self.rel, n.lineno, src(n)[:80], src(gen[0])))
                if "forked_seeded" in g:
                    return self.emit(n, "KPrivate", src(n) + "   [inside torch.random.fork_rng(), generator re-seeded from the seed]")
                return self.emit(n, "KGlobal")
            if SUSPICIOUS.search(last) and not last.startswith(("tensor", "einsum")):
                raise Unclassified("%s:%d: torch call `%s` not classified" % (self.rel, n.lineno, src(n)))
            return None
        if isinstance(f, ast.Name):
            if f.id in self.rng_default_callees:
                return self.check_rng_keyword(n, self.rng_default_callees[f.id])
            return None
        if not isinstance(f, ast.Attribute):
            return None
        recv, meth = f.value, f.attr
        # (re)seeding a generator-bound receiver:  g.manual_seed(<seed>)
        if meth == "manual_seed" and self.is_genexpr(recv) and not self.is_global_module_value(recv):
            self.claimed.add(n)
            if len(n.args) == 1 and (seedlike(n.args[0]) or isinstance(n.args[0], ast.Constant)):
                return self.emit(n, "KPrivate")
            raise Unclassified("%s:%d: `%s`: seed expression not recognised" % (self.rel, n.lineno, src(n)))
        if meth == "seed" and self.is_genexpr(recv) and not self.is_global_module_value(recv):
            self.claimed.add(n)
            if len(n.args) >= 1 and (seedlike(n.args[0]) or isinstance(n.args[0], ast.Constant)):
                return self.emit(n, "KPrivate")
            raise Unclassified("%s:%d: `%s`: seed expression not recognised" % (self.rel, n.lineno, src(n)))
        # draws on generator-bound receivers
        if meth in DRAW_METHODS and self.is_genexpr(recv) and not self.is_global_module_value(recv):
            self.claimed.add(n)
            if meth == "shuffle" and n.args and not self.is_fresh_list(n.args[0], n):
                return self.emit(n, "KShufflesCallerObject", src(n) + "   [in-place shuffle of `%s`, which is not provably a fresh copy]" % src(n.args[0]))
            return self.emit(n, "KPrivate")
        # msdm methods whose rng parameter defaults to the global generator
        if meth in RNG_DEFAULT_METHODS or meth in self.rng_default_callees:
            return self.check_rng_keyword(n, self.rng_default_callees.get(meth, "rng"))
        if meth in DRAW_METHODS:
            rd = dotted(recv) or ""
            if rd.split(".")[-1] in NONDRAW_RECEIVERS:
                return None
            raise Unclassified("%s:%d: `%s`: method `%s` on a receiver that is neither a known generator nor a distribution class"
                               % (self.rel, n.lineno, src(n), meth))
        return None

    def is_fresh_expr(self, e):
        """expression that certainly builds a NEW list: list(..), sorted(..), [..], a comprehension, x.copy(), copy.copy(x), a + b"""
        if isinstance(e, (ast.List, ast.ListComp)):
            return True
        if isinstance(e, ast.Call):
            d = dotted(e.func) or ""
            if d in ("list", "sorted", "copy.copy", "copy.deepcopy"):
                return True
            if isinstance(e.func, ast.Attribute) and e.func.attr == "copy" and not e.args:
                return True
        if isinstance(e, ast.BinOp) and isinstance(e.op, ast.Add):
            return self.is_fresh_expr(e.left) or self.is_fresh_expr(e.right)
        if isinstance(e, ast.IfExp):
            return self.is_fresh_expr(e.body) and self.is_fresh_expr(e.orelse)
        return False

    def param_fresh_at_call_sites(self, f, name, depth):
        """parameter `name` of module helper f: fresh iff f is called in this module and EVERY call site passes a fresh list"""
        if depth <= 0 or isinstance(f, ast.Lambda):
            return False
        pos = [a.arg for a in f.args.posonlyargs + f.args.args]
        is_method = isinstance(self.parents.get(f), ast.ClassDef) and pos[:1] in (["self"], ["cls"])
        calls = [c for c in ast.walk(self.tree) if isinstance(c, ast.Call) and f in self.resolve_helper(c)]
        # a helper that is returned / stored / passed around (a closure) can be called from anywhere: not resolvable
        escapes = any(isinstance(x, ast.Name) and x.id == f.name and isinstance(x.ctx, ast.Load)
                      and not (isinstance(self.parents.get(x), ast.Call) and self.parents[x].func is x)
                      for x in ast.walk(self.tree))
        if not calls or escapes:
            return False
        for c in calls:
            bound = None
            for k in c.keywords:
                if k.arg == name:
                    bound = k.value
            if bound is None and name in pos:
                i = pos.index(name) - (1 if is_method and isinstance(c.func, ast.Attribute) and dotted(c.func.value) in ("self", "cls") else 0)
                if 0 <= i < len(c.args) and not any(isinstance(a, ast.Starred) for a in c.args[:i + 1]):
                    bound = c.args[i]
            if bound is None or not self.is_fresh_list(bound, c, depth - 1):
                return False
        return True

    def is_fresh_list(self, arg, at, depth=2):
        """the shuffled object is a local name whose governing assignment(s) build a new list, or a parameter of a module
        helper all of whose call sites pass a new list"""
        if self.is_fresh_expr(arg):
            return True
        if not isinstance(arg, ast.Name):
            return False
        f = self.func_of(at)
        if f is None or isinstance(f, ast.Lambda):
            return False
        # nearest earlier assignment in the same statement block decides (branch-local `x = list(..); rng.shuffle(x)`)
        st = self.stmt_of(at)
        par = self.parents.get(st)
        for field in ("body", "orelse", "finalbody"):
            block = getattr(par, field, None)
            if isinstance(block, list) and st in block:
                for prev in reversed(block[:block.index(st)]):
                    if isinstance(prev, ast.Assign) and any(isinstance(t, ast.Name) and t.id == arg.id for t in prev.targets):
                        return self.is_fresh_expr(prev.value)
                    if any(isinstance(x, ast.Name) and x.id == arg.id and isinstance(x.ctx, ast.Store) for x in ast.walk(prev)):
                        return False
        params = {a.arg for a in f.args.posonlyargs + f.args.args + f.args.kwonlyargs}
        values = []
        for x in ast.walk(f):
            if isinstance(x, ast.Assign) and any(isinstance(t, ast.Name) and t.id == arg.id for t in x.targets):
                values.append(x.value)
            elif isinstance(x, (ast.AugAssign, ast.AnnAssign)) and isinstance(x.target, ast.Name) and x.target.id == arg.id:
                values.append(x.value)
            elif isinstance(x, (ast.For, ast.comprehension)) and any(isinstance(t, ast.Name) and t.id == arg.id for t in ast.walk(x.target)):
                return False
        if arg.id in params:
            return not values and self.param_fresh_at_call_sites(f, arg.id, depth)
        return bool(values) and all(v is not None and self.is_fresh_expr(v) for v in values)

    def check_rng_keyword(self, n, param):
        if True:
            self.claimed.add(n)
            if any(k.arg is None for k in n.keywords):
                raise Unclassified("%s:%d: `%s` forwards **kwargs: cannot tell whether rng is passed" % (self.rel, n.lineno, src(n)))
            kw = [k for k in n.keywords if k.arg == param]
            if not kw:
                return self.emit(n, "KGlobal", src(n) + "   [no %s= : defaults to the global generator]" % param)
            v = kw[0].value
            if self.is_global_module_value(v):
                self.claim(v)
                return self.emit(n, "KGlobal", src(n) + "   [rng= the global generator]")
            if self.is_genexpr(v):
                return self.emit(n, "KPrivate")
            raise Unclassified("%s:%d: `%s`: rng argument `%s` is not a known generator" % (self.rel, n.lineno, src(n), src(v)))

    # ---- set iteration ---------------------------------------------------------
    def hash_order_site(self, node, expr, how):
        text = src(expr)
        key = (self.rel, self.scope(node), text)
        if key in AUDITED_ORDER_FREE:
            self.sites.append({"scope": self.scope(node), "line": node.lineno, "kind": "KAuditedOrderFree",
                               "what": "%s over set `%s`  [audited: %s]" % (how, text, AUDITED_ORDER_FREE[key][:60])})
        else:
            self.sites.append({"scope": self.scope(node), "line": node.lineno, "kind": "KHashOrder",
                               "what": "%s over set `%s`" % (how, text)})

    def scan_set_iteration(self):
        for n in ast.walk(self.tree):
            fn = self.scope(n)
            if isinstance(n, (ast.For, ast.AsyncFor)) and self.is_setexpr(n.iter, fn):
                self.hash_order_site(n, n.iter, "for-loop")
            elif isinstance(n, ast.comprehension) and self.is_setexpr(n.iter, self.scope(self.parents[n])):
                self.hash_order_site(self.parents[n], n.iter, "comprehension")
            elif isinstance(n, ast.Call):
                d = dotted(n.func) or ""
                last = d.split(".")[-1] if d else (n.func.attr if isinstance(n.func, ast.Attribute) else "")
                if last in ITER_CALLS:
                    for a in n.args:
                        inner = a.value if isinstance(a, ast.Starred) else a
                        if self.is_setexpr(inner, fn):
                            self.hash_order_site(n, inner, "%s(..)" % last)
                elif isinstance(n.func, ast.Attribute) and n.func.attr == "pop" and not n.args and self.is_setexpr(n.func.value, fn):
                    self.hash_order_site(n, n.func.value, "pop()")
                else:
                    for a in n.args:
                        if isinstance(a, ast.Starred) and self.is_setexpr(a.value, fn):
                            self.hash_order_site(n, a.value, "*-unpacking")

    # ---- leftovers: fail closed ---------------------------------------------------
    def scan_leftovers(self):
        """any remaining call whose callee name looks randomness-related must have been classified"""
        known_ok = {"_init_random_number_generator", "make_shuffled", "shuffled", "sample_distribution",
                    "epsilon_softmax_sample"}
        for n in ast.walk(self.tree):
            if not isinstance(n, ast.Call) or n in self.claimed:
                continue
            d = dotted(n.func)
            last = d.split(".")[-1] if d else (n.func.attr if isinstance(n.func, ast.Attribute) else "")
            if not last or not SUSPICIOUS.search(last):
                continue
            if last in known_ok or last in self.gen_funcs:
                continue
            if any(s["line"] == n.lineno for s in self.sites):
                continue
            imp = self.imported_helper(n)
            if imp is not None:
                other, d = imp
                kinds = other.helper_kinds(d)
                if kinds:
                    worst = max(kinds, key=self.SEVERITY.index)
                    args = list(n.args) + [k.value for k in n.keywords]
                    if "KGlobalIfSeedNone" in kinds and (not args or (isinstance(args[0], ast.Constant) and args[0].value is None)):
                        worst = "KGlobal"        # the factory's `seed is None` branch is the one taken: global generator
                    elif args and not (seedlike(args[0]) or isinstance(args[0], ast.Constant) or self.is_genexpr(args[0])):
                        raise Unclassified("%s:%d: `%s`: argument `%s` of the imported helper is neither a seed nor a generator"
                                           % (self.rel, n.lineno, src(n)[:80], src(args[0])))
                    self.emit(n, worst, "%s   [through helper %s.%s: %s]" % (src(n)[:90], other.rel, d.name, ",".join(sorted(kinds))))
                    self.sites[-1]["kind"] = worst
                continue
            helpers = self.resolve_helper(n)
            if helpers:
                # a helper function / method of this module: its own draw sites are in the table (classified through the
                # generator it receives or reads); the CALL is listed with the worst kind found inside, so that a component
                # whose only draws go through helpers still has its sites
                kinds = set()
                for d in helpers:
                    kinds |= self.helper_kinds(d)
                if kinds:
                    worst = max(kinds, key=self.SEVERITY.index)
                    self.emit(n, worst, "%s   [draws through module helper `%s`: %s]" % (src(n)[:90], last, ",".join(sorted(kinds))))
                    self.sites[-1]["kind"] = worst        # (emit's guard rewriting does not apply to a summary)
                continue
            raise Unclassified("%s:%d: call `%s` looks randomness-related and is not classified" % (self.rel, n.lineno, src(n)[:120]))


def components_of(rel, scope):
    default, over = FILES[rel]
    best = None
    for prefix, comps in over.items():
        if scope == prefix or scope.startswith(prefix + "."):
            if best is None or len(prefix) > len(best[0]):
                best = (prefix, comps)
    return best[1] if best else default


def extract(repo):
    out = []
    scans = {}
    callees = {}
    registry = {"repo": repo, "scans": scans, "callees": callees}
    for rel in FILES:
        path = os.path.join(repo, rel)
        if not os.path.exists(path):
            raise Unclassified("anchored file missing: %s" % rel)
        with open(path) as f:
            text = f.read()
        scans[rel] = FileScan(rel, text, registry)
        callees.update(scans[rel].global_default_params())
    for rel in list(FILES):
        fs = scans[rel]
        fs.rng_default_callees = callees
        for s in fs.scan():
            for comp in components_of(rel, s["scope"]):
                out.append(dict({k: v for k, v in s.items() if not k.startswith("_")}, file=rel, component=comp))
    out.sort(key=lambda s: (COMPONENTS.index(s["component"]) if s["component"] in COMPONENTS else 99, s["file"], s["line"], s["what"]))
    present = {s["component"] for s in out}
    missing = [c for c in COMPONENTS if c not in present]
    if missing:
        raise Unclassified("no randomness site found at all for component(s) %s: the extractor no longer sees the code" % missing)
    for s in out:
        assert s["kind"] in KINDS, s
    return out


def coqstr(s):
    s = s.encode("ascii", "replace").decode()
    return '"' + s.replace('"', '""') + '"'


def repo_rev(repo):
    try:
        rev = subprocess.run(["git", "-C", repo, "rev-parse", "--short", "HEAD"], capture_output=True, text=True, timeout=20).stdout.strip()
        dirty = subprocess.run(["git", "-C", repo, "status", "--porcelain", "--", "msdm"], capture_output=True, text=True, timeout=20).stdout.strip()
        return rev + ("+modified" if dirty else "")
    except Exception:
        return "unknown"


def render(sites, repo):
    lines = ["(* GENERATED by harness/extract_sites.py on every ./check C13 — DO NOT EDIT.",
             "   One entry per expression of the twelve files anchored by C13 that can consume randomness",
             "   or depend on hash order. *)",
             "From Coq Require Import String List.",
             "From MSDM Require Import model.Rng.",
             "Import ListNotations.",
             "Local Open Scope string_scope.",
             "",
             "Definition sites : list site := ["]
    rows = []
    for s in sites:
        rows.append("  mkSite %s %s %d %s %s" % (coqstr(s["component"]), coqstr(s["file"]), s["line"], s["kind"],
                                                 coqstr("%s: %s" % (s["scope"], s["what"][:160]))))
    lines.append(";\n".join(rows))
    lines.append("].")
    lines.append("")
    lines.append("Definition components : list string := [%s]." % "; ".join(coqstr(c) for c in COMPONENTS))
    lines.append("Definition component_sites (c : string) : list site := sites_of sites c.")
    lines.append("")
    return "\n".join(lines)


def generate(repo=None, out=None):
    repo = repo or os.environ.get("MSDM_REPO", "/repo")
    out = out or os.path.join(ROOT, "coq", "gen", "Sites.v")
    try:
        sites = extract(repo)
    except Exception as e:
        # fail closed: leave NO stale table behind — an empty one breaks sites_cover_components (and the build)
        text = render([], repo).replace("(* GENERATED", "(* EXTRACTION FAILED: %s *)\n(* GENERATED" % str(e).replace("*)", "* )")[:400], 1)
        os.makedirs(os.path.dirname(out), exist_ok=True)
        with open(out, "w") as f:
            f.write(text)
        raise
    text = render(sites, repo)
    old = None
    if os.path.exists(out):
        with open(out) as f:
            old = f.read()
    if old != text:                      # keep the mtime when nothing changed (no needless rebuild)
        os.makedirs(os.path.dirname(out), exist_ok=True)
        with open(out, "w") as f:
            f.write(text)
    return sites


if __name__ == "__main__":
    ss = generate(*sys.argv[1:3])
    for s in ss:
        print("%-13s %-48s %4d %-20s %s" % (s["component"], s["file"], s["line"], s["kind"], s["what"][:110]))
