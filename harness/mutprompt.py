#!/usr/bin/env python3
"""prints the prompt for a fresh mutant-maker sub-agent for property <id> and creates its scratch worktree"""
import json, os, subprocess, sys
pid = sys.argv[1]
tag = sys.argv[2] if len(sys.argv) > 2 else ""
ROOT = os.path.dirname(os.path.dirname(os.path.abspath(__file__)))
p = [json.loads(l) for l in open(os.path.join(ROOT, "properties.jsonl")) if json.loads(l)["id"] == pid][0]
wt = "/tmp/mut_%s%s" % (pid, tag)
out = wt + "_out"
if not os.path.exists(wt):
    subprocess.run(["git", "-C", "/repo", "worktree", "add", "-q", "--detach", wt, "HEAD"], check=True)
files = ", ".join(p["anchors"]["files"])
print(f"""You are a software engineer asked to produce realistic *breaking changes* (seeded bugs) for the Python library msdm (MDP/POMDP/stochastic-game models with planning and RL algorithms). You have your own scratch git worktree of the library at {wt} (work ONLY there and in {out}; never touch /repo or /verif; do not read anything under /verif). Python with all dependencies: `/venv/bin/python`; run code against your worktree with `PYTHONPATH={wt} /venv/bin/python …` (importing msdm takes ~6 s). The existing test suite is run with: `cd {wt} && /venv/bin/python -m pytest -q -p no:cacheprovider --timeout=900 msdm/tests` (~1 min; a couple of tests fail already on the unmodified tree — note which ones first so you can tell new failures from old ones).

The semantic property your changes must break:

"{p['title']}. {p['statement']}"
Quantified over: {p['quantifier']['text']}.
Relevant files: {files}.

Produce THREE different changes (each a separate small patch against the clean worktree), each of which:
 * keeps the library importable and keeps every test that passes on the clean worktree passing (run the suite to confirm; report pass/fail counts before and after);
 * makes the property false for SOME inputs, but needs something specific to manifest — an unusual input, a particular parameter setting, a multi-step sequence of operations, a particular seed/history, or two cooperating sites that each look fine alone — NOT something every ordinary use would expose at once;
 * looks like a plausible mistake or "optimisation" a maintainer could make (no sabotage comments, no dead code);
 * is different in kind from the other two (different clause of the property, different file or mechanism).
For each change write, in {out}/<k>/ (k = 1,2,3): `patch.diff` (output of `git diff` in the worktree), `demo.py` (a small self-contained program that uses msdm's public API on a concrete input and asserts the property clause with an independent computation; it must exit 0 on the clean tree and non-zero with the patch applied — verify both, switching by saving the diff to a file: `git diff > p.diff; git checkout -- .` then `git apply p.diff` — do NOT use `git stash`: the stash stack is shared by all worktrees of the repository and other agents are working concurrently), and `notes.md` (which clause breaks, what the input needs in order to manifest, what you ran and the observed outputs). Reset the worktree to clean (`git checkout -- .`) between changes and at the end. Final answer: a short summary of the three changes and the verification you did.""")
