#!/usr/bin/env python3
"""Regenerates /verif/MANIFEST.json from the table below (run after claiming a new property)."""
import json, os
ROOT = os.path.dirname(os.path.dirname(os.path.abspath(__file__)))

CLAIMED = {k: tuple(v) for k, v in json.load(open(os.path.join(ROOT, "harness", "claims.json"))).items()}

NOT_YET = "check not built yet in this round (design in DESIGN.md §5; no claim made until the Coq model, theorems and correspondence run)"

def main():
    props = [json.loads(l) for l in open(os.path.join(ROOT, "properties.jsonl"))]
    checks, na = [], []
    for p in props:
        pid = p["id"]
        if pid in CLAIMED:
            cat, text, ref, note, tech = CLAIMED[pid]
            checks.append({
                "property_id": pid,
                "quick_cmd": "./check %s --tier quick" % pid,
                "thorough_cmd": "./check %s --tier thorough" % pid,
                "evidence_file": "evidence/%s.json" % pid,
                "replay_cmd_template": "./check %s --replay {path}" % pid,
                "engine": "coq-msdm",
                "level_claimed": {"category": cat, "text": text, "design_ref": ref},
                "level_note": note,
                "technique": tech,
            })
        else:
            na.append({"property_id": pid, "reason": NOT_APPLICABLE.get(pid, NOT_YET)})
    man = {
        "version": 1,
        "setup_cmd": "python3 harness/extract_sites.py > /dev/null && coq/build.sh " + " ".join("props/%s.vo" % c for c in sorted(CLAIMED)),
        "hooks": {
            "guard": "MSDM_VERIF",
            "enable": "no source hooks: the harness observes msdm through its public event-listener classes and by wrapping module-level names inside the harness process (MSDM_VERIF=1 is exported to the implementation subprocess but nothing in /repo reads it)",
            "baseline_off_cmd": "cd /repo && /venv/bin/python -m pytest -ra -q -p no:cacheprovider --timeout=900 --continue-on-collection-errors",
            "source_commits": [],
            "add_only": True,
        },
        "engines": [{"name": "coq-msdm", "path": "coq/", "serves_properties": sorted(CLAIMED),
                     "kind_free_text": "Coq 8.16 development (Num-generic Gallina models, theorems on R, paramcoq transfer to Q) + Python correspondence harness (harness/) evaluating the models by vm_compute on implementation outputs"}],
        "checks": checks,
        "not_applicable": na,
        "notes": "See DESIGN.md. Fix commits in /repo are listed in known_findings.json (fixed: entries).",
    }
    with open(os.path.join(ROOT, "MANIFEST.json"), "w") as f:
        json.dump(man, f, indent=1)
    print("claimed:", sorted(CLAIMED), "not_applicable:", [x["property_id"] for x in na])

NOT_APPLICABLE = {}

if __name__ == "__main__":
    main()
