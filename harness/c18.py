"""C18 — grid-game transitions are normalised and respect the physical constraints; factor-table algebra.

Correspondence (every run, on generated inputs):
  * factor tables: random expressions over DiscreteFactorTable (&, |, *, /, normalize, marginalize) on tables
    with shared / disjoint / partially overlapping (nested) variables, duplicate rows and zero rows; msdm's
    result (support rows in order, exp(logits), probs, prob(row)) vs model/FactorTable.v at 1e-9.
  * grid games: generated layouts -> TabularGridGame -> reachable states x 25 joint actions;
      - the proved-sound certificate checker model/GridGame.v:gg_check (props/C18.v gg_check_sound) is
        evaluated on every next_state_dist the implementation returns (and on the terminal state + rewards),
      - the mirror model gg_next_state_dist is compared with it at 1e-9,
      - msdm's parse of the layout string is compared with the generator's own cell facts.
"""
from fractions import Fraction as F
import json
import vlib
from vlib import q, qlist, nat, zlit, coqlist, b

INFO = {
    "level": "proof",
    "coq_files": ["model/FactorTable.v", "model/GridGame.v"],
    "trusted_base": [
        "nested-dict rows are flattened to (path |-> value) association lists by the harness (paths interned to nat); "
        "faithful because every generated variable is consistently a leaf or a non-empty nested dict",
        "weights are exp(logit): the model works on exact rational weights, msdm on float logits; compared at 1e-9",
        "grid layout facts given to the checker are the generator's own (cell -> symbols), cross-checked against msdm's parse",
    ],
    "assumptions": ["agents start in distinct, obstacle-free cells (layouts inside the property's quantifier)",
                    "marginalize is exercised with a callable projection (restriction to variables); list projections raise TypeError in msdm"],
}

PRE = """From Coq Require Import QArith List Bool ZArith Arith.
From MSDM Require Import model.FactorTable model.GridGame.
Import ListNotations.
Local Open Scope Q_scope.
(* Coq 8.16 prints some Q values as decimals; print every rational as a (numerator, denominator) pair *)
Definition qz (x : Q) := let y := Qred x in (Qnum y, Zpos (Qden y)).
Definition ftout (t : table) := (map (fun e => (fst e, qz (snd e))) t, map qz (ft_probs t), map qz (map (ft_prob t) (ft_rows t))).
Definition chk_state L tol s (xs : list (list action * dist * list (list Q))) :=
  map (fun x => gg_check L tol s (fst (fst x)) (snd (fst x)) (snd x)) xs.
Definition mir_state L s (jas : list (list action)) :=
  map (fun ja => map (fun e => (fst e, qz (snd e))) (gg_next_state_dist L s ja)) jas.
"""

ACTIONS = [(0, 0), (1, 0), (-1, 0), (0, 1), (0, -1)]
JAS = [(a0, a1) for a0 in ACTIONS for a1 in ACTIONS]
TOL = F(1, 10**9)

# ------------------------------------------------------------------ factor tables: generator
PATHS = [("a",), ("b",), ("c",), ("d",), ("e",), ("n", "p"), ("n", "q"), ("m", "x"), ("m", "y"), ("",), ("m", "")]
PIDX = {p: i for i, p in enumerate(PATHS)}
WEIGHTS = ["0", "1/8", "1/4", "3/8", "1/2", "1", "2", "3/2", "1/3", "1/100000",
           "1/1073741824", "1048575/1048576", "1000000",
           "1/1099511627776", "1/1152921504606846976",            # 2^-40, 2^-60: far below isclose's atol
           "1000001", "1000000000", "1000001000",                 # large, relative gaps 1e-6
           "1/10", "7/10", "1/5", "1/7"]                          # non-dyadic
TINY = F(1, 2**27)
NEAR = ["1000", "1000001/1000", "1000000", "1000001", "1000000000", "1000001000"]    # 1e3 .. 1e9, relative gaps 1e-6
SPREAD = ["1/" + "1" + "0" * 150, "1" + "0" * 150, "1"]          # score spread ~ 690
# values of a variable: ints, strings or booleans (falsy members 0, "", False), one type per variable
VALS = {"int": [0, 1, 2], "str": ["", "x", "y"], "bool": [False, True],
        # optional-valued variables: None is a VALUE like any other ({'holding': None} != {'holding': 'x'})
        "optstr": [None, "x", "y", None], "optint": [None, 0, 1, None]}


def vcode(v):
    """value -> Z code used in the model (types never mix within a variable)"""
    if v is None:
        return 300
    if isinstance(v, bool):
        return 200 + int(v)
    if isinstance(v, int):
        return v
    return 100 + VALS["str"].index(v)


def nest(flat):
    """[(path, v)] in order -> nested dict"""
    out = {}
    for p, v in flat:
        dcur = out
        for k in p[:-1]:
            dcur = dcur.setdefault(k, {})
        dcur[p[-1]] = v
    return out


def flatten(dct, pre=()):
    out = []
    for k, v in dct.items():
        if isinstance(v, dict):
            out += flatten(v, pre + (k,))
        else:
            out.append((pre + (k,), v))
    return out


def gen_rows(rng, paths, nrows, hetero=False, dup=False, vt=None):
    rows = []
    for _ in range(nrows):
        ps = list(paths)
        if hetero and len(ps) > 1 and rng.random() < .5:
            ps = rng.sample(ps, rng.randint(1, len(ps)))
            ps.sort(key=lambda p: paths.index(p))
        rows.append([(p, rng.choice(VALS[(vt or {}).get(p, "int")])) for p in ps])
    if dup and rows:
        rows.insert(rng.randint(0, len(rows)), list(rng.choice(rows)))
    return rows


def gen_table(rng, paths, hetero=False, positive=False, ctor=None, vt=None, allow_empty=False, pool=None):
    nrows = rng.randint(1, 4)
    if allow_empty and rng.random() < .08:
        return {"rows": [], "w": [], "ctor": "probs"}
    ten = pool is None and not positive and rng.random() < .06       # ten rows of 0.1 (float sum is not 1.0)
    if ten:
        nrows = 10
    rows = gen_rows(rng, paths, nrows, hetero=hetero, dup=rng.random() < .2 and not ten, vt=vt)
    if pool is None and rng.random() < .1:
        pool = NEAR
    pool = [w for w in (pool or WEIGHTS) if not (positive and w == "0")]
    ws = [rng.choice(pool) if rng.random() < .8 else "0" for _ in rows]
    if ten:
        ws = ["1/10"] * len(rows)
    if positive:
        ws = [w if w != "0" else "1/4" for w in ws]
    elif all(w == "0" for w in ws) and rng.random() < .7:
        ws[0] = "1/2"
    return {"rows": [nest(r) for r in rows], "w": ws,
            "ctor": ctor or rng.choice(["probs", "probs", "logits", "logits", "uniform"]),
            "sup": rng.choice(["list", "tuple"]), "arr": rng.random() < .3, "int_w": rng.random() < .4}


def tw(t):
    """effective weights of a generated table"""
    return ["1"] * len(t["rows"]) if t.get("ctor") == "uniform" else t["w"]


def pick_paths(rng, pool, k):
    ps = rng.sample(pool, min(k, len(pool)))
    rng.shuffle(ps)
    return ps


def gen_ft_case(rng):
    shape = rng.choice(["product", "product", "product", "product3", "mix", "mix", "mixraw", "scale", "div",
                        "norm", "marg", "margprod", "fence", "constraint", "selfprod", "selfmix", "spread"])
    vt = {p: rng.choice(["int", "int", "str", "bool", "optstr", "optint"]) for p in PATHS}
    rel = rng.choice(["shared", "disjoint", "partial", "partial"])
    k1 = rng.randint(1, 3)
    p1 = pick_paths(rng, PATHS, k1)
    rest = [p for p in PATHS if p not in p1]
    if rel == "shared":
        p2 = list(p1)
        rng.shuffle(p2)
    elif rel == "disjoint":
        p2 = pick_paths(rng, rest, rng.randint(1, 3))
    else:
        p2 = pick_paths(rng, p1, rng.randint(1, len(p1))) + pick_paths(rng, rest, rng.randint(1, 2))
        rng.shuffle(p2)
    hetero = rng.random() < .15
    c = rng.choice(["0", "1/4", "1/2", "1", "3", "7/10", "1/1073741824", "1048575/1048576", "1000000"])
    cpos = rng.choice(["1/4", "1/2", "1", "3", "7/10", "1/1073741824", "1048575/1048576", "1000000"])
    if shape == "product":
        tabs = [gen_table(rng, p1, hetero, vt=vt, allow_empty=True), gen_table(rng, p2, hetero, vt=vt, allow_empty=True)]
        expr = ["and", ["t", 0], ["t", 1]]
    elif shape == "selfprod":
        # the same table OBJECT on both sides
        tabs = [gen_table(rng, p1, hetero, vt=vt)]
        expr = ["and", ["t", 0], ["t", 0]]
    elif shape == "selfmix":
        tabs = [gen_table(rng, p1, vt=vt)]
        expr = ["or", ["mul", ["t", 0], rng.choice(["0", "1/4", "1"])], ["rmul", ["t", 0], rng.choice(["0", "3/4", "1"])]]
    elif shape == "spread":
        # weights 1e-150 .. 1e150 (logit spread ~ 690): product / scaled mixture / normalize
        tabs = [gen_table(rng, p1, vt=vt, pool=SPREAD), gen_table(rng, p1 if rng.random() < .5 else p2, vt=vt, pool=SPREAD)]
        k = rng.randrange(3)
        if k == 0:
            expr = ["and", ["t", 0], ["t", 1]]
        elif k == 1:
            tabs[1] = gen_table(rng, p1, vt=vt, pool=SPREAD)
            expr = ["or", ["mul", ["t", 0], "1/2"], ["mul", ["t", 1], "1/2"]]
        else:
            if all(w == "0" for w in tw(tabs[0])):
                tabs[0]["w"][0] = SPREAD[0]
            expr = ["norm", ["t", 0]]
    elif shape == "product3":
        p3 = pick_paths(rng, PATHS, rng.randint(1, 2))
        tabs = [gen_table(rng, p1, vt=vt), gen_table(rng, p2, vt=vt), gen_table(rng, p3, vt=vt)]
        expr = ["and", ["and", ["t", 0], ["t", 1]], ["t", 2]]
    elif shape == "mix":
        a = rng.choice(["0", "1/4", "1/2", "1", "1/10", "1/3", "7/10", "1/1099511627776", "1/1152921504606846976"])
        bb = str(1 - F(a)) if rng.random() < .7 else rng.choice(["0", "1/3", "2"])
        tabs = [gen_table(rng, p1, vt=vt, allow_empty=True), gen_table(rng, p1, vt=vt, allow_empty=True)]
        if rng.random() < .5 and tabs[0]["rows"] and tabs[1]["rows"]:
            # make sure some rows coincide
            tabs[1]["rows"][0] = json.loads(json.dumps(rng.choice(tabs[0]["rows"])))
        expr = ["or", [rng.choice(["mul", "rmul"]), ["t", 0], a], ["mul", ["t", 1], bb]]
    elif shape == "mixraw":
        # possibly different key order / different variables: msdm asserts, the model's ft_mix_defined mirrors the assert
        p1 = [p for p in p1 if len(p) == 1] or [("a",)]
        p2 = [p for p in p2 if len(p) == 1] or [("b",)]
        q2 = list(p1)
        r = rng.random()
        if r < .35:
            rng.shuffle(q2)
        elif r < .5:
            q2 = p2
        tabs = [gen_table(rng, p1, vt=vt), gen_table(rng, q2, vt=vt)]
        expr = ["or", ["t", 0], ["t", 1]]
    elif shape == "scale":
        tabs = [gen_table(rng, p1, hetero, vt=vt, allow_empty=True)]
        expr = [rng.choice(["mul", "rmul"]), ["t", 0], c]
    elif shape == "div":
        tabs = [gen_table(rng, p1, hetero, vt=vt, allow_empty=True)]
        expr = ["div", ["t", 0], cpos]
    elif shape == "norm":
        tabs = [gen_table(rng, p1, hetero, vt=vt)]
        if all(w == "0" for w in tw(tabs[0])):
            tabs[0]["w"][0] = "3/8"
        expr = ["norm", ["t", 0]]
    elif shape == "marg":
        tabs = [gen_table(rng, p1, vt=vt)]
        ks = pick_paths(rng, p1, rng.randint(1, len(p1)))
        expr = ["marg", ["t", 0], [list(p) for p in ks]]
    elif shape == "margprod":
        tabs = [gen_table(rng, p1, vt=vt), gen_table(rng, p2, vt=vt)]
        allp = list(dict.fromkeys(p1 + p2))
        ks = pick_paths(rng, allp, rng.randint(1, len(allp)))
        expr = ["marg", ["and", ["t", 0], ["t", 1]], [list(p) for p in ks]]
    elif shape == "fence":
        # the grid game's fence pattern: move * p | stay * (1 - p)
        a = rng.choice(["0", "1/4", "1/2", "1", "1/1073741824", "1048575/1048576"])
        t0 = gen_table(rng, p1, positive=True, vt=vt)
        t0["rows"] = t0["rows"][:2]
        t0["w"] = ["1/100000", "99999/100000"][:len(t0["rows"])]
        t0["ctor"] = "probs"
        t1 = {"rows": [json.loads(json.dumps(t0["rows"][0]))], "w": ["1"], "ctor": "uniform"}
        tabs = [t0, t1]
        expr = ["or", ["mul", ["t", 0], a], ["mul", ["t", 1], str(1 - F(a))]]
    else:
        # the [1, 0] constraint pattern
        t0 = gen_table(rng, p1, positive=True, vt=vt)
        rows = t0["rows"][:2]
        t1 = {"rows": json.loads(json.dumps(rows)), "w": ["1", "0"][:len(rows)], "ctor": "probs"}
        tabs = [t0, t1]
        expr = ["and", ["t", 0], ["t", 1]]
    return {"kind": "ft", "shape": shape, "rel": rel, "tables": tabs, "expr": expr,
            "touch": rng.random() < .5, "int_scalars": rng.random() < .4}


# ------------------------------------------------------------------ factor tables: Gallina printing
def row_lit(rowdict):
    return coqlist("(%s, %s)" % (nat(PIDX[p]), zlit(vcode(v))) for p, v in flatten(rowdict))


def table_lit(t):
    return coqlist("(%s, %s)" % (row_lit(r), q(w)) for r, w in zip(t["rows"], tw(t)))


def expr_term(e, tabs):
    op = e[0]
    if op == "t":
        return table_lit(tabs[e[1]])
    if op == "and":
        return "(ft_product %s %s)" % (expr_term(e[1], tabs), expr_term(e[2], tabs))
    if op == "or":
        return "(ft_mix %s %s)" % (expr_term(e[1], tabs), expr_term(e[2], tabs))
    if op in ("mul", "rmul"):
        return "(ft_scale %s %s)" % (q(e[2]), expr_term(e[1], tabs))
    if op == "div":
        return "(ft_div %s %s)" % (q(e[2]), expr_term(e[1], tabs))
    if op == "norm":
        return "(ft_normalize %s)" % expr_term(e[1], tabs)
    if op == "marg":
        return "(ft_marginalize %s %s)" % (coqlist(nat(PIDX[tuple(p)]) for p in e[2]), expr_term(e[1], tabs))
    raise ValueError(op)


def ft_term(case):
    e = case["expr"]
    t = expr_term(e, case["tables"])
    if case["shape"] == "mixraw":
        return "(ft_mix_defined %s %s, ftout %s)" % (expr_term(e[1], case["tables"]), expr_term(e[2], case["tables"]), t)
    return "(true, ftout %s)" % t


def fq(p):
    """(num, den) pair printed by qz -> Fraction"""
    return F(p[0], p[1])


def close(x, y):
    """float result x vs exact model value y: RELATIVE 1e-9 (tiny weights like EPS*EPS = 1e-10 are compared too)"""
    return abs(x - y) <= TOL * abs(y) + F(1, 10**30)


def ft_compare(case, res, val):
    """-> None when msdm and the model agree, else a short description"""
    defined, out = val[0], val[1:]
    if len(val) == 2:
        out = val[1]
    tab, probs, probq = out
    if "raised" in res:
        return None if not defined else "msdm raised %s where the model's mix precondition holds" % res["raised"]
    if not res.get("repeat_same", True):
        return "evaluating the same expression twice on the same table objects gave different results"
    if not res.get("first_result_unchanged", True):
        return "the first result changed after its operands were used again"
    if not res.get("operands_unchanged", True):
        return "evaluating the expression changed its operand tables"
    if not defined:
        return "msdm accepted a mixture the asserts (as modelled) reject"
    if len(tab) != len(res["rows"]):
        return "row count %d (msdm) vs %d (model)" % (len(res["rows"]), len(tab))
    for i, ((mrow, mw), irow) in enumerate(zip(tab, res["rows"])):
        md = {k: v for k, v in mrow}
        idd = {PIDX[p]: vcode(v) for p, v in flatten(irow)}
        if md != idd:
            return "row %d differs: msdm %r model %r" % (i, irow, mrow)
        for name, mv, iv in (("weight", mw, res["w"][i]), ("prob", probs[i], res["p"][i]), ("prob(row)", probq[i], res["probq"][i])):
            if isinstance(iv, str) or not close(vlib.frac(iv), fq(mv)):
                return "%s of row %d: msdm %r model %s" % (name, i, iv if isinstance(iv, str) else float(vlib.frac(iv)), mv)
    return None


# independent exact oracle for the property's own sentences about product / mixture (violation search)
def oracle_ft(case, res):
    if "raised" in res:
        return None
    tabs = case["tables"]

    def key(rowdict):
        return frozenset((p, vcode(v)) for p, v in flatten(rowdict))

    def homog(t):
        ks = [frozenset(p for p, _ in flatten(r)) for r in t["rows"]]
        return len(set(ks)) == 1 and len(set(key(r) for r in t["rows"])) == len(t["rows"])

    e = case["expr"]
    got = {}
    for r, w in zip(res["rows"], res["w"]):
        if key(r) in got:
            return {"clause": "result lists the same row twice", "row": r}
        got[key(r)] = vlib.frac(w)
    gp = {key(r): vlib.frac(p) for r, p in zip(res["rows"], res["p"])}
    if e[0] == "and" and e[1][0] == "t" and e[2][0] == "t" and homog(tabs[e[1][1]]) and homog(tabs[e[2][1]]):
        t1, t2 = tabs[e[1][1]], tabs[e[2][1]]
        want = {}
        for r1, w1 in zip(t1["rows"], tw(t1)):
            for r2, w2 in zip(t2["rows"], tw(t2)):
                f1, f2 = dict(flatten(r1)), dict(flatten(r2))
                if all(f1[k] == f2[k] for k in f1 if k in f2) and F(w1) * F(w2) > 0:
                    m = dict(f1)
                    m.update(f2)
                    want[frozenset((pp, vcode(v)) for pp, v in m.items())] = F(w1) * F(w2)
        if set(want) != set(got):
            return {"clause": "product rows are not the natural join of the positive-weight rows",
                    "expected_rows": len(want), "got_rows": len(got)}
        z = sum(want.values())
        for k in want:
            if not close(got[k], want[k]):
                return {"clause": "product weight is not the product of the joined rows' weights"}
            if not close(gp[k], want[k] / z):
                return {"clause": "product probabilities are not the normalised joined weights"}
    if case["shape"] in ("mix", "fence"):
        a, bb = F(e[1][2]), F(e[2][2])
        t1, t2 = tabs[e[1][1][1]], tabs[e[2][1][1]]
        if homog(t1) and homog(t2):
            want = {}
            for t, c in ((t1, a), (t2, bb)):
                for r, w in zip(t["rows"], tw(t)):
                    want[key(r)] = want.get(key(r), F(0)) + F(w) * c
            want = {k: v for k, v in want.items() if v > 0}
            if set(want) != set(got):
                return {"clause": "mixture rows are not the union of the positive-weight rows"}
            for k in want:
                if not close(got[k], want[k]):
                    return {"clause": "mixture weight is not the sum of the two tables' weights for the row"}
    return None


# ------------------------------------------------------------------ grid games: generator
def gen_layout(rng, tier):
    while True:
        w, h = rng.randint(1, 4), rng.randint(1, 4)
        if w * h < 2:
            continue
        cells = [[[] for _ in range(w)] for _ in range(h)]      # cells[row_from_top][x]
        dens = rng.choice([0, .1, .2, .35])
        for r in range(h):
            for x in range(w):
                if rng.random() < dens * .6:
                    cells[r][x].append("#")
                if rng.random() < dens:     # one, two or three walls / fences in different directions on one cell
                    cells[r][x] += rng.sample("[]^_", rng.choice([1, 1, 1, 2, 2, 3]))
                if rng.random() < dens:
                    cells[r][x] += rng.sample("{}~u", rng.choice([1, 1, 1, 2]))
        for _ in range(rng.randint(0, 3)):
            cells[rng.randrange(h)][rng.randrange(w)].append(rng.choice(["G0", "G1", "G", "G0", "G1"]))
        free = [(r, x) for r in range(h) for x in range(w) if "#" not in cells[r][x]]
        if len(free) < 2:
            continue
        a0, a1 = rng.sample(free, 2)
        adj = [(p, q2) for p in free for q2 in free if abs(p[0] - q2[0]) + abs(p[1] - q2[1]) == 1]
        template = None
        if adj and rng.random() < .4:
            # rarely reached goal situations, built on purpose (agents in adjacent cells)
            a0, a1 = rng.choice(adj)
            template = rng.choice(["each-on-others-goal", "on-foreign-goal-other-next-to-own", "other-stands-on-my-goal",
                                   "shared-goal-between", "own-goals-behind-each-other"])
            nb1 = [c for c in free if abs(c[0] - a1[0]) + abs(c[1] - a1[1]) == 1 and c != a0]
            nb0 = [c for c in free if abs(c[0] - a0[0]) + abs(c[1] - a0[1]) == 1 and c != a1]
            if template == "each-on-others-goal":           # A0 on G1, A1 on G0: they can only swap
                cells[a0[0]][a0[1]].append("G1")
                cells[a1[0]][a1[1]].append("G0")
            elif template == "on-foreign-goal-other-next-to-own":   # A0 on a G1; A1 one step from another G1
                cells[a0[0]][a0[1]].append("G1")
                g = rng.choice(nb1) if nb1 else a0
                cells[g[0]][g[1]].append("G1")
            elif template == "other-stands-on-my-goal":      # A0 stands on A1's goal, A1 adjacent: sharing a goal cell
                cells[a0[0]][a0[1]].append("G1")
            elif template == "shared-goal-between":          # a goal of both next to both / next to one
                common = [c for c in nb0 if c in nb1]
                g = rng.choice(common or nb1 or nb0 or [a0])
                cells[g[0]][g[1]].append("G")
            else:                                            # each agent's own goal lies behind the other agent
                cells[a0[0]][a0[1]].append("G1")
                cells[a1[0]][a1[1]].append("G0")
                for c in nb0[:1]:
                    cells[c[0]][c[1]].append("G0")
        cells[a0[0]][a0[1]].append("A0")
        cells[a1[0]][a1[1]].append("A1")
        if rng.random() < .5:
            # corner room: a cell occupied by / adjacent to an agent carries 2-3 walls in different directions
            ar, ax = rng.choice([a0, a1])
            cand = [(ar, ax)] * 2 + [(ar + dr, ax + dx) for dr, dx in ((0, 1), (0, -1), (1, 0), (-1, 0))
                                     if 0 <= ar + dr < h and 0 <= ax + dx < w]
            cr, cx = rng.choice(cand)
            have = [sy for sy in cells[cr][cx] if sy in "[]^_"]
            extra = [sy for sy in rng.sample("[]^_", rng.choice([2, 2, 3])) if sy not in have]
            cells[cr][cx] += extra
        for r in range(h):
            for x in range(w):
                rng.shuffle(cells[r][x])
        if rng.random() < .2:   # obstacle border as in msdm's own examples
            cells = [[["#"] for _ in range(w + 2)]] + [[["#"]] + row + [["#"]] for row in cells] + [[["#"] for _ in range(w + 2)]]
        # the forms a game string takes in msdm's own tests: indented, ragged spacing, blank padding around it
        ind = rng.choice(["", "    ", "\t", "  "])
        layout = "\n".join(ind + (" " * rng.randint(1, 3)).join(".".join(c) if c else "." for c in row) + " " * rng.randint(0, 2)
                           for row in cells)
        if rng.random() < .5:
            layout = "\n" + layout + "\n" + ind
        fp = rng.choice(["0", "1/4", "1/2", "1", "0", "1", "3/4", "1/1073741824", "1048575/1048576",
                         "1/1099511627776", "1/1152921504606846976", "1/3", "1/10", "7/10", "1/7"])
        big = rng.random() < .5      # configured rewards (also large, also int-typed): the terminal state must pay nothing of them
        rw = {"goal_reward": rng.choice(["10", "1000000000", "7/10"]) if big else None,
              "step_cost": rng.choice(["-1", "-1000000", "-1/3"]) if big else None,
              "collision_cost": rng.choice(["-5", "-1000", "-1/10"]) if big else None,
              "reward_int": rng.random() < .5}
        return {"kind": "gg", "layout": layout, "cells": cells, "template": template,
                "fence_p": fp, "fence_int": rng.random() < .5,
                "sym_form": rng.choice([None, "dict", "tuple"]),
                "collision_prob": rng.choice([None, None, None, "1/2"]), **rw,
                "max_states": 40 if tier == "quick" else 60}


WKEYS = ("layout", "fence_p", "fence_int", "sym_form", "collision_prob", "goal_reward", "step_cost", "collision_cost", "reward_int")


def gen_games(rng, tier, n):
    """n layouts; about a third are followed by a TWIN (same layout string, other fence probability / collision mode);
    every game is preceded IN ITS PROCESS by a warm-up game (its twin or the previous layout): caches kept on the class
    or the module, or keyed by labels only, would leak from one game into the next"""
    out = []
    while len(out) < n:
        c = gen_layout(rng, tier)
        # a varying number (0-3) of other games constructed and used before this one in the same process
        nw = min(rng.randint(0, 3), len(out))
        c["warmup"] = [{k: o[k] for k in WKEYS} for o in out[len(out) - nw:]]
        out.append(c)
        if rng.random() < .35 and len(out) < n:
            t = json.loads(json.dumps(c))
            t["fence_p"] = rng.choice([x for x in ["0", "1/4", "1/2", "1", "3/4"] if x != c["fence_p"]])
            t["collision_prob"] = "1/2" if c["collision_prob"] is None else None
            t["twin"] = True
            t["warmup"] = [{k: c[k] for k in WKEYS}] + (c["warmup"][:1] if rng.random() < .5 else [])
            out.append(t)
    return out


WALLD = {"[": (-1, 0), "]": (1, 0), "^": (0, 1), "_": (0, -1)}
FENCED = {"{": (-1, 0), "}": (1, 0), "~": (0, 1), "u": (0, -1)}
OWN = {"G0": [0], "G1": [1], "G": [0, 1]}


def layout_facts(case):
    cells = case["cells"]
    H, W = len(cells), len(cells[0])
    f = {"W": W, "H": H, "obst": [], "walls": [], "fences": [], "goals": [], "init": [None, None]}
    for r, row in enumerate(cells):
        y = H - r - 1
        for x, cell in enumerate(row):
            for sym in cell:
                if sym == "#":
                    f["obst"].append((x, y))
                elif sym in WALLD:
                    f["walls"].append((x, y, x + WALLD[sym][0], y + WALLD[sym][1]))
                elif sym in FENCED:
                    f["fences"].append((x, y, x + FENCED[sym][0], y + FENCED[sym][1]))
                elif sym in OWN:
                    f["goals"].append((x, y, OWN[sym]))
                elif sym in ("A0", "A1"):
                    f["init"][int(sym[1])] = (x, y)
    return f


def facts_match(f, impl):
    names = impl["agent_names"]
    if names != ["A0", "A1"]:
        return False
    return (f["W"] == impl["width"] and f["H"] == impl["height"]
            and sorted(f["obst"]) == sorted(map(tuple, impl["obstacles"]))
            and sorted(f["walls"]) == sorted(map(tuple, impl["walls"]))
            and sorted(f["fences"]) == sorted(map(tuple, impl["fences"]))
            and sorted((x, y, tuple(o)) for x, y, o in f["goals"]) == sorted((g[0], g[1], tuple(names.index(n) for n in g[2])) for g in impl["goals"])
            and [list(c) for c in f["init"]] == impl["init"])


def cell_lit(c):
    return "(%s, %s)" % (zlit(c[0]), zlit(c[1]))


def layout_lit(case, f):
    return "(mkLayout %s %s %s %s %s %s %s %s)" % (
        zlit(f["W"]), zlit(f["H"]), coqlist(cell_lit(c) for c in f["obst"]),
        coqlist("(%s, %s)" % (cell_lit(e[:2]), cell_lit(e[2:])) for e in f["walls"]),
        coqlist("(%s, %s)" % (cell_lit(e[:2]), cell_lit(e[2:])) for e in f["fences"]),
        coqlist("(%s, %s)" % (cell_lit(g[:2]), coqlist(nat(o) for o in g[2])) for g in f["goals"]),
        q(case["fence_p"]), b(case["collision_prob"] is None))


def state_lit(s):
    return "None" if s is None else "(Some %s)" % coqlist(cell_lit(c) for c in s)


def dist_lit(tr):
    return coqlist("(%s, %s)" % (state_lit(ns), q(p)) for ns, p in tr)


CLAUSES_MOVE = ["normalised", "non-negative", "outcome-is-a-position-state", "in-grid", "no-obstacle", "no-wall-crossing",
                "one-step", "no-shared-non-goal-cell", "no-swap"]
CLAUSES_GOAL = ["normalised", "non-negative", "goal-state-leads-to-terminal"]
CLAUSES_TERM = ["normalised", "non-negative", "terminal-absorbing", "terminal-pays-nothing"]


# independent exact evaluation of the property's clauses (violation search only)
def oracle_gg(f, s, absorbing, ja, tr, rews):
    ps = [(ns, vlib.frac(p)) for ns, p in tr]
    if any(p < 0 for _, p in ps) or abs(sum(p for _, p in ps) - 1) > TOL:
        return "next-state distribution does not sum to 1"
    pos = [ns for ns, p in ps if p > 0]
    if s is None:
        if any(ns is not None for ns in pos):
            return "terminal state is not absorbing"
        if any(vlib.frac(x) != 0 for rr in rews for r in rr for x in r):
            return "terminal state pays a reward"
        return None
    if absorbing:
        return "state with an agent on its own goal does not lead to the terminal state" if any(ns is not None for ns in pos) else None
    goals = {(g[0], g[1]) for g in f["goals"]}
    for ns in pos:
        if ns is None:
            return "non-goal state jumps to the terminal state"
        c = [tuple(x) for x in ns]
        cur = [tuple(x) for x in s]
        if c[0] == c[1] and c[0] not in goals:
            return "two agents share a non-goal cell"
        if c[0] == cur[1] and c[1] == cur[0] and cur[0] != cur[1]:
            return "two agents swap cells"
        for i in range(2):
            if c[i] in set(f["obst"]):
                return "agent inside an obstacle"
            if (cur[i] + c[i]) in set(f["walls"]):
                return "agent crosses a wall in its blocked direction"
            if not (0 <= c[i][0] < f["W"] and 0 <= c[i][1] < f["H"]):
                return "agent off the grid"
            dx, dy = c[i][0] - cur[i][0], c[i][1] - cur[i][1]
            if abs(dx) + abs(dy) > 1 or (dx, dy) not in ((0, 0), tuple(ja[i])):
                return "agent moves more than its commanded single step"
    return None


def features(f, s, ja):
    out = {}
    if s is None:
        return out
    tg = []
    for i in range(2):
        c = tuple(s[i])
        t = (max(min(c[0] + ja[i][0], f["W"] - 1), 0), max(min(c[1] + ja[i][1], f["H"] - 1), 0))
        tg.append(t)
        if t != (c[0] + ja[i][0], c[1] + ja[i][1]):
            out["clamped_at_edge"] = 1
        if t != c and t in set(f["obst"]):
            out["into_obstacle"] = 1
        if c + t in set(f["walls"]):
            out["into_wall"] = 1
            if sum(1 for wl in f["walls"] if wl[:2] == c) > 1:
                out["into_wall_of_multi_wall_cell"] = 1
        if c + t in set(f["fences"]):
            out["through_fence"] = 1
            if c + t in set(f["walls"]) or t in set(f["obst"]):
                out["fence_and_wall_or_obstacle_on_same_move"] = 1
        if c + t in set(f["walls"]) and t in set(f["obst"]):
            out["wall_and_obstacle_on_same_move"] = 1
    goals = {(g[0], g[1]) for g in f["goals"]}
    if tg[0] == tg[1]:
        out["same_target_goal" if tg[0] in goals else "same_target"] = 1
    if tg[0] == tuple(s[1]) and tg[1] == tuple(s[0]):
        out["swap_attempt"] = 1
    return out


# ------------------------------------------------------------------ run
class Reporter:
    """at most CAP replay files per signature; the rest are counted"""
    CAP = 12

    def __init__(self, ctx):
        self.ctx, self.seen, self.suppressed = ctx, {}, 0

    def violation(self, sig, detail, found=True):
        self.seen[sig] = self.seen.get(sig, 0) + 1
        if self.seen[sig] > self.CAP:
            self.suppressed += 1
            return
        self.ctx.violation(sig, detail, found=found)


def run(ctx0):
    ctx = Reporter(ctx0)
    ctx.tier, ctx.rng, ctx.replay_case, ctx.impl, ctx.coq, ctx.coverage = (
        ctx0.tier, ctx0.rng, ctx0.replay_case, ctx0.impl, ctx0.coq, ctx0.coverage)
    tier = ctx.tier
    n_ft = 300 if tier == "quick" else 5000
    n_gg = 28 if tier == "quick" else 400
    if ctx.replay_case:
        cases = [ctx.replay_case["detail"]["case"]]
    else:
        cases = [gen_ft_case(ctx.rng) for _ in range(n_ft)] + gen_games(ctx.rng, tier, n_gg)
    impl = ctx.impl("c18_impl.py", {"cases": cases}, shards=8 if tier == "quick" else 16)["results"]

    terms, meta = [], []
    counters = {"ft_cases": 0, "gg_layouts": 0, "gg_states": 0, "gg_transitions": 0, "gg_goal_states": 0,
                "mirror_runs": 0, "mirror_drift": 0, "ft_mix_assert_cases": 0}
    feats, shapes = {}, {}
    distinct = set()
    for i, (case, res) in enumerate(zip(cases, impl)):
        if "error" in res:
            ctx.violation("C18:%s:impl-error:%s" % (case["kind"], res["error"].split(":")[0]),
                          {"case": case, "error": res["error"], "trace": res.get("trace")}, found=True)
            continue
        if case["kind"] == "ft":
            terms.append(ft_term(case))
            meta.append(("ft", i, None))
            continue
        f = layout_facts(case)
        if not facts_match(f, res["facts"]):
            ctx.violation("C18:gridgame:layout-parse-differs", {"case": case, "generator_facts": f, "msdm_facts": res["facts"]}, found=True)
            continue
        if res.get("repeat_mismatch"):
            ctx.violation("C18:gridgame:repeated-or-reordered-call-differs",
                          {"case": case, "mismatch": res["repeat_mismatch"]}, found=True)
        for pr in res.get("problems", []):
            ctx.violation("C18:gridgame:object-state:" + pr["what"], {"case": case, "problem": pr}, found=True)
        nonterm = [st["s"] for st in res["states"] if st["s"] is not None]
        if res.get("reach_complete"):
            # the search finished: the listed states must contain the initial state and be closed under the
            # positive-probability transitions msdm itself reports (tiny branches included)
            have = {json.dumps(x) for x in nonterm}
            missing = None
            if json.dumps(res["facts"]["init"]) not in have:
                missing = {"missing": res["facts"]["init"], "why": "initial state"}
            for st in res["states"]:
                for j, tr in enumerate(st["tr"]):
                    for ns, pq in tr:
                        if not isinstance(pq, str) and vlib.frac(pq) > 0 and missing is None:
                            if ns is None and not res["terminal_reachable"] and st["s"] is not None:
                                missing = {"missing": None, "from": st["s"], "ja": JAS[j]}
                            elif ns is not None and json.dumps(ns) not in have:
                                missing = {"missing": ns, "from": st["s"], "ja": JAS[j], "p": float(vlib.frac(pq))}
            feats["reachable_set_closure_checked"] = feats.get("reachable_set_closure_checked", 0) + 1
            if missing:
                ctx.violation("C18:gridgame:reachable-states-not-closed", {"case": case, **missing}, found=False)
        if len(nonterm) == 1:
            feats["single_state_game"] = feats.get("single_state_game", 0) + 1
        for nm in ("goal_reward", "collision_cost"):
            if case.get(nm) is not None:
                feats["configured_" + nm] = feats.get("configured_" + nm, 0) + 1
        feats["warmup_games=%d" % len(case.get("warmup", []))] = feats.get("warmup_games=%d" % len(case.get("warmup", [])), 0) + 1
        if case.get("template"):
            feats["template:" + case["template"]] = feats.get("template:" + case["template"], 0) + 1
        if case.get("twin"):
            feats["twin_game_same_layout_other_parameters"] = feats.get("twin_game_same_layout_other_parameters", 0) + 1
        feats["fence_p=" + case["fence_p"]] = feats.get("fence_p=" + case["fence_p"], 0) + 1
        L = layout_lit(case, f)
        for k, st in enumerate(res["states"]):
            xs = []
            for j, ja in enumerate(JAS):
                rews = st["rew"][j] if st["is_terminal"] else []
                xs.append("(%s, %s, %s)" % (coqlist(cell_lit(a) for a in ja), dist_lit(st["tr"][j]),
                                            coqlist(coqlist(q(x) for x in r) for r in rews)))
            terms.append("chk_state %s %s %s %s" % (L, q(TOL), state_lit(st["s"]), coqlist(xs)))
            meta.append(("chk", i, k))
            terms.append("mir_state %s %s %s" % (L, state_lit(st["s"]), coqlist(coqlist(cell_lit(a) for a in ja) for ja in JAS)))
            meta.append(("mir", i, k))

    vals = ctx.coq(PRE, terms, shard=40 if tier == "quick" else 120)
    for (kind, i, k), v in zip(meta, vals):
        case, res = cases[i], impl[i]
        if isinstance(v, vlib.CoqError):
            ctx.violation("C18:coq-evaluation-failed", {"case": case, "kind": kind, "error": str(v)[:800]}, found=False)
            continue
        if kind == "ft":
            counters["ft_cases"] += 1
            shapes[case["shape"] + "/" + case["rel"]] = shapes.get(case["shape"] + "/" + case["rel"], 0) + 1
            if "raised" in res:
                counters["ft_mix_assert_cases"] += 1
            distinct.add(vlib.structural_hash([case["tables"], case["expr"]]))
            allw = [F(w) for t in case["tables"] for w in tw(t)]
            for nm, hit in (("ft:tiny_positive_weight_or_scalar", any(0 < x <= TINY for x in allw) or
                             any(isinstance(x, str) and "/" in x and 0 < F(x) <= TINY for x in json.dumps(case["expr"]).replace('"', " ").split())),
                            ("ft:large_weights_with_1e-6_relative_gap", any(a != b and a >= 1000 and abs(a - b) <= a / 10**5 for a in allw for b in allw)),
                            ("ft:non_dyadic_weight", any(x.denominator & (x.denominator - 1) for x in allw)),
                            ("ft:ten_rows_of_one_tenth", any(len(t["rows"]) >= 10 for t in case["tables"])),
                            ("ft:int_typed_weights", any(t.get("int_w") and t["w"] and all(F(w).denominator == 1 for w in t["w"]) and t.get("ctor") == "probs" for t in case["tables"])),
                            ("ft:none_valued_variable", any(v is None for t in case["tables"] for r in t["rows"] for _, v in flatten(r))),
                            ("ft:none_vs_value_on_shared_variable", len(case["tables"]) > 1 and any(
                                pa == pb and (va is None) != (vb is None)
                                for ra in case["tables"][0]["rows"] for rb in case["tables"][1]["rows"]
                                for pa, va in flatten(ra) for pb, vb in flatten(rb))),
                            ("ft:one_row_table", any(len(t["rows"]) == 1 for t in case["tables"])),
                            ("ft:empty_table", any(len(t["rows"]) == 0 for t in case["tables"])),
                            ("ft:tiny_positive_result_weight", "rows" in res and any(not isinstance(w, str) and 0 < vlib.frac(w) <= TINY for w in res["w"]))):
                if hit:
                    feats[nm] = feats.get(nm, 0) + 1
            why = ft_compare(case, res, v)
            if why:
                orc = oracle_ft(case, res)
                detail = {"case": case, "impl": res, "difference": why}
                if orc:
                    detail["failing_clause"] = orc
                    ctx.violation("C18:factortable:%s:%s" % (case["shape"], orc["clause"]), detail, found=True)
                else:
                    ctx.violation("C18:factortable:%s:model-differs" % case["shape"], detail, found=False)
            continue
        f = layout_facts(case)
        st = res["states"][k]
        if kind == "chk":
            counters["gg_states"] += 1
            if st["s"] is not None:
                own = [any((g[0], g[1]) == tuple(st["s"][a]) and a in g[2] for g in f["goals"]) for a in range(2)]
                foreign = [any((g[0], g[1]) == tuple(st["s"][a]) and a not in g[2] for g in f["goals"]) for a in range(2)]
                for name, hit in (("state:both_on_foreign_goal", all(foreign) and not any(own)),
                                  ("state:both_on_foreign_goal_adjacent", all(foreign) and not any(own) and
                                   abs(st["s"][0][0] - st["s"][1][0]) + abs(st["s"][0][1] - st["s"][1][1]) == 1),
                                  ("state:one_on_own_goal_other_on_foreign_goal", (own[0] and foreign[1]) or (own[1] and foreign[0])),
                                  ("state:both_on_own_goal", all(own)),
                                  ("state:agent_on_foreign_goal", any(foreign) and not any(own))):
                    if hit:
                        feats[name] = feats.get(name, 0) + 1
            if st["s"] is not None and st["is_absorbing"]:
                counters["gg_goal_states"] += 1
            names = CLAUSES_TERM if st["s"] is None else (CLAUSES_GOAL if st["is_absorbing"] else CLAUSES_MOVE)
            for j, (ja, bits) in enumerate(zip(JAS, v)):
                counters["gg_transitions"] += 1
                if st["s"] is not None and not st["is_absorbing"]:
                    distinct.add(vlib.structural_hash([case["layout"], case["fence_p"], case["collision_prob"], st["s"], ja]))
                fs = features(f, st["s"], ja)
                if "through_fence" in fs and 0 < F(case["fence_p"]) <= TINY:
                    fs["through_fence_with_tiny_success_prob"] = 1
                    if any(not isinstance(pq, str) and 0 < vlib.frac(pq) <= TINY for _, pq in st["tr"][j]):
                        fs["tiny_probability_outcome_listed_by_msdm"] = 1
                for kk in fs:
                    feats[kk] = feats.get(kk, 0) + 1
                if len(bits) != len(names):
                    ctx.violation("C18:gridgame:absorbing-flag-differs", {"case": case, "state": st["s"], "is_absorbing": st["is_absorbing"]}, found=False)
                    break
                failed = [n for n, okv in zip(names, bits) if not okv]
                if failed:
                    why = oracle_gg(f, st["s"], st["is_absorbing"], ja, st["tr"][j], st["rew"][j] if st["is_terminal"] else [])
                    detail = {"case": case, "state": st["s"], "joint_action": ja, "impl_dist": st["tr"][j], "failed_clauses": failed}
                    if why:
                        detail["failing_clause"] = why
                        ctx.violation("C18:gridgame:" + why, detail, found=True)
                    else:
                        ctx.violation("C18:gridgame:certificate-rejects:" + "+".join(failed), detail, found=False)
        else:
            for j, (ja, md) in enumerate(zip(JAS, v)):
                counters["mirror_runs"] += 1
                tr = st["tr"][j]
                ok = len(md) == len(tr)
                if ok:
                    for (mns, mp), (ins, ip) in zip(md, tr):
                        mns = None if mns is None else [list(c) for c in mns[1]]
                        if mns != ins or isinstance(ip, str) or not close(vlib.frac(ip), fq(mp)):
                            ok = False
                if not ok:
                    counters["mirror_drift"] += 1
                    # a mirror difference the certificate still covers is drift, not a violation; but it means the
                    # model of the code is no longer the code: report as broken correspondence
                    ctx.violation("C18:gridgame:mirror-differs", {"case": case, "state": st["s"], "joint_action": ja,
                                                                 "impl_dist": [[ns, float(vlib.frac(p))] for ns, p in tr],
                                                                 "model_dist": [[str(a), str(p)] for a, p in md]}, found=False)
    counters["gg_layouts"] = sum(1 for c, r in zip(cases, impl) if c["kind"] == "gg" and "error" not in r)
    sample = []
    for c, r in zip(cases, impl):
        if c["kind"] == "gg" and "error" not in r:
            sample.append({"case": c, "impl_facts": r["facts"], "first_state": r["states"][0]})
            break
    if cases and cases[0]["kind"] == "ft":
        sample.append({"case": cases[0], "impl": impl[0]})
    ctx.coverage.update({
        "evaluations": counters["ft_cases"] + counters["gg_transitions"] + counters["mirror_runs"],
        "distinct_nontrivial": len(distinct),
        "rule": "factor tables: random expressions (product, 3-way product, scaled mixture, raw mixture with possibly different key order, "
                "scale, div, normalize, marginalize, marginal of a product, the grid game's fence and [1,0]-constraint patterns) over 1-5 row tables "
                "on flat and nested variables, related as shared / disjoint / partially overlapping, with duplicate rows, zero weights and "
                "occasionally heterogeneous rows; grid games: 1..4 x 1..4 grids (optionally inside an obstacle border), two agents in distinct free cells, "
                "random obstacles, one-directional walls (1-3 per cell in different directions, corner rooms on / next to an agent's cell), fences (1-2 per cell, success prob 0,1/4,1/2,1), 0-3 goals among G0/G1/G, collision_prob None or 1/2; "
                "all reachable non-terminal states (cap 40 quick / 60 thorough) + the terminal state x 25 joint actions. distinct = structural hash of (tables, expression) "
                "resp. (layout, parameters, state, joint action) for non-terminal non-goal states (non-trivial = a real move is computed)",
        "samples": sample,
        "input_features": feats, "ft_shapes": shapes, "violations_not_written": ctx.suppressed,
        "violation_counts": dict(ctx.seen), **counters,
    })
