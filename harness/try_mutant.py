#!/usr/bin/env python3
"""try_mutant.py <prop> <src_dir> <k> [--save]: apply <src_dir>/<k>/patch.diff to /repo, confirm demo.py fails with it and
passes without, run ./check <prop> (quick) against it, undo, and with --save store it under /verif/seeded/<prop>-<k>/"""
import json, os, shutil, subprocess, sys
prop, src, k = sys.argv[1], sys.argv[2], sys.argv[3]
save = "--save" in sys.argv
ROOT = os.path.dirname(os.path.dirname(os.path.abspath(__file__)))
d = os.path.join(src, k)
patch = os.path.join(d, "patch_rebased.diff") if os.path.exists(os.path.join(d, "patch_rebased.diff")) else os.path.join(d, "patch.diff")
def sh(cmd, **kw):
    return subprocess.run(cmd, shell=True, capture_output=True, text=True, **kw)
# The mutant is applied in a scratch worktree of /repo's HEAD and the check is pointed at it with
# MSDM_REPO (equivalent to `git -C /repo apply` + undo, but safe while other checks run on /repo).
WT = "/tmp/mutrun_%s_%s" % (prop, k)
sh("git -C /repo worktree remove --force %s" % WT)
assert sh("git -C /repo worktree add -q --detach %s HEAD" % WT).returncode == 0
env = dict(os.environ, PYTHONPATH="/repo")
demo_clean = subprocess.run(["/venv/bin/python", os.path.join(d, "demo.py")], capture_output=True, text=True, env=env, timeout=900).returncode
r = sh("git -C %s apply %s" % (WT, patch))
if r.returncode != 0:
    r = sh("git -C %s apply --3way %s" % (WT, patch))
    if r.returncode != 0:
        print("PATCH DOES NOT APPLY:", r.stderr[-500:]); sh("git -C /repo worktree remove --force %s" % WT); sys.exit(2)
evf = os.path.join(ROOT, "evidence", prop + ".json")
ev_backup = open(evf).read() if os.path.exists(evf) else None
try:
    env = dict(os.environ, PYTHONPATH=WT)
    demo_mut = subprocess.run(["/venv/bin/python", os.path.join(d, "demo.py")], capture_output=True, text=True, env=env, timeout=900).returncode
    results = {}
    for seed in ("0",):
        c = subprocess.run(["./check", prop, "--tier", "quick"], cwd=ROOT, capture_output=True, text=True, env=dict(os.environ, VERIF_SEED=seed, MSDM_REPO=WT), timeout=3000)
        lines = [l for l in c.stdout.splitlines() if not l.startswith("KNOWN-FINDING")]
        sigs = []
        for l in lines:
            if l.startswith("VIOLATION"):
                rp = l.split("replay=")[1].split()[0]
                try:
                    sigs.append(json.load(open(os.path.join(ROOT, rp)))["signature"])
                except Exception:
                    pass
        results[seed] = {"exit": c.returncode, "tail": lines[-3:], "signatures": sorted(set(sigs))[:8]}
finally:
    sh("git -C /repo worktree remove --force %s" % WT)
    sh("cd %s && python3 harness/extract_sites.py > /dev/null" % ROOT)   # source-derived Coq files back to /repo's
    if ev_backup is not None:      # evidence must come from runs against /repo itself
        open(evf, "w").write(ev_backup)
    sh("find %s/replays -name '%s_*' -newer %s -delete" % (ROOT, prop, patch))
caught = any(v["exit"] == 1 for v in results.values())
print(json.dumps({"prop": prop, "k": k, "demo_clean_exit": demo_clean, "demo_mutant_exit": demo_mut, "check": results, "caught": caught}, indent=1))
if save:
    out = os.path.join(ROOT, "seeded", "%s-%s" % (prop, k))
    os.makedirs(out, exist_ok=True)
    shutil.copy(patch, os.path.join(out, "patch.diff"))
    for f in ("demo.py", "notes.md"):
        if os.path.exists(os.path.join(d, f)):
            shutil.copy(os.path.join(d, f), os.path.join(out, f))
    notes = open(os.path.join(d, "notes.md")).read() if os.path.exists(os.path.join(d, "notes.md")) else ""
    json.dump({"property": prop, "breaks": notes[:1500], "needs_to_manifest": "see notes.md",
               "ran": {"demo_on_clean_repo_exit": demo_clean, "demo_with_patch_exit": demo_mut,
                       "check_cmd": "git -C /repo worktree add --detach /tmp/wt HEAD && git -C /tmp/wt apply patch.diff && MSDM_REPO=/tmp/wt ./check %s --tier quick  (same as applying to /repo and undoing)" % prop,
                       "check_result": results},
               "caught_by_check": caught, "repo_head": sh("git -C /repo rev-parse --short HEAD").stdout.strip()},
              open(os.path.join(out, "meta.json"), "w"), indent=1)
